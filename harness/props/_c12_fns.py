"""C12 — function-level translator: Python `ast` -> Lean definitions (lean/GlotaranModel/Generated/C12Fns.lean).

`Parameters.update_parameter_expression`, `Parameters.__init__`, `Parameters.copy`, `Parameters.all`, `Parameter.copy`,
`set_transformed_expression` and the default of `Parameter.value` are transcribed statement by statement into Lean
definitions over the Python-level objects of lean/GlotaranModel/C12Py.lean (`Py.Parameter` with the expression *texts* and
the bounds, `Py.Dict` = the insertion-ordered `_parameters`).  Conventions:

* a `for` loop becomes a structurally recursive auxiliary definition over the list it iterates; the names assigned in
  its body that live across iterations (and `self`, when the body mutates an object of the dict) are its state;
  `break` returns the state, `raise` is `.error (exception, self)` (the object is left as it is at that moment);
  `for _ in range(len(xs))` with an unused target is the loop over `xs`;
* a loop variable over (a list taken from) `self.all()` is a *reference* into the dict: an attribute that the function
  assigns through such a reference is read and written through the dict (`Py.getValue` / `Py.setValue`), every other
  attribute is read from the reference itself;
* `self._evaluator(text)` is `Py.evaluator F P <symbols bound in __init__> self text` (asteval: the abstract evaluator of the
  model on the abstract reading `P` of the text); `isinstance`, `!=`, `float`, `np.isclose`, the `ValueError`, `REGEX.sub`
  with a literal template, `evolve`, dict/list comprehensions have fixed meanings in C12Py.lean.

Anything else raises `Untranslatable`; the function (and every function that calls it) is then emitted as
`def f : Py.Untranslatable := ⟨reason⟩`: the file still compiles and the `generated_*_eq_model` theorems about it do not.
"""
from __future__ import annotations

import ast
import hashlib
import re
from pathlib import Path

SOURCES = ["glotaran/parameter/parameter.py", "glotaran/parameter/parameters.py"]
RESERVED = {"attribute", "end", "from", "at", "fun", "have", "show", "then", "do", "open", "instance", "example", "theorem"}

FIELDS = {  # attribute of Parameter -> (Lean field, type)
    "label": ("label", "str"), "value": ("value", "val"), "expression": ("expression", "optstr"),
    "transformed_expression": ("transformed_expression", "optstr"), "minimum": ("minimum", "bound"),
    "maximum": ("maximum", "bound"), "non_negative": ("non_negative", "bool"), "vary": ("vary", "bool"),
}
LEAN_T = {
    "dict": "Py.Dict", "param": "Py.Parameter", "ref": "Py.Parameter", "bool": "Bool", "pyval": "Py.PyVal",
    "optval": "Option Val", "val": "Val", "str": "String", "optstr": "Option String", "unit": "Unit",
    "bound": "Py.Bound", "list_ref": "List Py.Parameter", "list_param": "List Py.Parameter",
    "list_kv": "List (String × Py.Parameter)",
}


class Untranslatable(Exception):
    pass


def nm(name: str) -> str:
    return name + "_" if name in RESERVED else name


def lstr(s: str) -> str:
    return '"' + s.replace("\\", "\\\\").replace('"', '\\"').replace("\n", "\\n") + '"'


def ind(lines, n=2):
    return [" " * n + ln for ln in lines]


def paren(lines):
    """wrap a multi-line term into parentheses"""
    if len(lines) == 1:
        return ["(" + lines[0] + ")"]
    return ["(" + lines[0]] + ind(lines[1:-1], 1) + [" " + lines[-1] + ")"]


def tup(names):
    return names[0] if len(names) == 1 else "(" + ", ".join(names) + ")"


def names_in(node, ctx):
    return [n.id for n in ast.walk(node) if isinstance(n, ast.Name) and isinstance(n.ctx, ctx)]


class Module:
    """what the translator needs from the two source files besides the function bodies"""

    def __init__(self, repo: Path):
        self.texts = {src: (repo / src).read_text() for src in SOURCES}
        self.trees = {src: ast.parse(t) for src, t in self.texts.items()}
        self.regexes = {}       # module-level NAME = re.compile(r"...") -> pattern text
        for node in self.trees[SOURCES[0]].body:
            if isinstance(node, ast.Assign) and len(node.targets) == 1 and isinstance(node.targets[0], ast.Name) \
                    and isinstance(node.value, ast.Call) and ast.unparse(node.value.func) == "re.compile" \
                    and node.value.args and isinstance(node.value.args[0], ast.Constant):
                self.regexes[node.targets[0].id] = node.value.args[0].value

    def find(self, cls, fn):
        for src in SOURCES:
            body = self.trees[src].body
            if cls:
                body = [m for c in body if isinstance(c, ast.ClassDef) and c.name == cls for m in c.body]
            for n in body:
                if isinstance(n, ast.FunctionDef) and n.name == fn:
                    return src, n
        raise Untranslatable(f"{cls}.{fn} not found")

    def klass(self, cls):
        for src in SOURCES:
            for c in self.trees[src].body:
                if isinstance(c, ast.ClassDef) and c.name == cls:
                    return c
        raise Untranslatable(f"class {cls} not found")

    def attrs_fields(self):
        """attrs fields of `Parameter`: name -> (default node, validators, init flag)"""
        out = {}
        for st in self.klass("Parameter").body:
            if isinstance(st, ast.AnnAssign) and isinstance(st.target, ast.Name):
                default, validators, init = st.value, [], True
                if isinstance(st.value, ast.Call) and ast.unparse(st.value.func) in ("ib", "attr.ib", "field"):
                    default = None
                    for kw in st.value.keywords:
                        if kw.arg == "default":
                            default = kw.value
                        elif kw.arg == "validator":
                            validators = list(kw.value.elts) if isinstance(kw.value, (ast.List, ast.Tuple)) else [kw.value]
                        elif kw.arg == "init":
                            init = bool(getattr(kw.value, "value", True))
                        elif kw.arg in ("converter", "repr"):
                            pass
                        else:
                            raise Untranslatable(f"attrs option {kw.arg} of field {st.target.id}")
                out[st.target.id] = (default, validators, init)
        return out

    def mutating_validator(self):
        """the one validator that changes the instance (all the others only check)"""
        found = []
        for name, (_, validators, _) in self.attrs_fields().items():
            for v in validators:
                if isinstance(v, ast.Name):
                    _, fn = self.find(None, v.id)
                    if any(isinstance(t, ast.Attribute) for st in ast.walk(fn) if isinstance(st, (ast.Assign, ast.AugAssign))
                           for t in (st.targets if isinstance(st, ast.Assign) else [st.target])):
                        found.append((name, v.id))
                elif ast.unparse(v).startswith("validators.instance_of("):
                    pass
                else:
                    raise Untranslatable(f"validator {ast.unparse(v)} of field {name}")
        if len(found) != 1 or found[0][0] != "expression":
            raise Untranslatable(f"mutating validators {found} (expected exactly one, on `expression`)")
        fields = self.attrs_fields()
        te = fields.get("transformed_expression")
        if te is None or te[2] or ast.unparse(te[0]) != "None":
            raise Untranslatable("`transformed_expression` is not an init=False field with default None")
        for f in FIELDS:
            if f not in fields:
                raise Untranslatable(f"Parameter has no field {f}")
        return found[0][1]


class Fn:
    def __init__(self, mod: Module, registry, cls, fn, lean_name, arg_types, kind):
        self.mod, self.registry, self.cls, self.fn, self.lean, self.kind = mod, registry, cls, fn, lean_name, kind
        self.src, self.node = mod.find(cls, fn)
        if self.node.decorator_list:
            raise Untranslatable("decorated function")
        self.args = [(a.arg, t) for a, t in zip(self.node.args.args, arg_types)]
        if len(self.args) != len(self.node.args.args) or self.node.args.kwonlyargs or self.node.args.vararg:
            raise Untranslatable("unexpected signature")
        self.aux, self.nloops, self.uses_fp = [], 0, False
        # attributes assigned through references into the dict
        self.ref_assigned = set()
        for st in ast.walk(self.node):
            if isinstance(st, ast.Assign):
                for t in st.targets:
                    if isinstance(t, ast.Attribute) and isinstance(t.value, ast.Name) and t.value.id != "self":
                        self.ref_assigned.add(t.attr)

    # ---------------------------------------------------------------- expressions
    def callee(self, lean_name):
        r = self.registry.get(lean_name)
        if r is None or isinstance(r, Broken):
            raise Untranslatable(f"calls {lean_name}, which is not translated")
        return r

    def expr(self, e, env):
        if isinstance(e, ast.Name):
            if e.id not in env:
                raise Untranslatable(f"name {e.id}")
            return nm(e.id), env[e.id]
        if isinstance(e, ast.Constant):
            if e.value is True or e.value is False:
                return ("true" if e.value else "false"), "bool"
            if e.value is None:
                return "none", "none"
            if isinstance(e.value, str):
                return lstr(e.value), "str"
            raise Untranslatable(f"constant {e.value!r}")
        if isinstance(e, ast.Attribute) and isinstance(e.value, ast.Name) and e.value.id in env:
            obj, t = e.value.id, env[e.value.id]
            if t in ("ref", "param") and e.attr in FIELDS:
                field, ft = FIELDS[e.attr]
                if t == "ref" and e.attr in self.ref_assigned:
                    if e.attr != "value":
                        raise Untranslatable(f"attribute {e.attr} assigned through a reference")
                    return f"(Py.getValue self {nm(obj)})", "optval"
                return f"{nm(obj)}.{field}", ft
            if t == "dict" and e.attr == "_parameters":
                return nm(obj), "dict"
            raise Untranslatable(f"attribute {ast.unparse(e)}")
        if isinstance(e, ast.UnaryOp) and isinstance(e.op, ast.Not):
            return f"(!{self.cond(e.operand, env)})", "bool"
        if isinstance(e, ast.BoolOp):
            op = " && " if isinstance(e.op, ast.And) else " || "
            return "(" + op.join(self.cond(v, env) for v in e.values) + ")", "bool"
        if isinstance(e, ast.Compare) and len(e.ops) == 1:
            a, ta = self.expr(e.left, env)
            b, tb = self.expr(e.comparators[0], env)
            op = e.ops[0]
            if tb == "none" and ta == "optstr" and isinstance(op, (ast.IsNot, ast.NotEq)):
                return f"{a}.isSome", "bool"
            if tb == "none" and ta == "optstr" and isinstance(op, (ast.Is, ast.Eq)):
                return f"{a}.isNone", "bool"
            if (ta, tb) == ("pyval", "optval") and isinstance(op, ast.NotEq):
                return f"(Py.ne {a} {b})", "bool"
            if (ta, tb) == ("pyval", "optval") and isinstance(op, ast.Eq):
                return f"(!(Py.ne {a} {b}))", "bool"
            raise Untranslatable(f"comparison {ast.unparse(e)} of {ta} and {tb}")
        if isinstance(e, ast.Call):
            return self.call(e, env)
        if isinstance(e, ast.ListComp) and len(e.generators) == 1 and not e.generators[0].is_async \
                and isinstance(e.generators[0].target, ast.Name):
            g = e.generators[0]
            it, tit = self.expr(g.iter, env)
            if tit not in ("list_ref", "list_param"):
                raise Untranslatable(f"comprehension over {tit}")
            x = g.target.id
            env2 = dict(env)
            env2[x] = "ref" if tit == "list_ref" else "param"
            out = it
            for c in g.ifs:
                out = f"({out}.filter (fun {nm(x)} => {self.cond(c, env2)}))"
            if not (isinstance(e.elt, ast.Name) and e.elt.id == x):
                raise Untranslatable("comprehension that maps its elements")
            return out, tit
        if isinstance(e, ast.DictComp) and len(e.generators) == 1 and not e.generators[0].ifs \
                and isinstance(e.generators[0].target, ast.Tuple) and len(e.generators[0].target.elts) == 2 \
                and all(isinstance(x, ast.Name) for x in e.generators[0].target.elts):
            g = e.generators[0]
            it, tit = self.expr(g.iter, env)
            if tit != "list_kv":
                raise Untranslatable(f"dict comprehension over {tit}")
            k, v = (x.id for x in g.target.elts)
            env2 = dict(env)
            env2[k], env2[v] = "str", "param"
            ke, kt = self.expr(e.key, env2)
            ve, vt = self.expr(e.value, env2)
            if (kt, vt) != ("str", "param"):
                raise Untranslatable(f"dict comprehension of {kt}: {vt}")
            return f"(Py.dictOf ({it}.map (fun ({nm(k)}, {nm(v)}) => ({ke}, {ve}))))", "dict"
        raise Untranslatable(f"expression {ast.unparse(e)}")

    def cond(self, e, env):
        t, ty = self.expr(e, env)
        if ty == "bool":
            return t
        if ty == "optstr":
            return f"(Py.truthy {t})"
        raise Untranslatable(f"truth value of {ty}")

    def call(self, e, env):
        f = ast.unparse(e.func)
        if e.keywords:
            raise Untranslatable(f"keyword arguments in {ast.unparse(e)}")
        args = e.args
        if f == "self._evaluator" and len(args) == 1:
            self.callee("Parameters_evaluator_symbols")
            a, t = self.expr(args[0], env)
            if t != "optstr":
                raise Untranslatable(f"evaluator called with {t}")
            self.uses_fp = True
            return f"(Py.evaluator F P Parameters_evaluator_symbols self {a})", "pyval"
        if f == "isinstance" and len(args) == 2:
            a, t = self.expr(args[0], env)
            if t != "pyval":
                raise Untranslatable(f"isinstance of {t}")
            classes = args[1].elts if isinstance(args[1], ast.Tuple) else [args[1]]
            return f"(Py.isinstance {a} [{', '.join(lstr(ast.unparse(c)) for c in classes)}])", "bool"
        if f == "float" and len(args) == 1:
            a, t = self.expr(args[0], env)
            if t == "pyval":
                return f"(Py.float {a})", "val"
            if t == "val":
                return a, "val"
            raise Untranslatable(f"float of {t}")
        if f in ("np.isclose", "numpy.isclose", "math.isclose") and len(args) == 2:
            a, ta = self.expr(args[0], env)
            b, tb = self.expr(args[1], env)
            if (ta, tb) != ("pyval", "optval"):
                raise Untranslatable(f"isclose of {ta}, {tb}")
            return f"(Py.isclose {a} {b})", "bool"
        if f == "self.all" and not args and env.get("self") == "dict":
            self.callee("Parameters_all")
            return "(Parameters_all self)", "list_ref"
        if f in ("self._parameters.values", "self._parameters.items") and not args and env.get("self") == "dict":
            return ("(Py.values self)", "list_ref") if f.endswith("values") else ("(Py.items self)", "list_kv")
        if f == "evolve" and len(args) == 1:
            a, t = self.expr(args[0], env)
            if t != "param":
                raise Untranslatable(f"evolve of {t}")
            v = self.mod.mutating_validator()
            self.callee(v)
            return f"(Py.evolve {v} {a})", "param"
        if isinstance(e.func, ast.Attribute) and e.func.attr == "copy" and not args and isinstance(e.func.value, ast.Name) \
                and env.get(e.func.value.id) == "param":
            self.callee("Parameter_copy")
            return f"(Parameter_copy {nm(e.func.value.id)})", "param"
        if isinstance(e.func, ast.Attribute) and e.func.attr == "sub" and isinstance(e.func.value, ast.Name) \
                and e.func.value.id in self.mod.regexes and len(args) == 2 and isinstance(args[0], ast.Constant) \
                and isinstance(args[0].value, str):
            groups = re.findall(r"\(\?P<(\w+)>", self.mod.regexes[e.func.value.id])
            if len(groups) != 1:
                raise Untranslatable("the pattern does not have exactly one named group")
            a, t = self.expr(args[1], env)
            if t != "optstr":
                raise Untranslatable(f"sub on {t}")
            return f"(Py.reSub {lstr(groups[0])} {lstr(args[0].value)} {a})", "optstr"
        raise Untranslatable(f"call {ast.unparse(e)}")

    # ---------------------------------------------------------------- statements
    def assigned(self, stmts):
        """variables a block assigns (an attribute assignment assigns the object / `self` for a reference)"""
        out = []

        def add(x):
            if x not in out:
                out.append(x)
        for st in stmts:
            for n in ast.walk(st):
                if isinstance(n, (ast.Assign, ast.AnnAssign)) and getattr(n, "value", None) is not None:
                    for t in (n.targets if isinstance(n, ast.Assign) else [n.target]):
                        if isinstance(t, ast.Name):
                            add(t.id)
                        elif isinstance(t, ast.Attribute) and isinstance(t.value, ast.Name):
                            add(("self", t.value.id))
                        else:
                            raise Untranslatable(f"assignment target {ast.unparse(t)}")
                elif isinstance(n, ast.AugAssign):
                    raise Untranslatable("augmented assignment")
                elif isinstance(n, ast.Call) and ast.unparse(n.func) == "self.update_parameter_expression":
                    add(("self", "self"))
        return out

    def resolve_assigned(self, raw, env):
        out = []
        for x in raw:
            if isinstance(x, tuple):
                obj = x[1]
                x = obj if env.get(obj) == "param" else "self"     # anything but an owned object is a reference into the dict
            if x not in out:
                out.append(x)
        if "self" in out:
            out.remove("self")
            out.insert(0, "self")
        return out

    def terminates(self, stmts):
        return bool(stmts) and isinstance(stmts[-1], (ast.Raise, ast.Break, ast.Return))

    def block(self, stmts, env, cont, loop):
        if not stmts:
            return cont(env)
        st, rest = stmts[0], stmts[1:]

        def after(env2):
            return self.block(rest, env2, cont, loop)
        if isinstance(st, ast.Expr) and isinstance(st.value, ast.Constant) and isinstance(st.value.value, str):
            return after(env)
        if isinstance(st, ast.AnnAssign) and st.value is not None:
            st = ast.Assign(targets=[st.target], value=st.value)
        if isinstance(st, ast.Assign) and len(st.targets) == 1:
            t = st.targets[0]
            if isinstance(t, ast.Name):
                v, ty = self.expr(st.value, env)
                if ty == "none":
                    raise Untranslatable(f"None assigned to {t.id}")
                env2 = dict(env)
                env2[t.id] = ty
                return [f"let {nm(t.id)} := {v}"] + after(env2)
            if isinstance(t, ast.Attribute) and isinstance(t.value, ast.Name):
                obj, oty = t.value.id, env.get(t.value.id)
                if oty == "dict" and obj == "self":
                    if t.attr == "_parameters":
                        v, ty = self.expr(st.value, env)
                        if ty != "dict":
                            raise Untranslatable(f"_parameters := {ty}")
                        return [f"let self := {v}"] + after(env)
                    if t.attr == "_evaluator":
                        self.callee("Parameters_evaluator_symbols")      # translated separately (must be translatable)
                        return after(env)
                    if t.attr == "source_path":
                        return after(env)
                    raise Untranslatable(f"assignment to self.{t.attr}")
                if t.attr not in FIELDS:
                    raise Untranslatable(f"assignment to attribute {t.attr}")
                field, fty = FIELDS[t.attr]
                v, ty = self.expr(st.value, env)
                if ty != fty:
                    raise Untranslatable(f"{ast.unparse(t)} : {fty} := {ty}")
                if oty == "param":
                    return [f"let {nm(obj)} := {{ {nm(obj)} with {field} := {v} }}"] + after(env)
                if oty == "ref" and t.attr == "value":
                    return [f"let self := Py.setValue self {nm(obj)} {v}"] + after(env)
            raise Untranslatable(f"assignment {ast.unparse(st)}")
        if isinstance(st, ast.If):
            c = self.cond(st.test, env)
            if self.terminates(st.body) and not st.orelse:
                return [f"if {c} then"] + ind(self.block(st.body, env, None, loop)) + ["else"] + ind(after(env))
            if self.terminates(st.orelse) and st.orelse:
                return [f"if {c} then"] + ind(self.block(st.body + rest, env, cont, loop)) + ["else"] + \
                    ind(self.block(st.orelse, env, None, loop))
            vs = self.resolve_assigned(self.assigned(st.body + st.orelse), env)
            for v in vs:
                if v not in env:
                    raise Untranslatable(f"{v} is assigned in one branch only")
            res = tup([nm(v) for v in vs])
            b1 = self.block(st.body, env, lambda e: [res], loop)
            b2 = self.block(st.orelse, env, lambda e: [res], loop)
            return [f"let {res} :=", f"  if {c} then"] + ind(paren(b1), 4) + ["  else"] + ind(b2, 4) + after(env)
        if isinstance(st, ast.For):
            return self.for_loop(st, rest, env, cont, loop)
        if isinstance(st, ast.Break):
            if loop is None:
                raise Untranslatable("break outside a loop")
            return [f".ok ({', '.join(nm(v) for v in loop['state'])})"]
        if isinstance(st, ast.Raise):
            return [self.raise_(st, env)]
        if isinstance(st, ast.Expr) and isinstance(st.value, ast.Call) \
                and ast.unparse(st.value.func) == "self.update_parameter_expression" and not st.value.args:
            self.callee("update_parameter_expression")
            self.uses_fp = True
            return ["match update_parameter_expression F P self with", "| .error e => .error e", "| .ok (self) =>"] + ind(after(env))
        if isinstance(st, ast.Return) and st.value is not None and loop is None:
            if self.kind == "value":
                v, _ = self.expr(st.value, env)
                return [v]
            if self.kind == "new" and isinstance(st.value, ast.Call) and ast.unparse(st.value.func) == "Parameters" \
                    and len(st.value.args) == 1 and not st.value.keywords:
                self.callee("Parameters_init")
                self.uses_fp = True
                v, ty = self.expr(st.value.args[0], env)
                if ty != "dict":
                    raise Untranslatable(f"Parameters({ty})")
                return [f"Parameters_init F P {v}"]
        if isinstance(st, ast.Expr) and isinstance(st.value, ast.YieldFrom) and self.kind == "generator" and not rest:
            v, ty = self.expr(st.value.value, env)
            if ty != "list_ref":
                raise Untranslatable(f"yield from {ty}")
            return [v]
        raise Untranslatable(f"statement {ast.unparse(st).splitlines()[0]}")

    def raise_(self, st, env):
        e = st.exc
        if isinstance(e, ast.Call) and ast.unparse(e.func) == "ValueError" and len(e.args) == 1 \
                and isinstance(e.args[0], ast.JoinedStr) and env.get("self") == "dict":
            strs, vals = [], []
            for part in e.args[0].values:
                if isinstance(part, ast.FormattedValue):
                    t, ty = self.expr(part.value, env)
                    if ty == "str":
                        strs.append(t)
                    elif ty == "pyval":
                        vals.append(t)
                    elif ty != "optstr":
                        raise Untranslatable(f"message with a {ty}")
            if len(strs) == 1 and len(vals) == 1:
                return f".error (Py.nonNumeric {strs[0]} {vals[0]}, self)"
        raise Untranslatable(f"raise {ast.unparse(e) if e else ''}")

    def for_loop(self, st, rest, env, cont, loop):
        if st.orelse:
            raise Untranslatable("for … else")
        target_used = isinstance(st.target, ast.Name) and st.target.id in names_in(ast.Module(body=st.body, type_ignores=[]), ast.Load)
        it = st.iter
        if isinstance(it, ast.Call) and ast.unparse(it.func) == "range" and len(it.args) == 1 and isinstance(it.args[0], ast.Call) \
                and ast.unparse(it.args[0].func) == "len" and len(it.args[0].args) == 1 and not target_used:
            it = it.args[0].args[0]
        items, tit = self.expr(it, env)
        if tit not in ("list_ref", "list_param") or not isinstance(st.target, ast.Name):
            raise Untranslatable(f"loop over {tit}")
        item_t = "ref" if tit == "list_ref" else "param"
        body_mod = ast.Module(body=st.body, type_ignores=[])
        raw = self.resolve_assigned(self.assigned(st.body), {**env, st.target.id: item_t})
        after_names = set()
        for s in rest:
            after_names.update(names_in(s, ast.Load))
        if loop is not None:      # what the enclosing loop carries is alive after this loop as well
            after_names.update(loop["state"])
        state = [v for v in raw if v == "self" or (v in env and v in after_names)]
        if not state:
            raise Untranslatable("loop without effect")
        self.nloops += 1
        name = f"{self.lean}_for{self.nloops}"
        loads = names_in(body_mod, ast.Load)
        free = [v for v in env if v in loads and v not in state and v != st.target.id and v != "self"]
        self.uses_fp = True
        me = {"state": state, "name": name}
        call_prefix = f"{name} F P" + "".join(f" {nm(v)}" for v in free)
        env_body = dict(env)
        env_body[st.target.id] = item_t
        svars = [nm(v) for v in state]
        body = self.block(st.body, env_body, lambda e: [f"{call_prefix} rest_ " + " ".join(svars)], me)
        head = nm(st.target.id) if target_used else "_"
        res_t = " × ".join(LEAN_T[env[v]] for v in state)
        sig = f"def {name} (F : Funs) (P : Py.Parser)" + "".join(f" ({nm(v)} : {LEAN_T[env[v]]})" for v in free) + \
            f" : {LEAN_T[tit]} → " + " → ".join(LEAN_T[env[v]] for v in state) + f" → Py.Res ({res_t})"
        aux = [sig, f"  | [], {', '.join(svars)} => .ok ({', '.join(svars)})", f"  | {head} :: rest_, {', '.join(svars)} =>"] + ind(body, 4)
        self.aux.append("\n".join(aux))
        return [f"match {call_prefix} {items} " + " ".join(svars) + " with", "| .error e => .error e",
                f"| .ok ({', '.join(svars)}) =>"] + ind(self.block(rest, env, cont, loop))

    # ---------------------------------------------------------------- whole function
    def translate(self):
        env = {a: t for a, t in self.args}
        first = self.args[0][0]
        if self.kind == "self":
            def end(e):
                return [".ok (self)"]
            if first != "self":
                raise Untranslatable("not a method")
            res = "Py.Res (Py.Dict)"
            if self.fn == "__init__":
                env = {"self": "dict", **{a: t for a, t in self.args[1:]}}
        elif self.kind == "obj":
            def end(e):
                return [nm(first)]
            res = "Py.Parameter"
        elif self.kind == "new":
            end, res = None, "Py.Res (Py.Dict)"
        elif self.kind == "generator":
            end, res = None, "List Py.Parameter"
        else:
            end, res = None, "Py.Parameter"
        if end is None:
            def end(e):
                raise Untranslatable("the function can end without a return")
        if self.fn == "__init__":
            body = self.block(self.node.body, env, end, None)
            params = self.args[1:]
        else:
            body = self.block(self.node.body, env, end, None)
            params = self.args
        fp = "(F : Funs) (P : Py.Parser) " if self.uses_fp else ""
        qual = f"{self.cls}.{self.fn}" if self.cls else self.fn
        head = f"/-- `{qual}` ({self.src}:{self.node.lineno}) -/\ndef {self.lean} {fp}" + \
            " ".join(f"({nm(a)} : {LEAN_T[t]})" for a, t in params) + f" : {res} :="
        self.text = "\n\n".join(self.aux + [head + "\n" + "\n".join(ind(body))])
        return self

    def render(self):
        return self.text


class Const:
    def __init__(self, lean, text):
        self.lean, self.text = lean, text

    def render(self):
        return self.text


class Broken:
    def __init__(self, lean, qual, reason):
        self.lean, self.qual, self.reason = lean, qual, reason

    def render(self):
        return f"/-- `{self.qual}`: outside the translated subset -/\ndef {self.lean} : Py.Untranslatable := ⟨{lstr(self.reason)}⟩"


def default_value(mod: Module):
    fields = mod.attrs_fields()
    d = fields.get("value", (None,))[0]
    src = ast.unparse(d) if d is not None else "<none>"
    line = next(st.lineno for st in mod.klass("Parameter").body if isinstance(st, ast.AnnAssign) and st.target.id == "value")
    if src in ("np.nan", "numpy.nan", "math.nan", "float('nan')"):
        v = "none"
    elif isinstance(d, ast.Constant) and isinstance(d.value, (int, float)) and not isinstance(d.value, bool) and d.value == d.value \
            and abs(d.value) != float("inf"):
        from fractions import Fraction
        q = Fraction(d.value)
        v = f"some (({q.numerator} : Rat) / {q.denominator})"
    else:
        raise Untranslatable(f"default {src} of Parameter.value")
    return Const("Parameter_value_default",
                 f"/-- default of `Parameter.value` ({SOURCES[0]}:{line}): `{src}` -/\ndef Parameter_value_default : Val := {v}")


def evaluator_symbols(mod: Module):
    src, init = mod.find("Parameters", "__init__")
    found = None
    for st in init.body:
        if isinstance(st, ast.Assign) and ast.unparse(st.targets[0]) == "self._evaluator":
            c = st.value
            if not (isinstance(c, ast.Call) and ast.unparse(c.func) == "asteval.Interpreter" and not c.args
                    and len(c.keywords) == 1 and c.keywords[0].arg == "symtable"):
                raise Untranslatable(f"evaluator {ast.unparse(c)}")
            t = c.keywords[0].value
            if not (isinstance(t, ast.Call) and ast.unparse(t.func) == "asteval.make_symbol_table" and not t.args):
                raise Untranslatable(f"symbol table {ast.unparse(t)}")
            syms = []
            for kw in t.keywords:
                if not (isinstance(kw.value, ast.Name) and kw.value.id == "self"):
                    raise Untranslatable(f"symbol {kw.arg} bound to {ast.unparse(kw.value)}")
                syms.append(kw.arg)
            found = (st.lineno, syms)
    if found is None:
        raise Untranslatable("__init__ does not create self._evaluator")
    return Const("Parameters_evaluator_symbols",
                 f"/-- the symbols `Parameters.__init__` binds to `self` in the interpreter's symbol table ({src}:{found[0]}) -/\n"
                 f"def Parameters_evaluator_symbols : List String := [{', '.join(lstr(s) for s in found[1])}]")


TARGETS = [
    ("const", "Parameter.value default", "Parameter_value_default", default_value),
    ("fn", None, "set_transformed_expression", "set_transformed_expression", ["param", "unit", "optstr"], "obj"),
    ("fn", "Parameter", "copy", "Parameter_copy", ["param"], "value"),
    ("fn", "Parameters", "all", "Parameters_all", ["dict"], "generator"),
    ("const", "Parameters.__init__ (evaluator)", "Parameters_evaluator_symbols", evaluator_symbols),
    ("fn", "Parameters", "update_parameter_expression", "update_parameter_expression", ["dict"], "self"),
    ("fn", "Parameters", "__init__", "Parameters_init", ["dict", "dict"], "self"),
    ("fn", "Parameters", "copy", "Parameters_copy", ["dict"], "new"),
]


def translate_all(repo: Path):
    registry: dict = {}
    out = []
    try:
        mod = Module(repo)
        texts = mod.texts
    except Exception as e:      # unreadable / unparsable source: everything is untranslatable
        mod, texts = None, {}
        reason = f"source not readable: {type(e).__name__}: {e}"
    for t in TARGETS:
        lean = t[2] if t[0] == "const" else t[3]
        qual = t[1] if t[0] == "const" else (f"{t[1]}.{t[2]}" if t[1] else t[2])
        try:
            if mod is None:
                raise Untranslatable(reason)
            if t[0] == "const":
                res = t[3](mod)
            else:
                res = Fn(mod, registry, t[1], t[2], t[3], t[4], t[5]).translate()
            res.qual = qual
        except Untranslatable as e:
            res = Broken(lean, qual, str(e))
        except Exception as e:      # a defect of the translator itself must not stop the check either
            res = Broken(lean, qual, f"translator error {type(e).__name__}: {e}")
        registry[lean] = res
        out.append(res)
    return out, texts


HEADER = """/- GENERATED by harness/props/_c12_fns.py from the source text of VERIF_REPO — do not edit.
   Statement-by-statement transcription of the functions of glotaran/parameter/{parameter,parameters}.py that keep
   expression parameters up to date (see the docstring of the generator for the subset and the conventions).
   `generated_*_eq_model` (GlotaranProofs/Props/C12.lean) prove the definitions equal to the hand-written model. -/
import GlotaranModel.C12Py
namespace Glotaran.C12.Gen
open Glotaran.C12
set_option linter.unusedVariables false
"""


def render(results) -> str:
    return HEADER + "\n" + "\n\n".join(r.render() for r in results) + "\n\nend Glotaran.C12.Gen\n"


def source_sha1(texts) -> dict:
    return {k: hashlib.sha1(v.encode()).hexdigest() for k, v in sorted(texts.items())}
