"""C19 — extractor of the `Accessors` / `ConvFns` tables (DESIGN §5.2).

Reads the *source text* of VERIF_REPO with Python's `ast` (nothing of glotaran is imported) and renders
`lean/GlotaranModel/Generated/C19.lean`:

* `accessors` — every module-level function of `megacomplex_registration.py`, `data_io_registration.py`,
  `project_io_registration.py` whose body mentions `__PluginRegistry`: which function of `base_registry.py` it calls
  (exactly one, else the row says so), every argument of that call by keyword (positional arguments are named through the
  signature found in `base_registry.py`), the parameters / literal defaults of the wrapper and the shape of its body
  (`return <call>` | `<call>` | decorator around `<call>` | other).  Direct manipulation of a registry dict (subscript
  store / delete, a method call on it) makes the row `direct:<what>`.
* `convFns` — every module-level `load_*` / `save_*` function of the two io modules: the expression handed to the getter
  whose result is bound to a local variable (`format_name or infer_file_format(<path>, flags…)` is rendered structurally,
  locals bound once by a plain assignment are substituted), the number of calls of accessors / base-registry functions in
  the whole body, and every occurrence of that local variable (`io.<method>(…)` or anything else).
* `extFns` — the `supported_file_extensions_*` generators: which `known_*` call provides the keys, which getter resolves
  them, which parameter carries the method names.
* `inferDefaults` — the defaults of `needs_to_exist` / `allow_folder` in the signature of `infer_file_format`.
"""
from __future__ import annotations

import ast
import hashlib
from pathlib import Path

MODULES = [
    "glotaran/plugin_system/megacomplex_registration.py",
    "glotaran/plugin_system/data_io_registration.py",
    "glotaran/plugin_system/project_io_registration.py",
]
IO_MODULES = MODULES[1:]
BASE = "glotaran/plugin_system/base_registry.py"
UTILS = "glotaran/plugin_system/io_plugin_utils.py"
BASE_MOD = "glotaran.plugin_system.base_registry"
UTILS_MOD = "glotaran.plugin_system.io_plugin_utils"
REGISTRY_CLASS = "__PluginRegistry"
SOURCES = MODULES + [BASE, UTILS]


def lean_str(s: str) -> str:
    out = ['"']
    for ch in s:
        if ch == "\\":
            out.append("\\\\")
        elif ch == '"':
            out.append('\\"')
        elif ch == "\n":
            out.append("\\n")
        elif ch == "\t":
            out.append("\\t")
        elif ord(ch) < 32 or ord(ch) > 126:
            out.append("\\u{%x}" % ord(ch))
        else:
            out.append(ch)
    out.append('"')
    return "".join(out)


def module_name(rel: str) -> str:
    return rel[:-3].replace("/", ".")


def strip_doc(body):
    if body and isinstance(body[0], ast.Expr) and isinstance(body[0].value, ast.Constant) and isinstance(body[0].value.value, str):
        return body[1:]
    return body


def param_names(fn: ast.FunctionDef) -> list[str]:
    a = fn.args
    return [x.arg for x in a.posonlyargs + a.args + a.kwonlyargs]


def positional_names(fn: ast.FunctionDef) -> list[str]:
    a = fn.args
    return [x.arg for x in a.posonlyargs + a.args]


def literal_defaults(fn: ast.FunctionDef) -> dict:
    a = fn.args
    pos = a.posonlyargs + a.args
    out = {}
    for x, d in zip(reversed(pos), reversed(a.defaults)):
        out[x.arg] = d
    for x, d in zip(a.kwonlyargs, a.kw_defaults):
        if d is not None:
            out[x.arg] = d
    return out


def is_registry_attr(node) -> str | None:
    if isinstance(node, ast.Attribute) and isinstance(node.value, ast.Name) and node.value.id == REGISTRY_CLASS:
        return node.attr
    return None


def flag(node, params=()) -> tuple:
    if node is None:
        return ("absent",)
    if isinstance(node, ast.Constant) and isinstance(node.value, bool):
        return ("lit", node.value)
    return ("other", ast.unparse(node))


class Module:
    def __init__(self, repo: Path, rel: str):
        self.rel = rel
        self.name = module_name(rel)
        self.tree = ast.parse((repo / rel).read_text())
        self.imported_from = {}
        for n in self.tree.body:
            if isinstance(n, ast.ImportFrom) and n.module:
                for al in n.names:
                    self.imported_from[al.asname or al.name] = (n.module, al.name)
        self.defs = {n.name: n for n in self.tree.body if isinstance(n, ast.FunctionDef)}

    def is_base(self, name: str) -> str | None:
        """original name of a function imported from base_registry.py"""
        m = self.imported_from.get(name)
        if m and m[0] == BASE_MOD and name not in self.defs:
            return m[1]
        return None

    def is_infer(self, name: str) -> bool:
        m = self.imported_from.get(name)
        return bool(m) and m == (UTILS_MOD, "infer_file_format") and name not in self.defs


# ------------------------------------------------------------------------------------------------
# accessors
# ------------------------------------------------------------------------------------------------
def warg(node, params, mod: Module) -> tuple:
    if isinstance(node, ast.Name) and node.id in params:
        return ("param", node.id)
    attr = is_registry_attr(node)
    if attr is not None:
        return ("registry", attr)
    if isinstance(node, ast.Constant):
        if node.value is None:
            return ("none",)
        if isinstance(node.value, bool):
            return ("bool", node.value)
        if isinstance(node.value, str):
            return ("str", node.value)
    if isinstance(node, ast.JoinedStr):
        calls = []
        for v in node.values:
            if isinstance(v, ast.FormattedValue):
                for c in ast.walk(v.value):
                    if isinstance(c, ast.Call):
                        calls.append(c)
        if len(calls) == 1 and isinstance(calls[0].func, ast.Name) and calls[0].func.id in mod.defs and not calls[0].args:
            kws = {k.arg: k.value for k in calls[0].keywords}
            if set(kws) <= {"full_names"}:
                return ("message", calls[0].func.id, flag(kws.get("full_names")))
        return ("other", "f-string")
    return ("other", ast.unparse(node))


def extract_accessor(fn: ast.FunctionDef, mod: Module, base_sigs: dict) -> dict | None:
    if not any(is_registry_attr(n) is not None or (isinstance(n, ast.Name) and n.id == REGISTRY_CLASS) for n in ast.walk(fn)):
        return None
    body = strip_doc(fn.body)
    params = param_names(fn)
    defaults = dict(literal_defaults(fn))
    shape, call = "other", None
    if len(body) == 1 and isinstance(body[0], ast.Return) and isinstance(body[0].value, ast.Call):
        shape, call = "return", body[0].value
    elif len(body) == 1 and isinstance(body[0], ast.Expr) and isinstance(body[0].value, ast.Call):
        shape, call = "expr", body[0].value
    elif (len(body) == 2 and isinstance(body[0], ast.FunctionDef) and isinstance(body[1], ast.Return)
          and isinstance(body[1].value, ast.Name) and body[1].value.id == body[0].name and not fn.decorator_list):
        inner = body[0]
        ib = strip_doc(inner.body)
        ip = param_names(inner)
        if (len(ib) == 2 and isinstance(ib[0], ast.Expr) and isinstance(ib[0].value, ast.Call) and isinstance(ib[1], ast.Return)
                and isinstance(ib[1].value, ast.Name) and ib[1].value.id in ip and not inner.decorator_list
                and not literal_defaults(inner) and not set(ip) & set(params)):
            shape, call = "decorator", ib[0].value
            params = params + ip
    # every call of a base_registry function / direct manipulation of a registry dict anywhere in the function
    base_calls, direct = [], []
    for n in ast.walk(fn):
        if isinstance(n, ast.Call) and isinstance(n.func, ast.Name) and mod.is_base(n.func.id):
            base_calls.append(n)
        if isinstance(n, (ast.Subscript,)) and is_registry_attr(n.value) is not None and isinstance(n.ctx, (ast.Store, ast.Del)):
            direct.append("subscript-store")
        if isinstance(n, ast.Call) and isinstance(n.func, ast.Attribute) and is_registry_attr(n.func.value) is not None:
            direct.append("method:" + n.func.attr)
        if isinstance(n, (ast.Assign, ast.AugAssign, ast.AnnAssign, ast.Delete)):
            targets = n.targets if isinstance(n, (ast.Assign, ast.Delete)) else [n.target]
            if any(is_registry_attr(t) is not None for t in targets):
                direct.append("rebind")
    args = []
    if direct:
        base = "direct:" + ",".join(sorted(set(direct)))
    elif len(base_calls) != 1 or call is None or base_calls[0] is not call:
        base = "unrecognised:" + ",".join(sorted(mod.is_base(c.func.id) for c in base_calls))
    else:
        base = mod.is_base(call.func.id)
        sig = base_sigs.get(base, [])
        ok = True
        for i, a in enumerate(call.args):
            if isinstance(a, ast.Starred) or i >= len(sig):
                ok = False
                break
            args.append((sig[i], warg(a, params, mod)))
        for k in call.keywords:
            if k.arg is None:
                ok = False
                break
            args.append((k.arg, warg(k.value, params, mod)))
        if not ok or len({k for k, _ in args}) != len(args):
            base, args = "unrecognised:star-or-duplicate-arguments", []
    return {
        "name": fn.name, "module": mod.name, "params": params,
        "defaults": [(p, warg(d, (), mod)) for p, d in defaults.items()],
        "shape": shape, "base": base, "args": args,
    }


# ------------------------------------------------------------------------------------------------
# convenience functions
# ------------------------------------------------------------------------------------------------
def fmt_expr(node, params, locals_, mod: Module, depth=0) -> tuple:
    if isinstance(node, ast.Name):
        if node.id in locals_ and depth < 4:
            return fmt_expr(locals_[node.id], params, locals_, mod, depth + 1)
        if node.id in params:
            return ("param", node.id)
        return ("other", node.id)
    if isinstance(node, ast.Constant):
        if node.value is None:
            return ("none",)
        if isinstance(node.value, str):
            return ("str", node.value)
        return ("other", ast.unparse(node))
    if isinstance(node, ast.BoolOp) and isinstance(node.op, ast.Or):
        vals = [fmt_expr(v, params, locals_, mod, depth) for v in node.values]
        out = vals[-1]
        for v in reversed(vals[:-1]):
            out = ("or", v, out)
        return out
    if isinstance(node, ast.Call) and isinstance(node.func, ast.Name) and mod.is_infer(node.func.id):
        kws = {k.arg: k.value for k in node.keywords}
        if None not in kws and len(node.args) <= 1 and set(kws) <= {"file_path", "needs_to_exist", "allow_folder"} \
                and (len(node.args) == 1) != ("file_path" in kws):
            path = node.args[0] if node.args else kws["file_path"]
            if not isinstance(path, ast.Starred):
                return ("infer", fmt_expr(path, params, locals_, mod, depth), flag(kws.get("needs_to_exist")),
                        flag(kws.get("allow_folder")))
        return ("other", ast.unparse(node))
    return ("other", ast.unparse(node))


def extract_conv(fn: ast.FunctionDef, mod: Module, accessor_names: set) -> dict:
    params = positional_names(fn)
    all_params = set(param_names(fn))
    body = strip_doc(fn.body)
    # names assigned in the function, with how often
    assigned: dict[str, list] = {}
    for n in ast.walk(fn):
        if isinstance(n, ast.Name) and isinstance(n.ctx, (ast.Store, ast.Del)):
            assigned.setdefault(n.id, []).append(n)
        if isinstance(n, (ast.FunctionDef, ast.AsyncFunctionDef, ast.ClassDef)) and n is not fn:
            assigned.setdefault(n.name, []).append(n)
    def is_registry_call(n):
        return isinstance(n, ast.Call) and isinstance(n.func, ast.Name) and (n.func.id in accessor_names or mod.is_base(n.func.id))
    registry_calls = sum(1 for n in ast.walk(fn) if is_registry_call(n))
    # references to the registry class / accessors that are not calls count as well (passed on, aliased)
    callee_ids = {id(n.func) for n in ast.walk(fn) if isinstance(n, ast.Call)}
    for n in ast.walk(fn):
        if isinstance(n, ast.Name) and id(n) not in callee_ids and (n.id in accessor_names or mod.is_base(n.id) or n.id == REGISTRY_CLASS):
            registry_calls += 1
    # top-level plain assignments `name = expr` of names bound exactly once (for substitution), in order
    locals_: dict[str, ast.expr] = {}
    getter, io_var, expr = "", "", ("other", "no getter call bound to a variable")
    for s in body:
        if isinstance(s, ast.Assign) and len(s.targets) == 1 and isinstance(s.targets[0], ast.Name):
            name = s.targets[0].id
            if len(assigned.get(name, [])) == 1 and name not in all_params:
                v = s.value
                if isinstance(v, ast.Call) and isinstance(v.func, ast.Name) and v.func.id in accessor_names and not io_var:
                    kws = {k.arg: k.value for k in v.keywords}
                    if len(v.args) + len(kws) == 1 and None not in kws and not (v.args and isinstance(v.args[0], ast.Starred)):
                        getter, io_var = v.func.id, name
                        expr = fmt_expr(v.args[0] if v.args else next(iter(kws.values())), set(all_params), locals_, mod)
                        if kws:
                            target = mod.defs.get(getter)
                            if target is None or positional_names(target)[:1] != list(kws):
                                expr = ("other", "keyword of the getter")
                        continue
                if not io_var:
                    locals_[name] = v
    uses = []
    if io_var:
        parents = {}
        for n in ast.walk(fn):
            for ch in ast.iter_child_nodes(n):
                parents[id(ch)] = n
        for n in ast.walk(fn):
            if isinstance(n, ast.Name) and n.id == io_var and isinstance(n.ctx, ast.Load):
                p = parents.get(id(n))
                gp = parents.get(id(p)) if p is not None else None
                if isinstance(p, ast.Attribute) and p.value is n and isinstance(gp, ast.Call) and gp.func is p:
                    uses.append((n.lineno, n.col_offset, ("method", p.attr)))
                else:
                    uses.append((n.lineno, n.col_offset, ("other", ast.unparse(p) if p is not None else "?")))
        uses.sort()
        # a parameter re-bound before the getter call would invalidate the rendering of the expression
    rebound = sorted(p for p in all_params if p in assigned)
    if rebound and expr[0] != "other":
        expr = ("other", "parameter re-bound: " + ",".join(rebound))
    return {
        "name": fn.name, "module": mod.name, "params": params, "getter": getter, "registry_calls": registry_calls,
        "fmt": expr, "uses": [u for _, _, u in uses],
        "decorators": [ast.unparse(d) for d in fn.decorator_list],
    }


def extract_ext(fn: ast.FunctionDef, mod: Module, base_sigs: dict) -> dict:
    """`supported_file_extensions_*`: `yield from supported_file_extensions(<param>, <known>(…), <getter>, <Base>)`"""
    row = {"name": fn.name, "module": mod.name, "params": param_names(fn), "methods": ("other", "unrecognised body"),
           "keys_fn": "", "keys_flag": ("absent",), "get_fn": "", "base_class": ""}
    body = strip_doc(fn.body)
    if not (len(body) == 1 and isinstance(body[0], ast.Expr) and isinstance(body[0].value, ast.YieldFrom)):
        return row
    call = body[0].value.value
    if not (isinstance(call, ast.Call) and isinstance(call.func, ast.Name) and mod.is_base(call.func.id) == "supported_file_extensions"):
        return row
    sig = base_sigs.get("supported_file_extensions", [])
    args = {}
    for i, a in enumerate(call.args):
        if isinstance(a, ast.Starred) or i >= len(sig):
            return row
        args[sig[i]] = a
    for k in call.keywords:
        if k.arg is None or k.arg in args:
            return row
        args[k.arg] = k.value
    if set(args) != {"method_names", "plugin_registry_keys", "get_plugin_function", "base_class"}:
        return row
    keys, get, base = args["plugin_registry_keys"], args["get_plugin_function"], args["base_class"]
    if not (isinstance(keys, ast.Call) and isinstance(keys.func, ast.Name) and keys.func.id in mod.defs and not keys.args
            and all(k.arg == "full_names" for k in keys.keywords) and len(keys.keywords) <= 1):
        return row
    if not (isinstance(get, ast.Name) and get.id in mod.defs and isinstance(base, ast.Name)):
        return row
    row.update(methods=warg(args["method_names"], row["params"], mod), keys_fn=keys.func.id,
               keys_flag=flag(keys.keywords[0].value if keys.keywords else None), get_fn=get.id, base_class=base.id)
    return row


def extract_all(repo: Path):
    base_tree = ast.parse((repo / BASE).read_text())
    base_sigs = {n.name: param_names(n) for n in base_tree.body if isinstance(n, ast.FunctionDef)}
    accessors, convs, exts = [], [], []
    for rel in MODULES:
        mod = Module(repo, rel)
        accs = []
        for fn in mod.defs.values():
            a = extract_accessor(fn, mod, base_sigs)
            if a is not None:
                accs.append(a)
        accessors += accs
        if rel in IO_MODULES:
            names = {a["name"] for a in accs}
            for fn in mod.defs.values():
                if fn.name.startswith(("load_", "save_")) and fn.name not in names:
                    convs.append(extract_conv(fn, mod, names))
                if fn.name.startswith("supported_file_extensions"):
                    exts.append(extract_ext(fn, mod, base_sigs))
    utils = ast.parse((repo / UTILS).read_text())
    infer_defaults = None
    for n in utils.body:
        if isinstance(n, ast.FunctionDef) and n.name == "infer_file_format":
            d = literal_defaults(n)
            vals = []
            for k in ("needs_to_exist", "allow_folder"):
                v = d.get(k)
                vals.append(v.value if isinstance(v, ast.Constant) and isinstance(v.value, bool) else None)
            infer_defaults = tuple(vals)
    return accessors, convs, exts, infer_defaults


# ------------------------------------------------------------------------------------------------
# rendering
# ------------------------------------------------------------------------------------------------
def lean_bool(b) -> str:
    return "true" if b else "false"


def lean_flag(f) -> str:
    if f[0] == "absent":
        return ".absent"
    if f[0] == "lit":
        return f"(.lit {lean_bool(f[1])})"
    return f"(.other {lean_str(f[1])})"


def lean_warg(w) -> str:
    k = w[0]
    if k == "param":
        return f"(.param {lean_str(w[1])})"
    if k == "registry":
        return f"(.registry {lean_str(w[1])})"
    if k == "none":
        return ".none_"
    if k == "str":
        return f"(.str {lean_str(w[1])})"
    if k == "bool":
        return f"(.bool {lean_bool(w[1])})"
    if k == "message":
        return f"(.message {lean_str(w[1])} {lean_flag(w[2])})"
    return f"(.other {lean_str(w[1])})"


def lean_fmt(e) -> str:
    k = e[0]
    if k == "param":
        return f"(.param {lean_str(e[1])})"
    if k == "none":
        return ".none_"
    if k == "str":
        return f"(.str {lean_str(e[1])})"
    if k == "or":
        return f"(.or {lean_fmt(e[1])} {lean_fmt(e[2])})"
    if k == "infer":
        return f"(.infer {lean_fmt(e[1])} {lean_flag(e[2])} {lean_flag(e[3])})"
    return f"(.other {lean_str(e[1])})"


def lean_use(u) -> str:
    return f"(.{'method' if u[0] == 'method' else 'other'} {lean_str(u[1])})"


def lean_list(items, indent="  ") -> str:
    items = list(items)
    if not items:
        return "[]"
    return "[\n" + ",\n".join(indent + x for x in items) + "]"


def lean_strs(xs) -> str:
    return "[" + ", ".join(lean_str(x) for x in xs) + "]"


def render(accessors, convs, exts, infer_defaults) -> str:
    accs = [
        "{ name := %s, module := %s,\n    params := %s, defaults := [%s],\n    shape := %s, base := %s,\n    args := [%s] }"
        % (lean_str(a["name"]), lean_str(a["module"]), lean_strs(a["params"]),
           ", ".join(f"({lean_str(p)}, {lean_warg(w)})" for p, w in a["defaults"]),
           lean_str(a["shape"]), lean_str(a["base"]),
           ", ".join(f"({lean_str(k)}, {lean_warg(w)})" for k, w in a["args"]))
        for a in accessors
    ]
    fns = [
        "{ name := %s, module := %s,\n    params := %s, getter := %s, registryCalls := %d,\n    fmtExpr := %s,\n    ioUses := [%s] }"
        % (lean_str(c["name"]), lean_str(c["module"]), lean_strs(c["params"]), lean_str(c["getter"]), c["registry_calls"],
           lean_fmt(c["fmt"]), ", ".join(lean_use(u) for u in c["uses"]))
        for c in convs
    ]
    efs = [
        "{ name := %s, module := %s,\n    params := %s, methodsArg := %s,\n    keysFn := %s, keysFlag := %s, getFn := %s, baseClass := %s }"
        % (lean_str(e["name"]), lean_str(e["module"]), lean_strs(e["params"]), lean_warg(e["methods"]), lean_str(e["keys_fn"]),
           lean_flag(e["keys_flag"]), lean_str(e["get_fn"]), lean_str(e["base_class"]))
        for e in exts
    ]
    dn, df = infer_defaults if infer_defaults else (None, None)
    if dn is None or df is None:
        dflt = "none"
    else:
        dflt = f"some ({lean_bool(dn)}, {lean_bool(df)})"
    return (
        "/- GENERATED by harness/props/c19.py (generate) from the source text of VERIF_REPO — do not edit.\n"
        "   accessors: every module-level function of megacomplex_registration.py / data_io_registration.py /\n"
        "   project_io_registration.py that touches __PluginRegistry; convFns: the load_* / save_* convenience functions;\n"
        "   extFns: the supported_file_extensions_* functions;\n"
        "   inferDefaults: defaults of needs_to_exist / allow_folder of io_plugin_utils.infer_file_format. -/\n"
        "import GlotaranModel.C19\n"
        "namespace Glotaran.C19.Generated\n"
        "open Glotaran.C19\n\n"
        "def accessors : List Accessor := " + lean_list(accs) + "\n\n"
        "def convFns : List ConvFn := " + lean_list(fns) + "\n\n"
        "def extFns : List ExtFn := " + lean_list(efs) + "\n\n"
        f"def inferDefaults? : Option (Bool × Bool) := {dflt}\n\n"
        "/-- (needs_to_exist, allow_folder) defaults; a non-literal default makes every inference `notModelled` through\n"
        "    the check in `Props/C19.lean` (`inferDefaults? = some (true, false)`) -/\n"
        "def inferDefaults : Bool × Bool := inferDefaults?.getD (true, false)\n\n"
        "end Glotaran.C19.Generated\n"
    )


def source_sha1(repo: Path, files=SOURCES) -> str:
    h = hashlib.sha1()
    for f in files:
        h.update((repo / f).read_bytes())
    return h.hexdigest()
