"""C09 — two oracle-only streams on the real linked providers (no model involved).

run_inputs_unchanged(ck, cases, tag)
    The datasets handed to `DataProviderLinked` / `optimize` are inputs: constructing the provider and running a
    full optimisation must leave every data variable and every coordinate of every input dataset as it was
    (bytes, shape, dtype), a second provider built on the same scheme object must give the same tables, and the
    results are reported under the datasets' original coordinates.  Includes a stream in which some datasets
    carry INTEGER (int64) global coordinates that are linked to FLOAT coordinates of other datasets.

run_weighted(ck, n, tag)
    Linked groups in which only some datasets are weighted and the weights vary along the global axis: every
    stacked column carries its own weight column (the one at its OWN index on its OWN axis), and the clps /
    residuals of a one-evaluation optimize are the weighted least squares solution of exactly the columns the
    statement assigns to an aligned point (numpy lstsq, independent of the providers).

Case format: the provider cases of c09.mk_case with optional extra keys
    "int_axes": [labels]   datasets whose global coordinate array is int64 (axis must be integer valued)
    "wpat": "g5"           own weight pattern 2**((2j + i + dataset number) % 5 - 2)  (1/4 .. 4, varies along global)
    "stream": "inputs" | "weighted"   (used by replay_case)
The helpers of c09.py are imported lazily (`P()`), never at module level.
"""
from __future__ import annotations

import hashlib
import json
from fractions import Fraction as F

RESULT_VARIABLES = ("residual", "weighted_residual", "clp", "matrix", "fitted_data")


def P():
    from harness.props import c09 as p
    return p


# ------------------------------------------------------------------------------------------
# cases → concrete numbers → scheme
# ------------------------------------------------------------------------------------------
def materialise_x(case):
    """P.materialise, with the weight pattern replaced when the case asks for it"""
    dss = P().materialise(case)
    if case.get("wpat") == "g5":
        for dn, (d, spec) in enumerate(zip(dss, case["datasets"])):
            if spec["weighted"]:
                d["weight"] = [[F(2) ** ((2 * j + i + dn) % 5 - 2) for i in range(d["msize"])]
                               for j in range(len(d["axis"]))]
    return dss


def plain(case):
    """the case as c09.py understands it (no extra keys)"""
    return {k: v for k, v in case.items() if k not in ("int_axes", "wpat", "stream")}


def build_scheme_x(case, all_float=False):
    """P.build_scheme with the coordinate dtype chosen per dataset and the weights of materialise_x"""
    p = P()
    if not case.get("int_axes") and not case.get("wpat"):
        return p.build_scheme(plain(case))
    g = p._glot()
    np, xr = g["np"], g["xr"]
    dss = materialise_x(case)
    ints = set() if all_float else set(case.get("int_axes") or [])
    labels = tuple(d["label"] for d in dss)
    model = g["Model"](**{"megacomplex": {"m1": {"type": "c09-ones-test-mc"}},
                          "dataset": {l: {"megacomplex": ["m1"]} for l in labels}})
    data = {}
    for d in dss:
        m, n = d["msize"], len(d["axis"])
        vals = np.array([[float(d["data"][j][i]) for j in range(n)] for i in range(m)], dtype=float).reshape(m, n)
        if d["label"] in ints:
            if any(x.denominator != 1 for x in d["axis"]):
                raise ValueError(f"int64 axis requested for non-integer coordinates {d['axis']}")
            gax = np.array([int(x) for x in d["axis"]], dtype=np.int64)
        else:
            gax = np.array([float(x) for x in d["axis"]], dtype=float)
        ds = xr.DataArray(vals, coords=[("model", np.arange(m, dtype=float)), ("global", gax)]).to_dataset(name="data")
        if d["weight"] is not None:
            w = np.array([[float(d["weight"][j][i]) for j in range(n)] for i in range(m)], dtype=float).reshape(m, n)
            ds["weight"] = xr.DataArray(w, coords=ds.data.coords)
        data[d["label"]] = ds
    scheme = g["Scheme"](model, g["Parameters"].from_list([1.0]), data, clp_link_tolerance=float(F(case["tol"])),
                         clp_link_method=case["method"], maximum_number_function_evaluations=1)
    group = scheme.model.get_dataset_groups()["default"]
    group.set_parameters(scheme.parameters)
    return scheme, group


def sig_of(stream, case):
    return (stream, case["tol"], case["method"], case.get("wpat") or "",
            tuple((d["label"], d["msize"], tuple(d["axis"]), d["weighted"], d["label"] in (case.get("int_axes") or []))
                  for d in case["datasets"]))


# ------------------------------------------------------------------------------------------
# observables
# ------------------------------------------------------------------------------------------
def tables_of(dp):
    """canonical tables of a DataProviderLinked (exact fractions), the form of P.real_tables"""
    fr = P().fr
    n = int(dp.aligned_global_axis.size)
    w = []
    for i in range(n):
        wi = dp.get_aligned_weight(i)
        w.append(None if wi is None else [fr(v) for v in wi])
    return ("ok",
            [fr(v) for v in dp.aligned_global_axis],
            [[int(k) for k in dp.get_aligned_dataset_indices(i)] for i in range(n)],
            [str(dp.get_aligned_group_label(i)) for i in range(n)],
            sorted((str(k), [str(x) for x in v]) for k, v in dp.group_definitions.items()),
            [[fr(v) for v in dp.get_aligned_data(i)] for i in range(n)],
            w)


def make_provider(case, scheme, group):
    """('ok', dp) | ('err', 'AlignDataset') | ('raised', 'TypeName: message')"""
    g = P()._glot()
    try:
        return "ok", g["DPL"](scheme, group)
    except g["AlignDatasetError"]:
        return "err", "AlignDataset"
    except Exception as e:
        return "raised", f"{type(e).__name__}: {e}"


def _entry(np, variable):
    arr = np.asarray(variable.values)
    raw = np.ascontiguousarray(arr)
    return (str(arr.dtype), tuple(int(s) for s in arr.shape), tuple(str(x) for x in variable.dims),
            hashlib.sha1(raw.tobytes()).hexdigest(), [repr(x) for x in arr.ravel()[:8].tolist()])


def digest(scheme):
    """{label: {(kind, name): (dtype, shape, dims, sha1 of the raw bytes, first values)}} of every input dataset;
    kind is 'coord' for coordinates, 'weight' for the variable `weight`, 'data' for every other data variable"""
    np = P()._glot()["np"]
    out = {}
    for label, ds in scheme.data.items():
        d = {}
        for name in ds.coords:
            d[("coord", str(name))] = _entry(np, ds.coords[name].variable)
        for name in ds.data_vars:
            d[("weight" if name == "weight" else "data", str(name))] = _entry(np, ds[name].variable)
        out[str(label)] = d
    return out


def digest_changes(before, after):
    """[(kind, text)] for everything that was there before and is not the same afterwards; new variables are
    returned separately (optimize adds the SVD of the data to the input datasets — counted, no verdict — but result
    variables in an input dataset are a change)"""
    changes, added = [], []
    for label, old in before.items():
        new = after.get(label)
        if new is None:
            changes.append(("data", f"dataset {label} disappeared from scheme.data"))
            continue
        for key, a in old.items():
            kind, name = key
            b = new.get(key)
            if b is None:
                changes.append((kind, f"dataset {label}: {kind} {name!r} is gone"))
            elif a[0] != b[0]:
                changes.append(("dtype", f"dataset {label}: dtype of {kind} {name!r} changed from {a[0]} to {b[0]}"))
            elif a[:4] != b[:4]:
                changes.append((kind, f"dataset {label}: {kind} {name!r} changed (shape {a[1]} -> {b[1]}, first values "
                                      f"{a[4]} -> {b[4]})"))
        for key in new:
            if key not in old:
                added.append((label, key[0], key[1]))
    return changes, added


def report_changes(ck, case, before, after, by, count_added=False):
    changes, added = digest_changes(before, after)
    for kind, text in changes:
        ck.violation(f"input-modified:{kind}", f"{by} modified an input dataset: {text}", case)
    for label, kind, name in added:
        if name in RESULT_VARIABLES:
            ck.violation("input-modified:data", f"{by} wrote the result variable {name!r} into the input dataset {label}", case)
        elif count_added:
            ck.count(f"inputs:variable-added-to-input-dataset-by-optimize:{name}")
    return bool(changes)


def assignment_of(case, tables):
    """(dataset number, own index) -> aligned value, read off the real tables; None when the tables are not a
    function on the datasets' points (that is P.oracle_tables' subject)"""
    _, axis, idx, labels, defs, _data, _w = tables
    defs = dict(defs)
    num = {d["label"]: k for k, d in enumerate(case["datasets"])}
    out = [[None] * len(d["axis"]) for d in case["datasets"]]
    for i in range(len(axis)):
        members = defs.get(labels[i])
        if members is None or len(members) != len(idx[i]):
            return None
        for lab, j in zip(members, idx[i]):
            if lab not in num or not (0 <= j < len(out[num[lab]])) or out[num[lab]][j] is not None:
                return None
            out[num[lab]][j] = axis[i]
    if any(v is None for row in out for v in row):
        return None
    return out


def unique_assignment(ck, case, stream):
    """the one assignment the statement allows, or None (ambiguous / refused / no degrees of freedom — as
    P.oracle_end_to_end skips)"""
    branches = P().reference_branches(plain(case))
    oks = [b[1] for b in branches if b[0] == "ok"]
    if len(branches) != 1 or not oks:
        ck.count(f"{stream}:e2e-skipped-ambiguous-or-refused")
        return None
    assignment = oks[0]
    residuals = sum(d["msize"] * len(d["axis"]) for d in case["datasets"])
    if residuals - 1 - len({v for row in assignment for v in row}) <= 0:
        ck.count(f"{stream}:e2e-skipped-no-degrees-of-freedom")
        return None
    return assignment


# ------------------------------------------------------------------------------------------
# end to end: numpy weighted least squares of exactly the assigned columns
# ------------------------------------------------------------------------------------------
def wls_expectation(case, assignment):
    """per (dataset number, own index): (clp, weighted residual block, residual block) of the stacked problem of
    the aligned point the statement assigns the column to.  Stacked in dataset order: y = concat(w_col * data_col),
    A = concat(w_col * ones) where an unweighted dataset has w_col = ones.  (MatrixProviderLinked multiplies ALL
    rows of the stacked matrix by get_aligned_weight(i) when that is not None — ones for unweighted members — and
    leaves the matrix alone when no member is weighted, in which case every w_col is ones as well: A = w always.)"""
    np = P()._glot()["np"]
    dss = materialise_x(case)
    groups = {}
    for dn, d in enumerate(dss):
        for j in range(len(d["axis"])):
            groups.setdefault(assignment[dn][j], []).append((dn, j))
    out = {}
    for v, ps in groups.items():
        y, a, spans = [], [], []
        for dn, j in ps:
            d = dss[dn]
            spans.append((dn, j, len(y), len(y) + d["msize"]))
            for i in range(d["msize"]):
                w = float(d["weight"][j][i]) if d["weight"] is not None else 1.0
                y.append(w * float(d["data"][j][i]))
                a.append(w)
        y, a = np.array(y, dtype=float), np.array(a, dtype=float)
        c = np.linalg.lstsq(a.reshape(-1, 1), y, rcond=None)[0]
        wres = y - a * c[0]
        for dn, j, s, e in spans:
            out[(dn, j)] = (float(c[0]), wres[s:e], wres[s:e] / a[s:e])
    return dss, out


def close(a, b):
    return abs(float(a) - float(b)) <= 1e-9 * max(1.0, abs(float(a)), abs(float(b)))


def check_result(ck, case, result, assignment, clp_key):
    """clp / residual / weighted residual of every dataset under its ORIGINAL coordinates against wls_expectation"""
    p = P()
    fr, show = p.fr, p.show
    dss, expect = wls_expectation(case, assignment)
    for dn, d in enumerate(dss):
        ds = result.data[d["label"]]
        for name in ("clp", "residual", "data") + (("weighted_residual", "weight") if d["weight"] is not None else ()):
            if name not in ds:
                ck.violation("result-variable-missing", f"result of dataset {d['label']} has no variable {name!r}", case)
                return False
            coords = [fr(v) for v in ds[name].coords["global"].values]
            if coords != d["axis"]:
                ck.violation("result-coordinate-changed", f"{name} of dataset {d['label']} is reported on global coordinates "
                             f"{show(coords)}, the dataset's own axis is {show(d['axis'])}", case)
                return False
        vals = ds.clp.sel(clp_label="c").values
        res = ds.residual.transpose("model", "global").values
        wres = ds.weighted_residual.transpose("model", "global").values if d["weight"] is not None else None
        if res.shape != (d["msize"], len(d["axis"])) or vals.shape != (len(d["axis"]),):
            ck.violation("result-shape-wrong", f"dataset {d['label']}: clp shape {vals.shape}, residual shape {res.shape}", case)
            return False
        for j in range(len(d["axis"])):
            c, ew, er = expect[(dn, j)]
            if not close(vals[j], c):
                ck.violation(clp_key, f"dataset {d['label']} own coordinate {d['axis'][j]} (index {j}): reported clp "
                             f"{float(vals[j])!r}, the weighted least squares solution of the columns assigned to its "
                             f"aligned point {assignment[dn][j]} is {c!r}", case)
                return False
            for i in range(d["msize"]):
                if not close(res[i, j], er[i]):
                    ck.violation("residual-not-of-assigned-columns", f"dataset {d['label']} residual[{i},{j}] = "
                                 f"{float(res[i, j])!r}, required y - A c = {float(er[i])!r}", case)
                    return False
                if wres is not None and not close(wres[i, j], ew[i]):
                    ck.violation("weighted-residual-not-of-assigned-columns", f"dataset {d['label']} weighted_residual[{i},{j}] "
                                 f"= {float(wres[i, j])!r}, required W (y - A c) = {float(ew[i])!r}", case)
                    return False
        if d["weight"] is not None:
            got = ds.weight.transpose("model", "global").values
            want = [[d["weight"][j][i] for j in range(len(d["axis"]))] for i in range(d["msize"])]
            if [[fr(v) for v in row] for row in got] != want:
                ck.violation("result-weight-changed", f"dataset {d['label']}: the weight in the result is not the input weight", case)
                return False
    return True


def run_optimize(ck, case, scheme, group, stream):
    from glotaran.optimization.optimize import optimize
    group.link_clp = True          # (optimize builds its own groups; linking is decided by is_linkable there)
    ck.oracle_evals += 1
    try:
        return optimize(scheme, verbose=False, raise_exception=True)
    except Exception as e:
        ck.violation("optimize-failed", f"optimize on a linkable scheme raised {type(e).__name__}: {e}", case)
        return None


# ------------------------------------------------------------------------------------------
# 1. inputs unchanged
# ------------------------------------------------------------------------------------------
def int_float_case(rng):
    """2-3 datasets on the grid 0..5: at least one with an int64 axis (grid points), at least one with float
    coordinates moved off the grid"""
    p = P()
    nd = rng.choice([2, 2, 3])
    kinds = ["int", "float"] + [rng.choice(["int", "float", "gridfloat"]) for _ in range(nd - 2)]
    rng.shuffle(kinds)
    dss, ints = [], []
    for k, kind in enumerate(kinds):
        pts = sorted(rng.sample(range(6), rng.randint(1, 4)))
        if kind == "float":
            offs = [rng.choice([F(1, 4), F(-1, 4), F(1, 2), F(-1, 2)])] * len(pts) if rng.random() < 0.4 else \
                   [rng.choice(p.OFFSETS) for _ in pts]
            if all(o == 0 for o in offs):
                offs[0] = F(1, 4)
            ax = sorted({F(x) + o for x, o in zip(pts, offs)})
        else:
            ax = [F(x) for x in pts]
        dss.append((ax, rng.randint(1, 3), rng.random() < 0.4))
        if kind == "int":
            ints.append(f"d{k + 1}")
    case = p.mk_case(rng.choice([F(1, 4), F(1, 2), F(1), F(3, 2)]), rng.choice(p.METHODS), dss)
    case["int_axes"] = ints
    case["stream"] = "inputs"
    return case


def orders_x(case, rng=None, limit=None):
    """every dataset order of a case, the extra keys following their datasets"""
    import itertools
    ds = case["datasets"]
    ints = set(case.get("int_axes") or [])
    out = []
    for perm in itertools.permutations(range(len(ds))):
        c = dict(case, datasets=[dict(ds[q], label=f"d{n + 1}") for n, q in enumerate(perm)])
        if "int_axes" in case:
            c["int_axes"] = [f"d{n + 1}" for n, q in enumerate(perm) if ds[q]["label"] in ints]
        out.append(c)
    if limit is not None and len(out) > limit:
        keep = [out[0], out[-1]]                      # as drawn and reversed
        rest = out[1:-1]
        if rng is not None:
            rng.shuffle(rest)
        out = keep + rest[: limit - 2]
    return out


def inputs_one(ck, case, tag, do_optimize=True):
    """one case of the inputs stream; returns True when an optimize was run"""
    p = P()
    show = p.show
    variant = "int" if case.get("int_axes") else "float"
    case = dict(case, stream="inputs")
    scheme, group = build_scheme_x(case)
    originals = {label: ds for label, ds in scheme.data.items()}
    d0 = digest(scheme)
    status, dp1 = make_provider(case, scheme, group)
    d1 = digest(scheme)
    ck.oracle_evals += 1
    ck.count(f"stream:{tag}")
    ck.count(f"inputs:axes-{variant}")
    ck.count(f"inputs:outcome-{status if status != 'ok' else 'ok'}")
    report_changes(ck, case, d0, d1, "DataProviderLinked.__init__")
    if status == "raised":
        ck.case(sig_of("inputs", case), True)
        ck.violation("provider-raised", f"DataProviderLinked raised {dp1} (AlignDatasetError is the only documented refusal)", case)
        return False
    branches = p.reference_branches(plain(case))
    if status == "err":
        ck.case(sig_of("inputs", case), True)
        if variant == "int" and not any(b[0] == "err" for b in branches):
            ck.violation("int-axis:refused-without-merge", "AlignDatasetError with int64 coordinates although no two points of "
                         "one dataset would be assigned to the same aligned point", case)
        if variant == "int":
            fstatus, fdp = make_provider(case, *build_scheme_x(case, all_float=True))
            if fstatus != "err":
                ck.violation("int-axis-tables-differ-from-float", f"with int64 coordinates on {case['int_axes']} the alignment is "
                             f"refused, with the same coordinates as floats it ends with {fstatus}", case)
            ck.count("inputs:int-vs-float-compared")
        # a refused scheme: a second attempt refuses again and still leaves the inputs alone
        status2, _ = make_provider(case, scheme, group)
        if status2 != "err":
            ck.violation("second-provider-differs", f"the first DataProviderLinked on the scheme refused to align, the second "
                         f"one on the same scheme object ended with {status2}", case)
        report_changes(ck, case, d0, digest(scheme), "a second DataProviderLinked.__init__")
        return False
    t1 = tables_of(dp1)
    ck.case(sig_of("inputs", case), any(len(r) > 1 for r in t1[2]))
    ck.count("inputs:linked-points", sum(len(r) - 1 for r in t1[2]))
    if variant == "int":
        # expected alignment from the statement (exact fractions), and the all-float build of the same case
        if all(b[0] == "err" for b in branches):
            ck.violation("int-axis:merge-not-refused", "with int64 coordinates two points of one dataset are assigned to the "
                         "same aligned point and no AlignDatasetError was raised", case)
        else:
            got = assignment_of(case, t1)
            if got is None or (("ok", got) not in branches and len(branches) < 64):
                ck.violation("int-axis:assignment-not-allowed", f"int64 / float coordinates: assignment "
                             f"{show(got) if got is not None else 'not a function of the points'} is none of the outcomes the "
                             f"statement allows ({show([b[1] for b in branches if b[0] == 'ok'][:3])})", case)
        fscheme, fgroup = build_scheme_x(case, all_float=True)
        fstatus, fdp = make_provider(case, fscheme, fgroup)
        tf = tables_of(fdp) if fstatus == "ok" else (fstatus, fdp)
        if tf != t1:
            diff = next((p.FIELDS[i] for i in range(1, 7) if tf[0] == "ok" and tf[i] != t1[i]), "status")
            ck.violation("int-axis-tables-differ-from-float", f"{diff}: with int64 coordinates on {case['int_axes']} "
                         f"{show(t1[1:4])}, with the same coordinates as floats {show(tf[1:4]) if tf[0] == 'ok' else tf}", case)
        ck.count("inputs:int-vs-float-compared")
    ran = False
    assignment = unique_assignment(ck, case, "inputs") if do_optimize else None
    if assignment is not None:
        result = run_optimize(ck, case, scheme, group, "inputs")
        ran = True
        ck.count("inputs:optimize-runs")
        d2 = digest(scheme)
        report_changes(ck, case, d0, d2, "optimize", count_added=True)
        for label, ds in originals.items():
            if scheme.data[label] is not ds:
                ck.violation("input-modified:data", f"optimize replaced the dataset object {label} in scheme.data", case)
        if result is not None:
            for label, ds in originals.items():
                if result.data[label] is ds:
                    ck.violation("input-modified:data", f"result.data[{label!r}] is the input dataset object itself", case)
                rc, ic = result.data[label].coords["global"].values, ds.coords["global"].values
                if str(rc.dtype) != str(ic.dtype):
                    ck.count(f"inputs:result-coordinate-dtype-{ic.dtype}-to-{rc.dtype}")
            check_result(ck, case, result, assignment, "inputs-clp-not-wls-of-assigned-columns")
    # a second provider on the same scheme object (after the first one, and after optimize where one was run)
    status2, dp2 = make_provider(case, scheme, group)
    if status2 != "ok":
        ck.violation("second-provider-differs", f"the first DataProviderLinked on the scheme aligned the datasets, the second one "
                     f"on the same scheme object {'(after optimize) ' if ran else ''}ended with {status2}: {dp2}", case)
    else:
        t2 = tables_of(dp2)
        if t2 != t1:
            diff = next(p.FIELDS[i] for i in range(1, 7) if t2[i] != t1[i])
            ck.violation("second-provider-differs", f"{diff}: first provider {show(t1[FIELD_INDEX(diff)])}, second provider on the "
                         f"same scheme object {'(after optimize) ' if ran else ''}{show(t2[FIELD_INDEX(diff)])}", case)
    ck.count("inputs:second-provider-compared")
    report_changes(ck, case, d0, digest(scheme), "a second DataProviderLinked.__init__")
    return ran


def FIELD_INDEX(name):
    return P().FIELDS.index(name)


def run_inputs_unchanged(ck, cases, tag, max_optimize=None, int_cases=None):
    """cases: provider cases (c09.mk_case, optionally with int_axes / wpat).  Afterwards `int_cases` (default
    max(8, len(cases)//2)) cases with int64 axes linked to float axes are drawn from ck.rng, each in both / up to
    three dataset orders.  max_optimize caps the number of optimize runs (default: every eligible case)."""
    rng = ck.rng
    todo = [c for c in cases if c.get("kind", "provider") == "provider"]
    n_int = max(8, len(todo) // 2) if int_cases is None else int_cases
    drawn = []
    while len(drawn) < n_int:
        drawn += orders_x(int_float_case(rng), rng, limit=3)
    todo = todo + drawn[:n_int]
    runs = 0
    for k, case in enumerate(todo):
        allowed = max_optimize is None or runs < max_optimize
        if inputs_one(ck, case, tag, do_optimize=allowed):
            runs += 1
    ck.extra.setdefault("inputs_stream", "digest (dtype, shape, dims, sha1 of raw bytes) of every data variable and coordinate of every "
                        "input dataset before / after DataProviderLinked.__init__ / after optimize / after a second provider; "
                        "variables that optimize ADDS to the input datasets (SVD of the data, add_svd=True) are counted, not judged")


# ------------------------------------------------------------------------------------------
# 2. weighted linked groups
# ------------------------------------------------------------------------------------------
def weighted_base(rng):
    """2-3 datasets; the later datasets' points are moved off the grid by ±1/4, ±1/2 so that they link to points of
    earlier datasets under tolerance 1/2 or 1; at least one dataset weighted and at least one not"""
    p = P()
    nd = rng.choice([2, 2, 3])
    offs = [F(1, 4), F(-1, 4), F(1, 2), F(-1, 2)]
    first = sorted(rng.sample(range(6), rng.randint(2, 4)))
    dss = [[F(x) for x in first]]
    for _ in range(1, nd):
        k = rng.randint(1, 4)
        near = rng.sample(first, min(len(first), k))                  # points that have a partner
        pts = sorted(set(near + rng.sample(range(6), max(0, k - len(near)))))
        if rng.random() < 0.35:
            o = rng.choice(offs)
            ax = [F(x) + o for x in pts]
        else:
            ax = [F(x) + rng.choice(offs + ([F(0)] if rng.random() < 0.3 else [])) for x in pts]
        dss.append(sorted(set(ax)))
    flags = [rng.random() < 0.5 for _ in range(nd)]
    if all(flags) or not any(flags):
        flags = [False] * nd
        flags[rng.randrange(nd)] = True
        if nd == 3 and rng.random() < 0.5:
            flags[(flags.index(True) + 1) % 3] = True
    case = p.mk_case(rng.choice([F(1, 2), F(1)]), "nearest",
                     [(ax, rng.randint(1, 3), w) for ax, w in zip(dss, flags)])
    case["wpat"] = "g5"
    case["stream"] = "weighted"
    return case


def mixed_points(case, assignment):
    """aligned points at which a weighted and an unweighted column are stacked"""
    flags = {}
    for dn, d in enumerate(case["datasets"]):
        for v in assignment[dn]:
            flags.setdefault(v, set()).add(d["weighted"])
    return sum(1 for s in flags.values() if len(s) == 2)


def weighted_cases(rng, n):
    """n cases: every drawn axis set under all three methods, in both orders of 2 datasets / as drawn, reversed and one
    more order of 3 datasets"""
    p = P()
    out = []
    while len(out) < n:
        base = weighted_base(rng)
        for _try in range(6):          # prefer draws in which weighted and unweighted columns really get stacked
            b = [x for x in p.reference_branches(plain(base)) if x[0] == "ok"]
            if b and mixed_points(base, b[0][1]):
                break
            base = weighted_base(rng)
        orders = orders_x(base, rng, limit=3)
        for method in p.METHODS:
            out += [dict(o, method=method) for o in orders]
    return out[:n]


def weighted_one(ck, case, tag, do_optimize=True):
    p = P()
    show = p.show
    case = dict(case, stream="weighted")
    dss = materialise_x(case)
    num = {d["label"]: k for k, d in enumerate(dss)}
    scheme, group = build_scheme_x(case)
    status, dp = make_provider(case, scheme, group)
    ck.oracle_evals += 1
    ck.count(f"stream:{tag}")
    ck.count(f"weighted:method-{case['method']}")
    ck.count(f"weighted:tol-{case['tol']}")
    ck.count(f"weighted:datasets-{len(dss)}")
    ck.count("weighted:flags-" + "".join("w" if d["weight"] is not None else "u" for d in dss))
    branches = p.reference_branches(plain(case))
    if status == "raised":
        ck.case(sig_of("weighted", case), True)
        ck.violation("provider-raised", f"DataProviderLinked on a partly weighted group raised {dp} (AlignDatasetError is the only "
                     "documented refusal)", case)
        return False
    if status == "err":
        ck.case(sig_of("weighted", case), True)
        ck.count("weighted:outcome-refused")
        if not any(b[0] == "err" for b in branches):
            ck.violation("refused-without-merge", "AlignDatasetError although no two points of one dataset would be assigned to "
                         "the same aligned point", case)
        return False
    ck.count("weighted:outcome-ok")
    t = tables_of(dp)
    _, axis, idx, labels, defs, data, weights = t
    defs = dict(defs)
    ck.case(sig_of("weighted", case), any(len(r) > 1 for r in idx))
    oks = [b[1] for b in branches if b[0] == "ok"]
    unique = oks[0] if len(branches) == 1 and oks else None
    if not oks and len(branches) < 64:
        ck.violation("merge-not-refused", "two points of one dataset are assigned to the same aligned point and no "
                     "AlignDatasetError was raised", case)
        return False
    # (a) every stacked column carries its own weight column
    seen = set()
    for i in range(len(axis)):
        members = defs.get(labels[i])
        if members is None or len(members) != len(idx[i]) or any(m not in num for m in members):
            ck.violation("group-definition-mismatch", f"group_definitions[{labels[i]!r}]={members} does not match "
                         f"get_aligned_dataset_indices({i})={idx[i]}", case)
            return False
        total = sum(dss[num[m]]["msize"] for m in members)
        anyw = any(dss[num[m]]["weight"] is not None for m in members)
        kinds = {dss[num[m]]["weight"] is not None for m in members}
        if len(kinds) == 2:
            ck.count("weighted:stacked-points-weighted-and-unweighted")
        elif anyw:
            ck.count("weighted:stacked-points-all-weighted")
        else:
            ck.count("weighted:stacked-points-unweighted")
        wi = weights[i]
        if len(data[i]) != total or (wi is not None and len(wi) != total):
            ck.violation("stacked-length-wrong", f"aligned point {axis[i]}: members {members} have {total} rows, "
                         f"get_aligned_data has {len(data[i])}, get_aligned_weight {None if wi is None else len(wi)}", case)
            return False
        if wi is None and anyw:
            ck.violation("stacked-weight-not-own-column", f"get_aligned_weight({i}) is None although a weighted dataset is "
                         f"stacked at aligned point {axis[i]} (members {members})", case)
            return False
        if wi is not None and not anyw:
            if any(v != 1 for v in wi):
                ck.violation("stacked-weight-not-own-column", f"get_aligned_weight({i}) = {show(wi)} although no weighted dataset "
                             f"is stacked at aligned point {axis[i]}", case)
                return False
            ck.count("weighted:ones-instead-of-none")
        off = 0
        for lab, j in zip(members, idx[i]):
            d = dss[num[lab]]
            m = d["msize"]
            if not (0 <= j < len(d["axis"])):
                ck.violation("phantom-point", f"aligned point {axis[i]} mentions index {j} of dataset {lab}", case)
                return False
            seen.add((num[lab], j))
            if unique is not None and unique[num[lab]][j] != axis[i]:
                ck.violation("stacked-member-not-the-assigned-point", f"column {j} (coordinate {d['axis'][j]}) of dataset {lab} is "
                             f"stacked at aligned point {axis[i]}, the statement assigns it to {unique[num[lab]][j]}", case)
                return False
            own_w = d["weight"][j] if d["weight"] is not None else [F(1)] * m
            own_d = [a * b for a, b in zip(d["data"][j], own_w)]
            if wi is not None and wi[off: off + m] != own_w:
                ck.violation("stacked-weight-not-own-column", f"aligned point {axis[i]}: the weight segment of dataset {lab} "
                             f"(own index {j}, own coordinate {d['axis'][j]}) is {show(wi[off: off + m])}, its own weight "
                             f"column there is {show(own_w)}"
                             + ("" if d["weight"] is not None else " (unweighted dataset: ones)"), case)
                return False
            if data[i][off: off + m] != own_d:
                ck.violation("stacked-data-not-own-weighted-column", f"aligned point {axis[i]}: the data segment of dataset {lab} "
                             f"(own index {j}) is {show(data[i][off: off + m])}, its own data column times its own weight "
                             f"column is {show(own_d)}", case)
                return False
            off += m
    everything = {(dn, j) for dn, d in enumerate(dss) for j in range(len(d["axis"]))}
    if seen != everything:
        ck.violation("column-not-once", f"columns {sorted(everything - seen)} (dataset number, index) are in no stacked problem", case)
        return False
    # (b) end to end
    if not do_optimize:
        return False
    assignment = unique_assignment(ck, case, "weighted")
    if assignment is None:
        return False
    result = run_optimize(ck, case, scheme, group, "weighted")
    ck.count("weighted:optimize-runs")
    if result is not None:
        if check_result(ck, case, result, assignment, "weighted-clp-not-wls-of-assigned-columns"):
            ck.count("weighted:e2e-agree")
    return True


def run_weighted(ck, n, tag, max_optimize=None):
    """n weighted cases drawn from ck.rng (see weighted_cases); optimize on every eligible one (cap: max_optimize)"""
    runs = 0
    for case in weighted_cases(ck.rng, n):
        allowed = max_optimize is None or runs < max_optimize
        if weighted_one(ck, case, tag, do_optimize=allowed):
            runs += 1
    ck.extra.setdefault("weighted_stream", "partly weighted linked groups, weights 2**((2j+i+dataset) % 5 - 2) varying along the "
                        "global axis; tables: each member's segment of get_aligned_weight / get_aligned_data is its own weight / "
                        "weighted data column at its own index; optimize: clp, residual, weighted_residual against numpy lstsq of "
                        "the columns the statement assigns to the aligned point")


# ------------------------------------------------------------------------------------------
# replay of a payload of one of the two streams
# ------------------------------------------------------------------------------------------
def is_extra_case(case):
    return isinstance(case, dict) and (case.get("stream") in ("inputs", "weighted") or "int_axes" in case or "wpat" in case)


def replay_case(ck, case):
    if case.get("stream") == "weighted":
        weighted_one(ck, case, "replay")
    else:
        inputs_one(ck, case, "replay")
    print("extra stream", case.get("stream"), json.dumps(case))
