"""C03 — result datasets decompose the data exactly and on the right coordinates."""
from __future__ import annotations

import copy
import hashlib
import json
import os
from fractions import Fraction
from pathlib import Path

import numpy as np

from harness import core, gen_scheme
from harness.gen_scheme import _num
from harness.props import _c03_steps, c02

PROP = "C03"
REQUIRED_THEOREMS = [
    "finish_unweighted",
    "data_eq_fitted_add_residual",
    "data_eq_fitted_add_residual_mat",
    "weighted_residual_eq",
    "ofColumns_entry",
    "ofColumns_getElem_getElem",
    "chunk_flatten",
    "ofColumns_chunk_flatten",
    "unstack_stack",
    "unstack_stack_sum'",
    "unlinked_result_shape",
    "unlinked_result_labels_and_count_counterexample",
    "unlinked_result_labels_and_count_partial",
    "linked_result_label_independent",
    "linked_result_numeric_label_independent",
    "linked_result_label_independent_needs_injective",
    "point_spec_unlinked_partial",
    "fitted_eq_scale_matrix_clp_unlinked_partial",
    "fitted_eq_scale_matrix_clp_counterexample",
    "point_spec_linked_partial",
    "fitted_eq_scale_matrix_clp_linked_partial",
    "noChain_of_relations_flat",
    "fitted_eq_scale_matrix_clp_partial",
    "point_spec_full_model",
    "fitted_eq_matrix_clp_global_full",
    "legacy_layout_eq_own_of_ascending",
    "generated_assemble_eq_model",
    "generated_result_eq_model_unlinked",
    "generated_result_eq_model_full",
    "generated_result_eq_model_linked",
    "generated_results_eq_model",
]
TRUSTED = [
    "the translator of the result-assembly source text (harness/props/_c03_steps.py, pure ast: EstimationProviderUnlinked/Linked.get_result, "
    "OptimizationGroup.create_result_data / add_weight_to_result_data, the data loop of Optimizer.create_result) and the interpreter of its "
    "tables (lean/GlotaranModel/C03Steps.lean: numpy reshape / transpose / DataArray labelling, xarray arithmetic by dimension name, "
    "argsort); the interpretation of the regenerated tables is proved equal to the hand-written model (generated_*_eq_model)",
    "hand-written model lean/GlotaranModel/C03.lean (on top of C02.lean) of OptimizationGroup.create_result_data, "
    "EstimationProvider{Unlinked,Linked}.get_result, add_weight_to_result_data; tied to the code by differential execution",
    "LAPACK / scipy.optimize.nnls numerics (results compared with the exact rational model at relative 1e-9)",
    "scipy.optimize.least_squares with max_nfev=1 returns the start vector (results are evaluated at the initial parameters)",
]
ASSUMPTIONS = [
    "megacomplex outputs are inputs of the model (test megacomplexes with prescribed integer matrices)",
    "model-level weights: the weight array is taken from result.data[label].weight (C08 covers its construction)",
]
RULE = (
    "scheme specs of the C02 generator plus: dataset labels that are prefixes/substrings of one another or whose "
    "concatenations coincide (a, ab, abc, b, bc, c), non-square data, both storage orders, noisy data, linked groups with "
    "single-dataset aligned indices, and the same schemes with the global indices of some datasets stored in descending / "
    "shuffled order, with the weight variable stored in the other dimension order than the data and the data stored as int64 / "
    "int32 counts or float32, and schemes whose relation / scale parameters are free and optimised for 3-6 evaluations "
    "(everything is then judged at the optimised parameter values); for each spec optimize(scheme) is run (one function evaluation unless stated) and every array of "
    "every result dataset (clp, residual, weighted_residual, fitted_data, matrix and global_matrix with their labels, "
    "coordinates) is compared with the Lean model; independently the four identities of the statement are evaluated on the result datasets alone and a relabelled "
    "twin (datasets renamed) must give the same arrays; non-trivial = some residual entry non-zero; distinct = distinct spec"
)
RTOL = 1e-9
WEIRD_LABELS = [["a", "ab"], ["ab", "a"], ["a", "ab", "abc"], ["a", "bc", "ab", "c"], ["ab", "c", "a", "bc"], ["b", "ab"],
                ["d 1", "d 10"], ["é", "éé"], ["x", "xx", "xxx"]]


LEAN_GEN_STEPS = core.LEAN / "GlotaranModel" / "Generated" / "C03Steps.lean"
STEP_SOURCES = ["glotaran/optimization/estimation_provider.py", "glotaran/optimization/optimization_group.py",
                "glotaran/optimization/optimizer.py"]


def steps_text(repo=None):
    """Lean source of Generated/C03Steps.lean, translated from the source TEXT of the repo's working tree (nothing is executed).
    Never raises: what cannot be read or translated becomes an `untranslatable` node, which makes `generated_*_eq_model` fail to build."""
    repo = Path(repo or os.environ.get("VERIF_REPO", "/repo"))
    srcs = []
    for rel in STEP_SOURCES:
        try:
            srcs.append((repo / rel).read_text())
        except Exception:
            srcs.append("")
    return _c03_steps.translate(*srcs)


def generate(ck):
    text = steps_text()
    if not LEAN_GEN_STEPS.exists() or LEAN_GEN_STEPS.read_text() != text:
        LEAN_GEN_STEPS.parent.mkdir(parents=True, exist_ok=True)
        LEAN_GEN_STEPS.write_text(text)
    ck.extra["step_tables"] = {"untranslatable": text.count(".untranslatable"),
                               "statements": sum(1 for l in text.splitlines() if "act :=" in l)}
    return [{"table": "Steps(C03): get_result of both estimation providers (array expression, dims, coords per written variable; the linked "
                      "loop: membership guard, collected lists, argsort re-ordering), create_result_data / add_weight_to_result_data as "
                      "statement lists (variable / attribute written, expression, guards, order), the data loop of Optimizer.create_result",
             "source": ", ".join(STEP_SOURCES), "sha1": hashlib.sha1(text.encode()).hexdigest()}]


def run_real(spec):
    from glotaran.optimization.optimize import optimize
    scheme, model, parameters, data = gen_scheme.build(spec)
    out = {"error": None}
    try:
        res = optimize(scheme, verbose=False, raise_exception=True)
    except ZeroDivisionError:
        out["error"] = "dof-zero"
        return out
    except Exception as e:
        out["error"] = type(e).__name__ + ":" + str(e)[:120]
        return out
    out["result"] = res
    return out


def arr(da, *dims):
    return np.asarray(da.transpose(*dims).values, dtype=float)


def spec_rtol(spec):
    """one tolerance for every storage dtype: the provider works on float64 copies (fix 0f99e6f), so data stored as
    float32 / integers give the same numbers as the same values stored as float64"""
    return RTOL


def close_arr(a, b, rtol=None):
    rtol = RTOL if rtol is None else rtol
    a, b = np.asarray(a, dtype=float), np.asarray(b, dtype=float)
    if a.shape != b.shape:
        return False
    if a.size == 0:
        return True
    scale = max(1.0, float(np.max(np.abs(a))), float(np.max(np.abs(b))))
    return bool(np.all(np.abs(a - b) <= rtol * scale))


def oracle(ck, spec, res, light):
    """the statement of C03 on the result datasets alone"""
    P = spec["parameters"]
    rt = spec_rtol(spec)
    for ds in spec["datasets"]:
        label = ds["label"]
        ck.oracle_evals += 1
        if label not in res.data:
            ck.violation("result-missing-dataset", f"no result dataset for {label!r}", light)
            continue
        r = res.data[label]
        case = {**light, "dataset": label}
        M, G = len(ds["model_axis"]), len(ds["global_axis"])
        # coordinates and layout: own axes, own label
        if not (np.array_equal(r.coords["model"].values, np.array(ds["model_axis"])) and
                np.array_equal(r.coords["global"].values, np.array(ds["global_axis"]))):
            ck.violation("coords-changed", f"result dataset {label!r} is not on the dataset's own coordinates", case)
            continue
        data = arr(r.data, "model", "global")
        if not np.array_equal(data, np.array(ds["data"], dtype=float)):
            ck.violation("data-changed", f"result dataset {label!r}: data differs from the input data", case)
        for name in ("residual", "fitted_data"):
            if set(r[name].dims) != {"model", "global"} or r[name].shape not in ((M, G), (G, M)):
                ck.violation("layout:" + name, f"{label!r}: {name} has dims {r[name].dims} shape {r[name].shape}", case)
        fitted = arr(r.fitted_data, "model", "global")
        resid = arr(r.residual, "model", "global")
        if not close_arr(data, fitted + resid, rt):
            ck.violation("data-ne-fitted-plus-residual", f"{label!r}: data != fitted_data + residual", case)
        scale = r.attrs.get("dataset_scale", 1)
        want_scale = P[ds["scale"]] if ds.get("scale") is not None else 1
        if float(scale) != float(want_scale):
            ck.violation("dataset-scale-attr", f"{label!r}: attrs['dataset_scale']={scale} but the dataset scale is {want_scale}", case)
        mat = r.matrix
        clp = r.clp
        if ds.get("gmcs"):
            gm = np.asarray(r.global_matrix.values, dtype=float)           # global x global_clp
            c = np.asarray(clp.transpose("global_clp_label", "clp_label").values, dtype=float)
            if mat.ndim == 3:
                mm = arr(mat, "global", "model", "clp_label")
                model_fit = np.stack([mm[g] @ c.T @ gm[g] for g in range(G)], axis=1)
            else:
                mm = arr(mat, "model", "clp_label")
                model_fit = mm @ c.T @ gm.T
            if not close_arr(fitted, model_fit, rt):
                ck.violation("fitted-ne-matrix-clp:full-model", f"{label!r}: fitted_data != matrix x clp x global_matrix^T "
                             f"(shape model={M}, global={G})", case)
        else:
            c = arr(clp, "global", "clp_label")
            labels = [str(x) for x in clp.coords["clp_label"].values]
            mlabels = [str(x) for x in mat.coords["clp_label"].values]
            if labels != mlabels:
                ck.violation("clp-label-order", f"{label!r}: clp labels {labels} differ from matrix labels {mlabels}", case)
                continue
            if mat.ndim == 3:
                mm = arr(mat, "global", "model", "clp_label")
                model_fit = np.stack([float(scale) * mm[g] @ c[g] for g in range(G)], axis=1)
            else:
                mm = arr(mat, "model", "clp_label")
                model_fit = float(scale) * mm @ c.T
            if not close_arr(fitted, model_fit, rt):
                chained = _has_chain(spec)
                linked = gen_scheme.resolve_linked(spec, ds["group"])
                key = "fitted-ne-scale-matrix-clp" + (":chained-relations" if chained else "") + (":linked" if linked else ":unlinked")
                ck.violation(key, f"{label!r}: fitted_data != dataset_scale x matrix x clp at some global index", case)
            # constrained clps exactly zero, related clps exactly parameter x source on their intervals
            # Interval items act on the coordinate of the clp. In a linked group a clp belongs to an *aligned* point that can
            # be shared by points of several datasets lying (within the link tolerance) on both sides of an interval bound;
            # "on their intervals" is therefore read on the aligned global axis there — a reading on each member's own
            # coordinate is unsatisfiable for such merged points (the statement's oracle asked for it until seed 13 showed so).
            own_axis = list(ds["global_axis"])
            coord_axis = own_axis
            if gen_scheme.resolve_linked(spec, ds["group"]):
                members = [d2 for d2 in spec["datasets"] if d2["group"] == ds["group"]]
                al = c02._align([d2["global_axis"] for d2 in members], spec.get("clp_link_tolerance", 0.0),
                                spec.get("clp_link_method", "nearest"))
                if al is not None:
                    coord_axis = list(al[[d2["label"] for d2 in members].index(label)])
                    if coord_axis != own_axis:
                        ck.count("oracle:interval-evaluated-at-aligned-coordinate")
            for gi, x in enumerate(coord_axis):
                # a clp that is also the target of a relation is governed by the relation (contradictory spec otherwise)
                targets = {rr["target"] for rr in spec.get("relations", []) if c02._applies(rr.get("interval"), x)}
                for con in spec.get("constraints", []):
                    if con["target"] in labels and con["target"] not in targets:
                        a = c02._applies(con.get("interval"), x)
                        if con["type"] == "only":
                            a = not a
                        if a and c[gi, labels.index(con["target"])] != 0.0:
                            ck.violation("constrained-clp-nonzero", f"{label!r}: clp {con['target']!r} is constrained at global "
                                         f"value {x} but is {c[gi, labels.index(con['target'])]}", case)
                if not _has_chain(spec):
                    for rr in spec.get("relations", []):
                        if rr["target"] in labels and rr["source"] in labels and c02._applies(rr.get("interval"), x) \
                                and sum(1 for q in spec["relations"] if q["target"] == rr["target"]) == 1:
                            t, s_ = c[gi, labels.index(rr["target"])], c[gi, labels.index(rr["source"])]
                            if t != P[rr["parameter"]] * s_:
                                ck.violation("related-clp-not-exact", f"{label!r}: clp {rr['target']!r} != parameter x "
                                             f"{rr['source']!r} at global value {x}", case)
        if "weight" in r:
            w = arr(r.weight, "model", "global")
            if "weighted_residual" not in r:
                ck.violation("weighted-residual-missing", f"{label!r} has a weight but no weighted_residual", case)
            elif not close_arr(arr(r.weighted_residual, "model", "global"), w * resid, rt):
                ck.violation("weighted-residual-ne-weight-residual", f"{label!r}: weighted_residual != weight x residual", case)
            if ds.get("weight") is not None and not np.array_equal(w, np.array(ds["weight"], dtype=float)):
                ck.violation("weight-changed", f"{label!r}: reported weight differs from the dataset's weight", case)


def group_label_collision(spec):
    """two different sets of datasets of one linked group whose concatenated labels coincide (e.g. a+bc / ab+c)"""
    import itertools
    for g in spec["groups"]:
        labels = [d["label"] for d in spec["datasets"] if d["group"] == g]
        if not gen_scheme.resolve_linked(spec, g) or len(labels) > 6:
            continue
        seen = {}
        for n in range(1, len(labels) + 1):
            for sub in itertools.combinations(labels, n):
                key = "".join(sub)
                if key in seen and seen[key] != sub:
                    return True
                seen[key] = sub
    return False


def _has_chain(spec):
    rels = spec.get("relations", [])
    targets = {r["target"] for r in rels}
    return any(r["source"] in targets for r in rels) or len(targets) != len(rels)


def model_lines(spec, res):
    weights = {}
    for ds in spec["datasets"]:
        if ds.get("weight") is not None:
            weights[ds["label"]] = np.array(ds["weight"], dtype=float)
        elif res is not None and ds["label"] in res.data and "weight" in res.data[ds["label"]]:
            weights[ds["label"]] = arr(res.data[ds["label"]].weight, "model", "global")
        else:
            weights[ds["label"]] = None
    return gen_scheme.spec_lines(spec, weights_from_provider=weights) + ["results", "matrices"]


def judge_matrices(ck, spec, res, tree, approx=False):
    """`matrix` / `global_matrix` of every result dataset against `matrixAt` of the model (the M_i of
    fitted_eq_scale_matrix_clp): labels in order, one (model x clp) slice per global index, exact (regime E)"""
    for item in tree:
        label = core.dec(item[0])
        if label not in res.data:
            return f"{label}: missing in result"
        r = res.data[label]
        ds = next(d for d in spec["datasets"] if d["label"] == label)
        if item[1] == "none":
            return f"{label}: the model has no matrix"
        labels = [core.dec(x) for x in item[1]]
        got_labels = [str(x) for x in r.matrix.coords["clp_label"].values]
        if got_labels != labels:
            return f"{label}: matrix clp labels {got_labels} vs model {labels}"
        want = np.array([[[float(Fraction(v)) for v in row] for row in m] for m in item[2]], dtype=float)
        G, M = len(ds["global_axis"]), len(ds["model_axis"])
        want = want.reshape((G, M, len(labels)))
        if r.matrix.ndim == 3:
            got = arr(r.matrix, "global", "model", "clp_label")
        else:
            got = np.broadcast_to(arr(r.matrix, "model", "clp_label"), want.shape)
            ck.count("matrix:index-independent")
        if got.shape != want.shape or not (close_arr(got, want) if approx else np.array_equal(got, want)):
            return f"{label}: matrix differs from the model's matrixAt"
        ck.count("matrix:compared")
        if (item[3] == "none") != ("global_matrix" not in r):
            return f"{label}: global_matrix present={('global_matrix' in r)} but model says {item[3] == 'none'}"
        if item[3] != "none":
            glabels = [core.dec(x) for x in item[3][0]]
            got_gl = [str(x) for x in r.global_matrix.coords["global_clp_label"].values]
            if got_gl != glabels:
                return f"{label}: global clp labels {got_gl} vs model {glabels}"
            if item[3][1] == "none":
                return f"{label}: index dependent global matrix in the model"
            wantg = np.array([[float(Fraction(v)) for v in row] for row in item[3][1]], dtype=float)
            gotg = arr(r.global_matrix, "global", "global_clp_label")
            if gotg.shape != wantg.shape or not (close_arr(gotg, wantg) if approx else np.array_equal(gotg, wantg)):
                return f"{label}: global_matrix differs from the model"
            ck.count("matrix:global-compared")
    return None


def judge(ck, b, ans):
    spec, real = b.get("spec_eval", b["spec"]), b["real"]
    light = {"spec": b["spec"]}
    if any(a.startswith("bad") for a in ans):
        raise core.HarnessError(f"model rejected a protocol line: {[l for l, a in zip(b['lines'], ans) if a.startswith('bad')][:2]}")
    if real["error"]:
        return
    res = real["result"]
    # C08 / C14 call this with the answers up to the `results` line only; C03 itself asks for `matrices` after it
    mat_ans = ans[-1] if b["lines"][-1] == "matrices" and len(ans) == len(b["lines"]) else None
    res_ans = ans[-2] if mat_ans is not None else ans[-1]
    if not res_ans.startswith("res "):
        ck.disagree("model-unsolvable", f"model answered {res_ans!r}", light)
        return
    if mat_ans is not None and not mat_ans.startswith("mat "):
        raise core.HarnessError(f"model answered {mat_ans[:80]!r} to 'matrices'")
    tree = core.parse_tree(res_ans[4:])[0]
    bad = judge_matrices(ck, spec, res, core.parse_tree(mat_ans[4:])[0], approx="spec_eval" in b) if mat_ans is not None else None
    if bad:
        tree = []
    for item in tree:
        label = core.dec(item[0])
        labels = [core.dec(x) for x in item[1]]
        clps = [[float(Fraction(v)) for v in row] for row in item[2]]
        residual = [[float(Fraction(v)) for v in row] for row in item[3]]
        weighted = None if item[4] == "none" else [[float(Fraction(v)) for v in row] for row in item[4]]
        fitted = [[float(Fraction(v)) for v in row] for row in item[5]]
        if label not in res.data:
            bad = f"{label}: missing in result"
            break
        r = res.data[label]
        ds = next(d for d in spec["datasets"] if d["label"] == label)
        if ds.get("gmcs"):
            got_clp = np.asarray(r.clp.transpose("global_clp_label", "clp_label").values, dtype=float)
        else:
            got_clp = arr(r.clp, "global", "clp_label")
        got_labels = [str(x) for x in r.clp.coords["clp_label"].values]
        if got_labels != labels:
            # compare by label, order is a diagnostic only
            if sorted(got_labels) != sorted(labels):
                bad = f"{label}: clp labels {got_labels} vs model {labels}"
                break
            perm = [labels.index(l) for l in got_labels]
            clps = [[row[j] for j in perm] for row in clps]
            ck.diagnostic("clp label order differs", {"dataset": label})
        checks = [("clp", got_clp, np.array(clps, dtype=float).reshape(got_clp.shape) if np.size(clps) == got_clp.size else np.array(clps)),
                  ("residual", arr(r.residual, "model", "global"), residual),
                  ("fitted_data", arr(r.fitted_data, "model", "global"), fitted)]
        if weighted is not None:
            if "weighted_residual" in r:
                checks.append(("weighted_residual", arr(r.weighted_residual, "model", "global"), weighted))
            else:
                bad = f"{label}: weighted_residual missing"
                break
        for name, got, want in checks:
            if not close_arr(got, want, spec_rtol(spec)):
                bad = f"{label}: {name} differs from the model"
                break
        if bad:
            break
    if bad:
        d = {"key": "model-vs-impl", "what": bad, "case": light}
        if b.get("oracle_failed"):
            d["explained"] = True
        ck.disagreements.append(d)


def check_spec(ck, spec, batch, twin=True):
    real = run_real(spec)
    for t in c02.classify(spec):
        ck.count("spec:" + t)
    light = {"spec": spec}
    before = len(ck.violations) + len(ck.known_hits)
    nontrivial = False
    spec_eval = None
    if real["error"]:
        ck.count("real-error:" + real["error"].split(":")[0])
        if real["error"] != "dof-zero" and not real["error"].startswith("AlignDatasetError"):
            kind = real["error"].split(":")[0]
            if group_label_collision(spec):
                kind = "group-label-collision"
            ck.violation("optimize-raises:" + kind, f"optimize raised {real['error']}", light)
    else:
        if (spec.get("max_nfev") or 1) > 1:
            # the optimiser moved: every identity and the model are evaluated at the optimised parameter values
            spec_eval = copy.deepcopy(spec)
            spec_eval["parameters"] = {p.label: float(p.value) for p in real["result"].optimized_parameters.all()}
            ck.count("moved:" + ("yes" if spec_eval["parameters"] != {k: float(v) for k, v in spec["parameters"].items()} else "no"))
            if not all(np.isfinite(v) for v in spec_eval["parameters"].values()) or not gen_scheme.full_rank_everywhere(spec_eval):
                ck.count("moved:left-the-full-rank-domain")
                ck.case(("spec", json.dumps(spec, sort_keys=True, default=str)), False)
                return
        oracle(ck, spec_eval or spec, real["result"], light)
        nontrivial = any(float(np.abs(r.residual.values).max()) > 1e-9 for r in real["result"].data.values())
        if twin and ck.rng.random() < 0.25:
            twin_spec = relabel(spec, {d["label"]: f"twin{i}x" for i, d in enumerate(spec["datasets"])})
            t = run_real(twin_spec)
            ck.count("twin-runs")
            if t["error"]:
                ck.violation("twin-raises", f"the same scheme with renamed datasets raises {t['error']}", light)
            else:
                for d, d2 in zip(spec["datasets"], twin_spec["datasets"]):
                    a, b_ = real["result"].data[d["label"]], t["result"].data[d2["label"]]
                    for name in ("residual", "fitted_data", "clp"):
                        if not close_arr(a[name].values, b_[name].values):
                            ck.violation("depends-on-dataset-label", f"{name} of dataset {d['label']!r} changes when the datasets are renamed", light)
    ck.case(("spec", json.dumps(spec, sort_keys=True, default=str)), nontrivial)
    failed = (len(ck.violations) + len(ck.known_hits)) > before
    b = {"spec": spec, "real": real, "lines": model_lines(spec_eval or spec, real.get("result")), "oracle_failed": failed}
    if spec_eval is not None:
        b["spec_eval"] = spec_eval
    batch.append(b)


def relabel(spec, mapping):
    s = copy.deepcopy(spec)
    for d in s["datasets"]:
        d["label"] = mapping[d["label"]]
    for w in s.get("weights", []):
        w["datasets"] = [mapping[x] for x in w["datasets"]]
    return s


def flush(ck, batch):
    if not batch:
        return
    all_lines = []
    for b in batch:
        all_lines += b["lines"]
    answers = core.lean_driver(PROP, all_lines)
    pos = 0
    for b in batch:
        n = len(b["lines"])
        judge(ck, b, answers[pos:pos + n])
        pos += n
    batch.clear()


def unsort_axes(spec, rng):
    """the same datasets with their global indices stored in another order (descending or shuffled global axis):
    global axis, data / weight columns, index dependent matrix slices and global matrix rows are permuted together"""
    s = copy.deepcopy(spec)
    changed = False
    for ds in s["datasets"]:
        n = len(ds["global_axis"])
        if n < 2 or rng.random() < 0.3:
            continue
        perm = list(range(n))[::-1] if rng.random() < 0.5 else rng.sample(range(n), n)
        if perm == list(range(n)):
            continue
        changed = True
        ds["global_axis"] = [ds["global_axis"][p] for p in perm]
        ds["data"] = [[row[p] for p in perm] for row in ds["data"]]
        if ds.get("weight") is not None:
            ds["weight"] = [[row[p] for p in perm] for row in ds["weight"]]
        for mc in ds["mcs"]:
            if mc["index_dependent"]:
                mc["base"] = [mc["base"][p] for p in perm]
        for mc in ds.get("gmcs") or []:
            mc["base"] = [mc["base"][p] for p in perm]
    return s if changed else None


def storage_variant(spec, rng):
    """the same scheme with its arrays stored differently (all valid xarray input): the weight variable in the other
    dimension order than the data variable, the data as integer counts (int64 / int32) or single precision floats"""
    s = copy.deepcopy(spec)
    changed = False
    for ds in s["datasets"]:
        if ds.get("weight") is not None and rng.random() < 0.7:
            ds["weight_dims"] = "swapped"
            changed = True
        if rng.random() < 0.6:
            dt = rng.choice(["int64", "int32", "float32"])
            a = np.array(ds["data"], dtype=float)
            a = np.round(a) if dt.startswith("int") else a.astype(np.float32).astype(float)
            ds["data"] = a.tolist()
            ds["dtype"] = dt
            changed = True
    return s if changed else None


def moved_spec(rng):
    """a scheme whose clp relation / penalty / scale parameters are free and which is optimised for a few evaluations:
    the result is reported at parameter values that differ from the initial ones"""
    for _ in range(20):
        spec = gen_scheme.rand_spec(rng)
        special = sorted({r["parameter"] for r in spec.get("relations", [])} |
                         {d["scale"] for d in spec["datasets"] if d.get("scale") is not None})
        if special:
            break
    spec["vary"] = sorted(set(special) | {sorted(spec["parameters"])[0]})
    spec["max_nfev"] = rng.choice([3, 4, 6])
    return spec


def c03_spec(rng, weird=False):
    kw = {}
    if weird:
        labels = rng.choice(WEIRD_LABELS)
        kw = {"dataset_labels": labels, "force": {"n_datasets": len(labels), "n_groups": 1, "link_clp": True}}
    spec = gen_scheme.rand_spec(rng, **kw)
    # one free parameter keeps the degrees of freedom positive
    spec["vary"] = [sorted(spec["parameters"])[0]]
    spec["max_nfev"] = 1
    return spec


def run(ck):
    gen_scheme.model_class()
    batch = []
    for c in core.load_corpus(PROP):
        check_spec(ck, c["spec"], batch)
        ck.count("stream:corpus")
    flush(ck, batch)
    n = ck.n(90, 3000)
    for i in range(n):
        weird = (i % 4 == 3)
        spec = c03_spec(ck.rng, weird)
        check_spec(ck, spec, batch)
        ck.count("stream:weird-labels" if weird else "stream:random")
        if i % 3 == 1:
            # the same scheme with the global indices of some datasets stored in another order
            u = unsort_axes(spec, ck.rng)
            if u is not None:
                check_spec(ck, u, batch, twin=False)
                ck.count("stream:unsorted-global-axes")
        if i % 3 == 2:
            v = storage_variant(spec, ck.rng)
            if v is not None:
                check_spec(ck, v, batch, twin=False)
                ck.count("stream:storage-variants")
        if i % 5 == 4:
            check_spec(ck, moved_spec(ck.rng), batch, twin=False)
            ck.count("stream:moved-parameters")
        if i < 2:
            ck.sample({"spec": spec})
        if len(batch) >= 40:
            flush(ck, batch)
    flush(ck, batch)


def search(ck):
    batch = []
    for i in range(ck.n(200, 2000)):
        spec = c03_spec(ck.rng, i % 3 == 0)
        if i % 4 == 1:
            spec = unsort_axes(spec, ck.rng) or spec
        elif i % 4 == 2:
            spec = storage_variant(spec, ck.rng) or spec
        elif i % 4 == 3:
            spec = moved_spec(ck.rng)
        check_spec(ck, spec, batch, twin=False)
        if len(batch) >= 40:
            flush(ck, batch)
        if ck.violations:
            break
    flush(ck, batch)


def replay(ck, case):
    gen_scheme.model_class()
    specs = []
    if "case" in case and "spec" in case["case"]:
        specs.append(case["case"]["spec"])
    for d in case.get("disagreements", []):
        specs.append(d["case"]["spec"])
    batch = []
    for s in specs:
        check_spec(ck, s, batch, twin=False)
    flush(ck, batch)
    for d in ck.disagreements:
        print("DISAGREEMENT", d["what"])
