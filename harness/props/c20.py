"""C20 — model validation is sound and complete for references.

(1) translators: `generate(ck)` regenerates lean/GlotaranModel/Generated/C20.lean (the `Schema` table) from the live item
    classes with an own walker over attrs fields / typing annotations, Generated/C20Validators.lean (what every function
    attached with `attribute(validator=…)` checks, translated from its AST by harness/props/_c20_validators.py) and
    Generated/C20Walker.lean (the positions the live walkers visit on probe instances of every class);
(2) correspondence: abstract model (Lean) vs `Model.get_issues` / `fill_item` /
    `get_parameter_labels` on the real code;
(3) oracle: the statement of C20 evaluated on the real code, independent of the Lean model.
"""
from __future__ import annotations

import copy
import hashlib
import inspect
import sys
import types
import typing
import warnings
from pathlib import Path

from harness import core
from harness.core import enc, strs
from harness.props import _c20_validators

PROP = "C20"
REQUIRED_THEOREMS = [
    "never_internal_error", "complete", "complete_items", "complete_parameters", "sound",
    "exclusive_unique_reported", "valid_fills", "valid_fills_ranked", "generated_parameters_suffice",
    "generated_schema_closed", "generated_schema_ranked", "complete_generated",
    "validators_reported", "issues_justified", "generated_validators_eq_model", "generated_validators_safe",
    "generated_validators_cover", "sound_generated", "defined_in_reported",
    "walker_positions_generated", "walk_positions_checked",
    "issues_without_parameters_subset", "issues_with_parameters_extra",
    "issues_antitone_in_parameters", "parameters_do_not_change_totality",
    "issues_depend_on_parameter_membership", "remove_one_parameter",
    "generated_parameters_all_referenced", "generated_parameters_tight",
]
TRUSTED = [
    "hand-written model lean/GlotaranModel/C20.lean of glotaran/model/item.py (iterate_names_and_labels, "
    "get_item_*_issues, fill_item), dataset_model.py and model.py (get_issues, get_parameter_labels, generate_parameters), "
    "tied to the code by differential execution; its interpreter `interpPred` of the validator predicate language",
    "the translator harness/props/c20.py:walk_schema (own walker over attrs fields and typing annotations) that "
    "regenerates the Schema table; cross-checked on every run against glotaran's model_attributes / "
    "parameter_attributes / iterate_names_and_labels",
    "the translator harness/props/_c20_validators.py (AST of every function attached with attribute(validator=...), calls "
    "returned directly are inlined) that regenerates the validator table Generated/C20Validators.lean; cross-checked by the "
    "correspondence (the interpreted table against the real validators on cases that violate each predicate in every way "
    "it allows) and by theorem generated_validators_eq_model against the hand-written table",
    "the probe runner harness/props/c20.py:walk_live that runs the live walkers (iterate_model_item_names_and_labels, "
    "iterate_parameter_names_and_labels, fill_item_attributes) on probe instances of every item class and regenerates "
    "Generated/C20Walker.lean (theorem walker_positions_generated: the model walker visits the same positions)",
    "validators the translator cannot express stay abstract (`opaque`, counted in generated_tables; none for the builtin "
    "classes: theorem generated_validators_safe); validation hooks other than attribute validators (attrs validators, init "
    "hooks, get_issues-style methods) are searched for on every class and listed (none found)",
]
ASSUMPTIONS = [
    "attribute values have the shape their annotation declares (a scalar label, a list of labels, a dict of labels); "
    "other shapes are a modelled `shape` error and are excluded by hypothesis `WellShaped`",
    "the empty string at a scalar reference position counts as unset (`if not value: continue`), as None does",
    "references are labels (str); Parameter / item objects inside a specification (already filled items) are outside the language",
    "every collection the schema or a validator refers to is an attribute of the model class (theorem generated_schema_closed "
    "for the builtin classes; `Closed` hypothesis in general)",
    "validators that resolve labels guard against None and skip undefined labels (`tableSafe`; theorem generated_validators_safe "
    "for the builtin classes; false for the code before fix D11, witness kept as an example)",
    "item references are acyclic (theorem generated_schema_ranked for the builtin classes; rank hypothesis of valid_fills in general)",
    "reading of the property: a label is a reference when it names something DEFINED in the model or the parameter set: model items "
    "(typed positions, and the plain-string positions DatasetModel.group -> dataset_groups, Weight.datasets -> dataset, "
    "validated since the fix) and parameters.  Clp labels (constraint / relation / penalty target and source, clp-guide "
    "target) name columns megacomplexes produce at evaluation, scheme.data keys are data, clp_link_* are options: not covered, "
    "observed and recorded in the evidence (scheme_level_positions_observed), never judged",
]
RULE = (
    "scenario models built from dict specs covering every builtin megacomplex / irf / shape / constraint / penalty class "
    "(decay with k_matrix lists and tuple keys, decay-sequential, decay-parallel, damped-oscillation, pfid, spectral with "
    "shapes as global megacomplex, baseline, coherent-artifact, clp-guide, all irf types, initial_concentration, clp items, "
    "weights over one and two datasets, dataset groups, scales); for each scenario, exhaustively over every reference "
    "position the regenerated Schema lists and every plain-string label position (group, weight datasets): the label "
    "misspelled (suffix, proper prefix, parameter group path / child, a label defined in ANOTHER collection), the referenced "
    "definition removed (every collection incl. datasets and dataset groups), every parameter removed, every megacomplex "
    "appended to every dataset's megacomplex / global_megacomplex list (unique ones also twice; combinations with exclusive), "
    "every list measured by a length validator shortened / lengthened / pairs and all shortened alike, scalar set to '' / None, "
    "plus seeded random combinations of 2-4 of these and PAIRS of dangling references in different items (thorough: all pairs; "
    "quick: 30 per scenario); compared: multiset of (issue kind, name, label) with and without parameters, parameter label "
    "set, fill result tree / error class; a case is non-trivial when it contains at least one reference; distinct = distinct "
    "(scenario, mutation list); "
    "ORACLE ONLY (declared types are outside the Schema of the Lean model): megacomplex types declared plugin-style with "
    "@megacomplex(...) on classes DERIVED from other megacomplex types - exhaustively every parent flag combination "
    "(harness-declared unique / exclusive parents and the builtin coherent-artifact, baseline, clp-guide, decay-parallel) x "
    "every declaration of the child (unique / exclusive omitted, False, True), each with 8-16 dataset usage patterns (child "
    "alone / twice / next to another / next to its parent, as megacomplex and as global_megacomplex), plus seeded random trees of "
    "2-4 declared types up to depth three with random megacomplex lists; required: exactly the unique / exclusive issues that "
    "the types' OWN declarations imply (defaults False; flags of a base type are not inherited), valid()/validate() agree, "
    "a valid model fills"
)

GEN_FILE = core.LEAN / "GlotaranModel" / "Generated" / "C20.lean"

# ------------------------------------------------------------------------------------------
# (1) translator: own walker
# ------------------------------------------------------------------------------------------
ALIAS = "__glotaran_alias__"
VALIDATOR = "__glotaran_validator__"
GEN_VALIDATORS = core.LEAN / "GlotaranModel" / "Generated" / "C20Validators.lean"
GEN_WALKER = core.LEAN / "GlotaranModel" / "Generated" / "C20Walker.lean"


def _glotaran():
    core.import_glotaran()
    import glotaran.builtin.megacomplexes  # noqa: F401  (registers the builtin classes)
    for name in ("baseline", "clp_guide", "coherent_artifact", "damped_oscillation", "decay", "pfid", "spectral"):
        __import__(f"glotaran.builtin.megacomplexes.{name}")


def _alts(tp):
    if typing.get_origin(tp) in (typing.Union, types.UnionType):
        out = []
        for a in typing.get_args(tp):
            out += _alts(a)
        return out
    return [tp]


def _ref_class(alts):
    """{X, str} with X a ModelItem / Parameter class -> ("item"|"param", X)"""
    from glotaran.model.item import ModelItem
    from glotaran.parameter import Parameter

    non_str = [a for a in alts if a is not str]
    if len(alts) == 2 and len(non_str) == 1 and isinstance(non_str[0], type):
        x = non_str[0]
        if issubclass(x, Parameter):
            return ("param", x)
        if issubclass(x, ModelItem):
            return ("item", x)
    return None


def _mentions_ref(tp) -> bool:
    from glotaran.model.item import Item
    from glotaran.parameter import Parameter

    if isinstance(tp, type) and not typing.get_args(tp):
        return issubclass(tp, (Item, Parameter))
    return any(_mentions_ref(a) for a in typing.get_args(tp) if a is not Ellipsis)


def classify(tp):
    """annotation -> (struct, optional, kind, target class | None); kind in item/param/plain/unsupported"""
    all_alts = _alts(tp)
    optional = types.NoneType in all_alts
    alts = [a for a in all_alts if a is not types.NoneType]
    r = _ref_class(alts)
    if r:
        return "scalar", optional, r[0], r[1]
    if len(alts) == 1:
        o, args = typing.get_origin(alts[0]), typing.get_args(alts[0])
        struct = elem = None
        if o is list and len(args) == 1:
            struct, elem = "list", args[0]
        elif o is dict and len(args) == 2:
            struct, elem = "dict", args[1]
        if struct:
            r = _ref_class([a for a in _alts(elem) if a is not types.NoneType])
            if r:
                return struct, optional, r[0], r[1]
            if not _mentions_ref(alts[0]):
                return struct, optional, "plain", None
            return struct, optional, "unsupported", None
    if _mentions_ref(tp):
        return "scalar", optional, "unsupported", None
    return "scalar", optional, "plain", None


def model_collections(M):
    """top-level collections of a model class: (name, keyed, base item class)"""
    import attrs
    from glotaran.model.item import Item

    ns = dict(vars(sys.modules["glotaran.model.model"]))
    out = []
    for f in attrs.fields(M):
        t = f.type
        if isinstance(t, str):
            try:
                t = eval(t, ns)  # annotations of glotaran/model/model.py (from __future__ import annotations)
            except Exception:
                continue
        o, a = typing.get_origin(t), typing.get_args(t)
        if o is list and len(a) == 1 and isinstance(a[0], type) and issubclass(a[0], Item):
            out.append((f.name, False, a[0]))
        elif o is dict and len(a) == 2 and isinstance(a[1], type) and issubclass(a[1], Item):
            out.append((f.name, True, a[1]))
    return out


def _subclasses(c):
    out, todo = [], [c]
    while todo:
        x = todo.pop()
        if x in out:
            continue
        out.append(x)
        todo += x.__subclasses__()
    return out


def concrete_classes(coll, base):
    """(key, class) for every concrete item class that can appear in collection `coll`"""
    import attrs
    from glotaran.model.item import TypedItem

    if not issubclass(base, TypedItem):
        return [(f"{coll}/", base)]
    out = {}
    for c in _subclasses(base):
        if not c.__module__.startswith("glotaran."):
            continue
        d = attrs.fields(c).type.default
        if d is attrs.NOTHING or not isinstance(d, str):
            continue
        key = f"{coll}/{d}"
        # two classes with the same type string: the one the code's own registry resolves
        if key in out and getattr(base, "__item_types__", {}).get(d) is not c:
            continue
        out[key] = c
    return sorted(out.items())


def class_spec(key, coll, cls):
    import attrs

    attrs_out = []
    for f in attrs.fields(cls):
        struct, optional, kind, target = classify(f.type)
        v = f.metadata.get(VALIDATOR)
        if v is None:
            validator = ("none",)
        else:
            validator = ("named", _c20_validators.qualname(v), v)
        attrs_out.append({
            "name": f.name, "struct": struct, "optional": optional, "kind": kind,
            "coll": f.metadata.get(ALIAS, f.name) if kind == "item" else None,
            "target": target, "validator": validator,
        })
    return {"key": key, "coll": coll, "cls": cls, "attrs": attrs_out,
            "exclusive": bool(getattr(cls, "__is_exclusive__", False)),
            "unique": bool(getattr(cls, "__is_unique__", False))}


_SCHEMA_CACHE = {}


def walk_schema():
    """the Schema of the model class for all builtin megacomplexes — derived with the own walker only:
       collections = those of the base `Model` class + one keyed collection per (non-aliased) model-item
       attribute of a megacomplex class or of a dataset model class; the dataset class is the union of the
       dataset model classes the megacomplexes ask for"""
    if "s" in _SCHEMA_CACHE:
        return _SCHEMA_CACHE["s"]
    _glotaran()
    import attrs
    from glotaran.model import DatasetModel, Megacomplex, Model

    mcs = [c for c in _subclasses(Megacomplex) if c is not Megacomplex and c.__module__.startswith("glotaran.builtin.")]
    mcs.sort(key=lambda c: (c.__module__, c.__qualname__))
    dataset_types = [DatasetModel]
    for c in mcs:
        d = getattr(c, "__dataset_model_type__", None)
        if d is not None and d not in dataset_types:
            dataset_types.append(d)
    colls = {n: (k, b) for n, k, b in model_collections(Model)}
    for cls in mcs + dataset_types:
        for f in attrs.fields(cls):
            struct, optional, kind, target = classify(f.type)
            if kind == "item" and ALIAS not in f.metadata and f.name not in colls:
                colls[f.name] = (True, target)
    # the dataset class: union of the fields of the dataset model classes
    merged = {}
    for d in dataset_types:
        for a in class_spec("dataset/", "dataset", d)["attrs"]:
            merged.setdefault(a["name"], a)
    base = ["label", "group", "force_index_dependent", "megacomplex", "megacomplex_scale", "global_megacomplex",
            "global_megacomplex_scale", "scale"]
    dataset_spec = {"key": "dataset/", "coll": "dataset", "cls": None, "dataset_types": dataset_types[1:],
                    "attrs": sorted(merged.values(), key=lambda a: (0, base.index(a["name"])) if a["name"] in base else (1, a["name"])),
                    "exclusive": False, "unique": False}
    specs = [dataset_spec]
    for name in sorted(colls):
        if name == "dataset":
            continue
        for key, cls in concrete_classes(name, colls[name][1]):
            specs.append(class_spec(key, name, cls))
    specs.sort(key=lambda s: s["key"])
    try:
        M = Model.create_class_from_megacomplexes(mcs)
    except Exception:  # noqa: BLE001 — reported by crosscheck_schema
        M = None
    s = {"model_class": M, "collections": sorted((n, k) for n, (k, _) in colls.items()),
         "bases": {n: b for n, (_, b) in colls.items()}, "specs": specs, "by_key": {x["key"]: x for x in specs},
         "megacomplex_classes": mcs}
    _SCHEMA_CACHE["s"] = s
    return s


def collection_ranks(schema):
    edges = {n: set() for n, _ in schema["collections"]}
    for sp in schema["specs"]:
        for a in sp["attrs"]:
            if a["kind"] == "item":
                edges.setdefault(sp["coll"], set()).add(a["coll"])
                edges.setdefault(a["coll"], set())
    rank, state = {}, {}

    def visit(c):
        if state.get(c) == 1:
            raise RecursionError(c)
        if c in rank:
            return rank[c]
        state[c] = 1
        r = 1 + max((visit(t) for t in edges[c]), default=-1)
        state[c] = 2
        rank[c] = r
        return r

    try:
        for c in sorted(edges):
            visit(c)
    except RecursionError:
        return [(c, 0) for c in sorted(edges)]
    return sorted(rank.items())


def _lstr(s):
    assert all(32 <= ord(c) < 127 and c not in '"\\' for c in s), s
    return '"' + s + '"'


def render_lean(schema) -> str:
    def kind(a):
        if a["kind"] == "item":
            return f"(.item {_lstr(a['coll'])})"
        return ".param" if a["kind"] == "param" else ".plain"

    def validator(v):
        if v[0] == "none":
            return ".none"
        return f"(.named {_lstr(v[1])})"

    out = [
        "/-",
        "GENERATED by harness/props/c20.py (generate) from the live item classes of VERIF_REPO — do not edit.",
        "Schema table of C20: for every item class that can appear in a top-level collection of the model class",
        "built from all builtin megacomplexes: attribute, structure, optional, referent kind, validator.",
        "-/",
        "import GlotaranModel.C20",
        "namespace Glotaran.C20.Generated",
        "",
        "/-- top-level collections of the model class: (name, keyed by label) -/",
        "def collections : List (String × Bool) := [",
        ",\n".join(f"  ({_lstr(n)}, {'true' if k else 'false'})" for n, k in schema["collections"]),
        "]",
        "",
        "/-- rank of a collection: longest chain of item references starting in it (all 0 if the",
        "    reference graph of the classes is cyclic) -/",
        "def collRank : List (String × Nat) := [",
        ",\n".join(f"  ({_lstr(n)}, {r})" for n, r in collection_ranks(schema)),
        "]",
        "",
        "def schema : Schema := [",
    ]
    spec_txt = []
    for s in schema["specs"]:
        attrs_txt = ",\n".join(
            f"    ⟨{_lstr(a['name'])}, .{a['struct']}, {'true' if a['optional'] else 'false'}, {kind(a)}, {validator(a['validator'])}⟩"
            + ("  -- UNSUPPORTED reference shape" if a["kind"] == "unsupported" else "")
            for a in s["attrs"])
        src = f"{s['cls'].__module__}.{s['cls'].__qualname__}" if s["cls"] is not None \
            else "union of DatasetModel + " + " + ".join(sorted(f"{b.__module__}.{b.__qualname__}" for b in s["dataset_types"]))
        spec_txt.append(
            f"  -- {src}\n  ⟨{_lstr(s['key'])}, {_lstr(s['coll'])}, [\n{attrs_txt}],\n"
            f"    {'true' if s['exclusive'] else 'false'}, {'true' if s['unique'] else 'false'}⟩")
    out.append(",\n".join(spec_txt))
    out += ["]", "", "end Glotaran.C20.Generated", ""]
    return "\n".join(out)


# ------------------------------------------------------------------------------------------
# (1b) translator of the validator functions (harness/props/_c20_validators.py does the AST work)
# ------------------------------------------------------------------------------------------
_VALIDATORS_CACHE = {}


def walk_validators(schema=None):
    """every validator hook of every item class of the schema:
       uses = [(class key, attribute, qualified function name)], preds = {name: predicate tuple},
       hooks = other validation hooks found on the classes (attrs validators, init hooks, get_issues-style methods)"""
    if "v" in _VALIDATORS_CACHE:
        return _VALIDATORS_CACHE["v"]
    schema = schema or walk_schema()
    uses, preds, funcs, hooks = [], {}, {}, []
    for sp in schema["specs"]:
        for a in sp["attrs"]:
            v = a["validator"]
            if v[0] == "named":
                uses.append((sp["key"], a["name"], v[1]))
                funcs.setdefault(v[1], v[2])
        classes = [sp["cls"]] if sp["cls"] is not None else [schema["bases"]["dataset"]] + sp["dataset_types"]
        for c in classes:
            try:
                for kind, name in _c20_validators.class_hooks(c):
                    hooks.append((sp["key"], f"{c.__module__}.{c.__qualname__}", kind, name))
            except Exception as e:  # noqa: BLE001 — a class the hook scan cannot read is itself recorded
                hooks.append((sp["key"], f"{c.__module__}.{c.__qualname__}", "scan-failed", type(e).__name__))
    for name in sorted(funcs):
        try:
            preds[name] = _c20_validators.translate(funcs[name])
        except Exception as e:  # noqa: BLE001 — never crash the check, never a silent default
            preds[name] = ("untranslatable", f"{name}: translator raised {type(e).__name__}")
    # a hook that is not a glotaran attribute validator cannot be expressed: opaque, by name (counted)
    for key, cls, kind, name in hooks:
        preds.setdefault(f"{cls}.{name}", ("opaque", f"{cls}.{name}"))
    r = {"uses": sorted(uses), "preds": preds, "hooks": sorted(set(hooks)), "funcs": funcs}
    _VALIDATORS_CACHE["v"] = r
    return r


def _pred_lean(p):
    b = lambda x: "true" if x else "false"  # noqa: E731
    if p[0] == "resolved":
        rules = ", ".join(f"⟨.{f}, .{'sameClass' if c == 'sameclass' else c}, {n}, .{i}⟩" for f, c, n, i in p[4])
        return f".resolved {_lstr(p[1])} {b(p[2])} {b(p[3])} [{rules}]"
    if p[0] == "lengthsequal":
        return ".lengthsEqual [" + ", ".join(_lstr(x) for x in p[1]) + "]"
    if p[0] == "definedin":
        return f".definedIn {_lstr(p[1])} {_lstr(p[2])}"
    if p[0] == "opaque":
        return f".opaque {_lstr(p[1])}"
    return f".untranslatable {_lstr(_ascii(p[1]))}"


def _ascii(s):
    return "".join(c if 32 <= ord(c) < 127 and c not in '"\\' else "?" for c in s)


def _pred_protocol(p):
    if p[0] == "resolved":
        rules = core.lst(f"[{f},{c},{n},{i}]" for f, c, n, i in p[4])
        return f"[resolved,{enc(p[1])},{core.bool_(p[2])},{core.bool_(p[3])},{rules}]"
    if p[0] == "lengthsequal":
        return f"[lengthsequal,{strs(p[1])}]"
    if p[0] == "definedin":
        return f"[definedin,{enc(p[1])},{enc(p[2])}]"
    if p[0] == "opaque":
        return f"[opaque,{enc(p[1])}]"
    return f"[untranslatable,{enc(_ascii(p[1]))}]"


def validators_protocol_dump(vs) -> str:
    return core.lst(f"[{enc(n)},{_pred_protocol(vs['preds'][n])}]" for n in sorted(vs["preds"]))


def render_validators_lean(vs) -> str:
    out = [
        "/-",
        "GENERATED by harness/props/c20.py (generate) from the source of the live validator functions of VERIF_REPO — do not edit.",
        "Validator table of C20: which function `attribute(validator=…)` attaches to which attribute of which item class, and",
        "what each function checks, translated from its AST into the predicate language `VPred` of GlotaranModel/C20.lean.",
        "-/",
        "import GlotaranModel.C20",
        "namespace Glotaran.C20.Generated",
        "",
        "/-- (item class, attribute, validator function) -/",
        "def validatorUses : List (String × String × String) := [",
        ",\n".join(f"  ({_lstr(k)}, {_lstr(a)}, {_lstr(n)})" for k, a, n in vs["uses"]),
        "]",
        "",
        "/-- validation hooks of the item classes that are not glotaran attribute validators",
        "    (class, kind, name) -/",
        "def otherHooks : List (String × String × String) := [",
        ",\n".join(f"  ({_lstr(c)}, {_lstr(k)}, {_lstr(n)})" for _, c, k, n in vs["hooks"]),
        "]",
        "",
        "def validators : VTable := [",
        ",\n".join(f"  ({_lstr(n)},\n    {_pred_lean(vs['preds'][n])})" for n in sorted(vs["preds"])),
        "]",
        "",
        "end Glotaran.C20.Generated",
        "",
    ]
    return "\n".join(out)


def _write_if_changed(path, text):
    path.parent.mkdir(parents=True, exist_ok=True)
    if not path.exists() or path.read_text() != text:
        path.write_text(text)


def _sha_files(files):
    h = hashlib.sha1()
    for f in files:
        if f != "?" and Path(f).exists():
            h.update(Path(f).read_bytes())
    return h.hexdigest()


def _rel(files):
    return [str(Path(f).resolve().relative_to(core.REPO)) if str(f).startswith(str(core.REPO)) else str(f) for f in files]


# ------------------------------------------------------------------------------------------
# (1c) the traversal: what the LIVE walkers visit on probe instances of every item class
# ------------------------------------------------------------------------------------------
_WALKER_CACHE = {}


def _probe_value(a, kind):
    if kind == "none":
        return None
    if kind == "empty":
        return {"scalar": "", "list": [], "dict": {}}[a["struct"]]
    n = a["name"]
    return {"scalar": f"P:{n}", "list": [f"P:{n}:0", f"P:{n}:1"], "dict": {"k0": f"P:{n}:k0", "k1": f"P:{n}:k1"}}[a["struct"]]


def _spec_class(schema, sp):
    """the class the live walkers are run on: the class itself; for datasets the dataset class of the model class built
       from all builtin megacomplexes (the union the schema describes)"""
    if sp["cls"] is not None:
        return sp["cls"]
    import attrs
    M = schema["model_class"]
    if M is None:
        raise core.HarnessError("model class for all builtin megacomplexes cannot be created")
    t = attrs.fields(M).dataset.type
    return typing.get_args(t)[1]


def walk_live(schema=None):
    """rows: {key, kind, vals, items, params, fill_items, fill_params}; a walker that raises gives a row whose kind says so
       (no theorem about the table closes with such a row)"""
    if "w" in _WALKER_CACHE:
        return _WALKER_CACHE["w"]
    import attrs
    import importlib
    schema = schema or walk_schema()
    rows = []
    for sp in schema["specs"]:
        for kind in ("full", "empty", "none"):
            row = {"key": sp["key"], "kind": kind, "vals": [], "items": [], "params": [], "fill_items": [], "fill_params": []}
            try:
                gitem = importlib.import_module("glotaran.model.item")
                cls = _spec_class(schema, sp)

                def probe():
                    o = object.__new__(cls)
                    for f in attrs.fields(cls):
                        object.__setattr__(o, f.name, None)
                    for a in sp["attrs"]:
                        if a["kind"] in ("item", "param", "unsupported"):
                            object.__setattr__(o, a["name"], copy.deepcopy(_probe_value(a, kind)))
                    return o

                row["vals"] = [(a["name"], _probe_value(a, kind)) for a in sp["attrs"] if a["kind"] in ("item", "param", "unsupported")]
                row["items"] = [(n, l) for n, l in gitem.iterate_model_item_names_and_labels(probe())]
                row["params"] = [(n, l) for n, l in gitem.iterate_parameter_names_and_labels(probe())]
                seen = []

                def rec(name, label):
                    seen.append((name, label))
                    return label

                gitem.fill_item_attributes(probe(), gitem.model_attributes(cls), rec)
                row["fill_items"], seen = seen, []
                gitem.fill_item_attributes(probe(), gitem.parameter_attributes(cls), rec)
                row["fill_params"] = seen
                for k in ("items", "params", "fill_items", "fill_params"):
                    if not all(isinstance(n, str) and isinstance(l, str) for n, l in row[k]):
                        raise TypeError(f"walker {k} yielded a non-string")
            except Exception as e:  # noqa: BLE001 — never crash, never a silent default
                row["kind"] = f"untranslatable {kind}: live walker raised {type(e).__name__}"
                for k in ("items", "params", "fill_items", "fill_params"):
                    row[k] = []
            rows.append(row)
    _WALKER_CACHE["w"] = rows
    return rows


def _val_lean(v):
    if v is None:
        return ".none"
    if isinstance(v, str):
        return f"(.scalar {_lstr(v)})"
    if isinstance(v, list):
        return "(.list [" + ", ".join(_lstr(x) for x in v) + "])"
    return "(.dict [" + ", ".join(f"({_lstr(k)}, {_lstr(x)})" for k, x in v.items()) + "])"


def render_walker_lean(rows) -> str:
    def pairs(ps):
        return "[" + ", ".join(f"({_lstr(n)}, {_lstr(l)})" for n, l in ps) + "]"

    out = [
        "/-",
        "GENERATED by harness/props/c20.py (generate) by running the LIVE walkers of VERIF_REPO on probe instances — do not edit.",
        "For every item class of the Schema and every probe kind (every reference attribute full / empty / None): the values",
        "fed to the instance and the (name, label) pairs visited by iterate_model_item_names_and_labels,",
        "iterate_parameter_names_and_labels and fill_item_attributes (model attributes, parameter attributes).",
        "-/",
        "import GlotaranModel.C20",
        "namespace Glotaran.C20.Generated",
        "",
        "def walker : List WalkRow := [",
    ]
    txt = []
    for r in rows:
        vals = "[" + ", ".join(f"({_lstr(n)}, {_val_lean(v)})" for n, v in r["vals"]) + "]"
        txt.append(f"  ⟨{_lstr(r['key'])}, {_lstr(_ascii(r['kind']))},\n    {vals},\n    {pairs(r['items'])},\n    {pairs(r['params'])},\n"
                   f"    {pairs(r['fill_items'])},\n    {pairs(r['fill_params'])}⟩")
    out.append(",\n".join(txt))
    out += ["]", "", "end Glotaran.C20.Generated", ""]
    return "\n".join(out)


def generate_walker(schema):
    rows = walk_live(schema)
    text = render_walker_lean(rows)
    _write_if_changed(GEN_WALKER, text)
    files = [str(core.REPO / "glotaran/model/item.py"), str(core.REPO / "glotaran/model/model.py")]
    return [{"table": "Walker (lean/GlotaranModel/Generated/C20Walker.lean)", "source": _rel(files), "source_sha1": _sha_files(files),
             "sha1": hashlib.sha1(text.encode()).hexdigest(), "rows": len(rows),
             "positions_visited": sum(len(r["items"]) + len(r["params"]) for r in rows),
             "walkers_that_raised": [r["kind"] for r in rows if r["kind"].startswith("untranslatable")]}]


def generate(ck):
    schema = walk_schema()
    text = render_lean(schema)
    GEN_FILE.parent.mkdir(parents=True, exist_ok=True)
    if not GEN_FILE.exists() or GEN_FILE.read_text() != text:
        GEN_FILE.write_text(text)
    classes = [s["cls"] for s in schema["specs"] if s["cls"] is not None] + schema["by_key"]["dataset/"]["dataset_types"]
    files = sorted({inspect.getsourcefile(c) or "?" for c in classes} | {str(core.REPO / "glotaran/model/model.py"),
                                                                          str(core.REPO / "glotaran/model/dataset_model.py")})
    h = hashlib.sha1()
    for f in files:
        if f != "?" and Path(f).exists():
            h.update(Path(f).read_bytes())
    vs = walk_validators(schema)
    vtext = render_validators_lean(vs)
    _write_if_changed(GEN_VALIDATORS, vtext)
    vfiles = sorted({inspect.getsourcefile(f) or "?" for f in vs["funcs"].values()})
    kinds = {}
    for pr in vs["preds"].values():
        kinds[pr[0]] = kinds.get(pr[0], 0) + 1
    extra = [{"table": "Validators (lean/GlotaranModel/Generated/C20Validators.lean)", "source": _rel(vfiles),
              "source_sha1": _sha_files(vfiles), "sha1": hashlib.sha1(vtext.encode()).hexdigest(),
              "validator_functions": len(vs["funcs"]), "validator_uses": len(vs["uses"]), "predicates_by_kind": kinds,
              "opaque_or_untranslatable": sorted(n for n, pr in vs["preds"].items() if pr[0] in ("opaque", "untranslatable")),
              "other_hooks_found": [list(h) for h in vs["hooks"]]}]
    extra += generate_walker(schema)
    return extra + [{"table": "Schema (lean/GlotaranModel/Generated/C20.lean)",
             "source": [str(Path(f).resolve().relative_to(core.REPO)) if f.startswith(str(core.REPO)) else f for f in files],
             "source_sha1": h.hexdigest(), "sha1": hashlib.sha1(text.encode()).hexdigest(),
             "specs": len(schema["specs"]), "reference_positions": sum(1 for s in schema["specs"] for a in s["attrs"]
                                                                       if a["kind"] in ("item", "param"))}]


def schema_protocol_dump(schema) -> str:
    """the same canonical text the Lean driver prints for `schema`"""
    def attr(a):
        k = f"item:{enc(a['coll'])}" if a["kind"] == "item" else ("param" if a["kind"] == "param" else "plain")
        v = a["validator"]
        vs = "none" if v[0] == "none" else f"named:{enc(v[1])}"
        return f"[{enc(a['name'])},{a['struct']},{core.bool_(a['optional'])},{k},{vs}]"

    return core.lst(
        f"[{enc(s['key'])},{enc(s['coll'])},{core.bool_(s['exclusive'])},{core.bool_(s['unique'])},{core.lst(attr(a) for a in s['attrs'])}]"
        for s in schema["specs"])


# ------------------------------------------------------------------------------------------
# scenarios: valid models (dict specs) + parameters + small data
# ------------------------------------------------------------------------------------------
def _data(nt, ns, t0=-1.0, dt=0.4, s0=600.0, ds=10.0, mdim="time", gdim="spectral"):
    import numpy as np
    import xarray as xr

    t = t0 + dt * np.arange(nt)
    s = s0 + ds * np.arange(ns)
    d = 1.0 + 0.1 * np.sin(np.add.outer(t, 0.01 * s)) + 0.05 * np.cos(np.add.outer(0.7 * t, 0.03 * s))
    return xr.DataArray(d, coords={mdim: t, gdim: s}, dims=(mdim, gdim)).to_dataset(name="data")


def scenarios():
    fixed = {"vary": False}
    sc = {}
    sc["decay"] = {
        "spec": {
            "megacomplex": {"mc_decay": {"type": "decay", "k_matrix": ["km1", "km2"]}},
            "k_matrix": {"km1": {"matrix": {("s2", "s1"): "kin.1", ("s2", "s2"): "kin.2"}},
                         "km2": {"matrix": {("s1", "s1"): "kin.3"}}},
            "initial_concentration": {"ic1": {"compartments": ["s1", "s2"], "parameters": ["ic.1", "ic.2"]}},
            "irf": {"irf_g": {"type": "gaussian", "center": "irf.c", "width": "irf.w"}},
            "dataset": {"d1": {"megacomplex": ["mc_decay"], "initial_concentration": "ic1", "irf": "irf_g",
                               "scale": "sc.1", "megacomplex_scale": ["sc.2"]}},
            "clp_constraints": [{"type": "zero", "target": "s2", "interval": (0, 610)},
                                {"type": "only", "target": "s1", "interval": [(0, 1000)]}],
            "clp_relations": [{"source": "s1", "target": "s2", "parameter": "rel.1", "interval": [(650, 700)]}],
            "clp_penalties": [{"type": "equal_area", "source": "s1", "source_intervals": [(600, 650)], "target": "s2",
                               "target_intervals": [(600, 650)], "parameter": "pen.1", "weight": 0.1}],
            "weights": [{"datasets": ["d1"], "global_interval": (600, 620), "value": 0.5}],
        },
        "params": {"kin": [["1", 0.5], ["2", 0.2], ["3", 0.1]], "ic": [["1", 1, fixed], ["2", 0, fixed]],
                   "irf": [["c", 0.3], ["w", 0.2]], "sc": [["1", 1.0, fixed], ["2", 1.0, fixed]],
                   "rel": [["1", 1.0]], "pen": [["1", 1.0]]},
        "data": {"d1": _data(12, 6)},
    }
    sc["sequential"] = {
        "spec": {
            "dataset_groups": {"g2": {"residual_function": "non_negative_least_squares", "link_clp": False}},
            "megacomplex": {"mc_seq": {"type": "decay-sequential", "compartments": ["a", "b"], "rates": ["r.1", "r.2"]},
                            "mc_base": {"type": "baseline", "dimension": "time"},
                            "mc_base2": {"type": "baseline", "dimension": "time"},
                            "mc_guide": {"type": "clp-guide", "dimension": "time", "target": "a"}},
            "irf": {"irf_m": {"type": "multi-gaussian", "center": ["irf.c1", "irf.c2"], "width": ["irf.w"],
                              "scale": ["irf.s1", "irf.s2"], "shift": ["irf.sh1", "irf.sh2", "irf.sh3", "irf.sh4"],
                              "backsweep": True, "backsweep_period": "irf.bp"}},
            "dataset": {"d1": {"megacomplex": ["mc_seq", "mc_base"], "irf": "irf_m", "group": "g2"},
                        "d2": {"megacomplex": ["mc_guide"]}},
        },
        "params": {"r": [["1", 0.6], ["2", 0.15]],
                   "irf": [["c1", 0.2], ["c2", 0.4], ["w", 0.3], ["s1", 1.0, fixed], ["s2", 0.5, fixed],
                           ["sh1", 0.0, fixed], ["sh2", 0.01, fixed], ["sh3", 0.02, fixed], ["sh4", 0.0, fixed],
                           ["bp", 100.0, fixed]]},
        "data": {"d1": _data(10, 4), "d2": _data(1, 4)},
    }
    sc["parallel"] = {
        "spec": {
            "megacomplex": {"mc_par": {"type": "decay-parallel", "compartments": ["p1", "p2"], "rates": ["r.1", "r.2"]},
                            "mc_osc": {"type": "damped-oscillation", "labels": ["o1", "o2"],
                                       "frequencies": ["osc.f1", "osc.f2"], "rates": ["osc.r1", "osc.r2"]},
                            "mc_coh": {"type": "coherent-artifact", "order": 2, "width": "coh.w"}},
            "irf": {"irf_s": {"type": "spectral-multi-gaussian", "center": ["irf.c"], "width": ["irf.w"],
                              "dispersion_center": "irf.dc", "center_dispersion_coefficients": ["irf.cd1", "irf.cd2"],
                              "width_dispersion_coefficients": ["irf.wd1"]},
                    "irf_unused": {"type": "spectral-gaussian", "center": "irf.c", "width": "irf.w",
                                   "dispersion_center": "irf.dc", "center_dispersion_coefficients": ["irf.cd1"]}},
            "dataset": {"d1": {"megacomplex": ["mc_par", "mc_osc", "mc_coh"], "irf": "irf_s",
                               "megacomplex_scale": ["sc.1", "sc.2", "sc.3"]},
                        "d2": {"megacomplex": ["mc_osc"]}},
            "weights": [{"datasets": ["d1", "d2"], "model_interval": (0.0, 1.0), "value": 0.5}],
        },
        "params": {"r": [["1", 0.6], ["2", 0.15]], "osc": [["f1", 3.0], ["f2", 7.0], ["r1", 0.1], ["r2", 0.2]],
                   "coh": [["w", 0.25]],
                   "irf": [["c", 0.3], ["w", 0.2], ["dc", 620.0, fixed], ["cd1", 0.01], ["cd2", 0.001], ["wd1", 0.01]],
                   "sc": [["1", 1.0, fixed], ["2", 1.0, fixed], ["3", 1.0, fixed]]},
        "data": {"d1": _data(14, 4), "d2": _data(9, 3)},
    }
    sc["pfid"] = {
        "spec": {
            "megacomplex": {"mc_pfid": {"type": "pfid", "labels": ["q1", "q2"], "frequencies": ["pf.f1", "pf.f2"],
                                        "rates": ["pf.r1", "pf.r2"]}},
            "irf": {"irf_m": {"type": "multi-gaussian", "center": ["irf.c"], "width": ["irf.w"]}},
            "dataset": {"d1": {"megacomplex": ["mc_pfid"], "irf": "irf_m", "spectral_axis_scale": 1.0}},
        },
        "params": {"pf": [["f1", 610.0], ["f2", 630.0], ["r1", -0.5, {"non-negative": False}], ["r2", -0.3, {"non-negative": False}]],
                   "irf": [["c", 0.3], ["w", 0.2]]},
        "data": {"d1": _data(10, 5)},
    }
    sc["full"] = {
        "spec": {
            "megacomplex": {"mc_par": {"type": "decay-parallel", "compartments": ["s1", "s2", "s3", "s4"],
                                       "rates": ["r.1", "r.2", "r.3", "r.4"]},
                            "mc_spec": {"type": "spectral", "shape": {"s1": "sh_g", "s2": "sh_sk", "s3": "sh_one", "s4": "sh_zero"}},
                            "mc_gbase": {"type": "baseline", "dimension": "spectral"},
                            "mc_gguide": {"type": "clp-guide", "dimension": "spectral", "target": "s1"}},
            "shape": {"sh_g": {"type": "gaussian", "amplitude": "sh.a1", "location": "sh.l1", "width": "sh.w1"},
                      "sh_sk": {"type": "skewed-gaussian", "location": "sh.l2", "width": "sh.w2", "skewness": "sh.k2"},
                      "sh_one": {"type": "one"}, "sh_zero": {"type": "zero"}},
            "dataset": {"d1": {"megacomplex": ["mc_par"], "global_megacomplex": ["mc_spec"],
                               "global_megacomplex_scale": ["sc.g"], "scale": "sc.1"},
                        "d2": {"megacomplex": ["mc_spec"], "global_megacomplex": ["mc_par"]}},
        },
        "params": {"r": [["1", 0.6], ["2", 0.15], ["3", 0.05], ["4", 0.3]],
                   "sh": [["a1", 2.0], ["l1", 620.0], ["w1", 20.0], ["l2", 640.0], ["w2", 15.0], ["k2", 0.1]],
                   "sc": [["g", 1.0, fixed], ["1", 1.0, fixed]]},
        "data": {"d1": _data(10, 5), "d2": _data(5, 10, t0=600.0, dt=10.0, s0=-1.0, ds=0.4, mdim="spectral", gdim="time")},
    }
    return sc


def build_model(spec, type_names):
    from glotaran.model import Model
    from glotaran.plugin_system.megacomplex_registration import get_megacomplex

    M = Model.create_class_from_megacomplexes([get_megacomplex(t) for t in sorted(type_names)])
    return M(**copy.deepcopy(spec))


def build_params(pdict, removed=()):
    from glotaran.parameter import Parameters

    pdict = copy.deepcopy(pdict)
    for group, entries in pdict.items():   # flat groups: label = "<group>.<name>"
        pdict[group] = [e for e in entries if f"{group}.{e[0]}" not in removed]
    pdict = {g: e for g, e in pdict.items() if e}
    return Parameters.from_dict(pdict) if pdict else Parameters({})


def scenario_types(spec):
    return {m["type"] for m in spec["megacomplex"].values()}


# ------------------------------------------------------------------------------------------
# abstraction of a real model object into the protocol tree (uses MY schema, reads plain attribute values)
# ------------------------------------------------------------------------------------------
def item_key(coll, item):
    t = getattr(item, "type", None)
    from glotaran.model.item import TypedItem
    return f"{coll}/{t}" if isinstance(item, TypedItem) else f"{coll}/"


def val_tree(v):
    if v is None:
        return "none"
    if isinstance(v, str):
        return f"[s,{enc(v)}]"
    if isinstance(v, (list, tuple)):
        if not all(isinstance(x, str) for x in v):
            raise core.HarnessError(f"non-label in list value {v!r}")
        return f"[l,{strs(v)}]"
    if isinstance(v, dict):
        if not all(isinstance(x, str) for x in v.values()):
            raise core.HarnessError(f"non-label in dict value {v!r}")
        return "[d," + core.lst(f"[{enc(str(k))},{enc(x)}]" for k, x in v.items()) + "]"
    raise core.HarnessError(f"value {v!r} has no abstract form")


def needed_attrs(spec):
    need = [a["name"] for a in spec["attrs"] if a["kind"] in ("item", "param")]
    preds = walk_validators()["preds"]
    for a in spec["attrs"]:
        if a["validator"][0] == "named":
            if a["name"] not in need:
                need.append(a["name"])
            pr = preds[a["validator"][1]]
            if pr[0] == "lengthsequal":
                need += [x for x in pr[1] if x not in need]
    return need


def abstract_model(schema, model):
    """returns (protocol tree text, python mirror {coll: [(key, label, {attr: value})]})"""
    colls = []
    mirror = {}
    for name, keyed, _ in sorted(model_collections(model.__class__)):
        items = getattr(model, name)
        seq = list(items.values()) if isinstance(items, dict) else list(items)
        its, mir = [], []
        for i, it in enumerate(seq):
            key = item_key(name, it)
            spec = schema["by_key"].get(key)
            if spec is None:
                raise core.HarnessError(f"item class key {key!r} is not in the regenerated schema")
            label = getattr(it, "label", None)
            label = label if isinstance(label, str) else f"#{i}"
            vals = {a: getattr(it, a, None) for a in needed_attrs(spec)}
            its.append(f"[{enc(key)},{enc(label)}," + core.lst(f"[{enc(a)},{val_tree(v)}]" for a, v in vals.items()) + "]")
            mir.append((key, label, vals))
        colls.append(f"[{enc(name)},{core.lst(its)}]")
        mirror[name] = mir
    return core.lst(colls), mirror


# ------------------------------------------------------------------------------------------
# observation of the real code
# ------------------------------------------------------------------------------------------
ISSUE_PATTERNS = [   # the public text of an issue (`to_string`), not its private attributes
    (r"Missing model item '(.*)' with label '(.*)'\.$", lambda m: f"[item,{enc(m[1])},{enc(m[2])}]"),
    (r"Missing parameter with label '(.*)'\.$", lambda m: f"[param,{enc(m[1])}]"),
    (r"Exclusive (?:global )?megacomplex '(.*)' of type '(.*)' cannot be combined with other megacomplexes\.$",
     lambda m: f"[exclusive,{enc(m[1])},{enc('megacomplex/' + m[2])}]"),
    (r"Unique (?:global )?megacomplex '(.*)' of type '(.*)' can only be used once per dataset\.$",
     lambda m: f"[unique,{enc(m[1])},{enc('megacomplex/' + m[2])}]"),
    (r"The size of labels \((\d+)\), frequencies \((\d+)\), and rates \((\d+)\) does not match for (?:damped oscillation|pfid) "
     r"megacomplex '(.*)'\.$", lambda m: f"[lengths,{enc(m[4])},[{m[1]},{m[2]},{m[3]}]]"),
]


def canon_issue(issue):
    import re
    text = issue.to_string()
    for pat, f in ISSUE_PATTERNS:
        m = re.match(pat, text, re.S)
        if m:
            return f(m)
    return f"[custom,{enc(type(issue).__name__)},{enc(text)}]"


def real_issues(model, ps):
    """('ok', sorted canonical issues) or ('err', exception class name)"""
    try:
        issues = model.get_issues(parameters=ps)
    except Exception as e:  # noqa: BLE001 — the property says no exception may escape
        return "err", type(e).__name__, repr(e)
    return "ok", sorted(canon_issue(i) for i in issues), issues


ERR_CLASS = {"KeyError": "key", "AttributeError": "attribute", "ParameterNotFoundException": "parameter",
             "RecursionError": "recursion", "TypeError": "shape"}


def filled_tree(schema, coll, item):
    """tree of a filled real item, walked in the order of MY schema"""
    from glotaran.model.item import Item
    from glotaran.parameter import Parameter

    key = item_key(coll, item)
    spec = schema["by_key"].get(key)
    if spec is None:      # an item of a class that does not belong to the collection the attribute refers to
        return f"WRONGKIND:{enc(key)}"
    children, params = [], []

    def values(a, v):
        if v is None or v == "" or v == [] or v == {}:
            return []
        return list(v.values()) if a["struct"] == "dict" else (list(v) if a["struct"] == "list" else [v])

    for a in spec["attrs"]:
        if a["kind"] == "item":
            for x in values(a, getattr(item, a["name"], None)):
                if not isinstance(x, Item):
                    return f"UNFILLED:{a['name']}"
                children.append(filled_tree(schema, a["coll"], x))
    for a in spec["attrs"]:
        if a["kind"] == "param":
            for x in values(a, getattr(item, a["name"], None)):
                if not isinstance(x, Parameter):
                    return f"UNFILLED:{a['name']}"
                params.append(x.label)
    return f"[{enc(key)},{enc(item.label if hasattr(item, 'label') else '')},{core.lst(children)},{strs(params)}]"


def real_fill(schema, model, ps, dlabel):
    from glotaran.model.item import fill_item

    try:
        f = fill_item(model.dataset[dlabel], model, ps)
    except Exception as e:  # noqa: BLE001
        return "err " + ERR_CLASS.get(type(e).__name__, type(e).__name__)
    return "ok " + filled_tree(schema, "dataset", f)


# ------------------------------------------------------------------------------------------
# mutations
# ------------------------------------------------------------------------------------------
def positions(schema, spec):
    """every reference position of a dict spec: (coll, item id, attr, sub) where sub = None | index | dict key"""
    out = []
    for coll, items in spec.items():
        base_keyed = isinstance(items, dict)
        seq = list(items.items()) if base_keyed else list(enumerate(items))
        for ident, d in seq:
            key = f"{coll}/{d['type']}" if "type" in d else f"{coll}/"
            sp = schema["by_key"].get(key)
            if sp is None:
                raise core.HarnessError(f"scenario item {coll}:{ident} has class key {key!r} unknown to the schema")
            for a in sp["attrs"]:
                if (key, a["name"]) in ORACLE_LABEL_POSITIONS and a["name"] in d and d[a["name"]] is not None:
                    a = dict(a, kind="label", coll=ORACLE_LABEL_POSITIONS[(key, a["name"])])
                if a["kind"] not in ("item", "param", "label") or a["name"] not in d or d[a["name"]] is None:
                    continue
                v = d[a["name"]]
                if a["struct"] == "scalar":
                    out.append((coll, ident, a, None, v))
                elif a["struct"] == "list":
                    out += [(coll, ident, a, i, x) for i, x in enumerate(v)]
                else:
                    out += [(coll, ident, a, k, x) for k, x in v.items()]
    return out


# labels the code stores as plain strings (`str` / `list[str]` for the type system) that name model items: the property's
# "every label that is referenced but not defined" covers them (oracle-side knowledge, independent of the translator);
# they are looked up as they are (no `if not value` skip)
ORACLE_LABEL_POSITIONS = {("dataset/", "group"): "dataset_groups", ("weights/", "datasets"): "dataset"}
IMPLICIT_LABELS = {"dataset_groups": {"default"}}   # `_load_dataset_groups` always defines the default group

RELABEL_SCHEMA = {"by_key": {}}   # set by systematic_mutations (the schema is needed to find the references to re-point)


def apply_mutation(spec, params_removed, mut):
    """mutates `spec` (a deep copy) in place; returns the oracle's expectations:
       list of canonical issues that MUST be reported"""
    kind = mut[0]
    if kind == "misspell":
        _, coll, ident, attr, sub, new = mut
        d = spec[coll][ident]
        if sub is None:
            d[attr] = new
        else:
            d[attr][sub] = new
    elif kind == "undefine":
        _, coll, label = mut
        del spec[coll][label]
    elif kind == "rmparam":
        params_removed.add(mut[1])
    elif kind == "append":
        _, dlabel, attr, mlabel = mut
        spec["dataset"][dlabel][attr] = list(spec["dataset"][dlabel].get(attr) or []) + [mlabel]
    elif kind == "droplast":
        _, coll, ident, attr = mut
        spec[coll][ident][attr] = list(spec[coll][ident][attr])[:-1]
    elif kind == "duplast":
        _, coll, ident, attr = mut
        v = list(spec[coll][ident][attr])
        spec[coll][ident][attr] = v + [v[-1]]
    elif kind == "set":
        _, coll, ident, attr, value = mut
        spec[coll][ident][attr] = value
    elif kind == "relabel":
        # an item gets the label of an item of ANOTHER collection (labels are unique per collection only); every reference
        # to it follows, so the model stays valid
        _, coll, old, new = mut
        items = spec[coll]
        spec[coll] = {(new if k == old else k): v for k, v in items.items()}
        if "label" in spec[coll][new]:
            spec[coll][new]["label"] = new
        for c2, its in spec.items():
            seq = its.values() if isinstance(its, dict) else its
            for d in seq:
                key = f"{c2}/{d['type']}" if "type" in d else f"{c2}/"
                sp = RELABEL_SCHEMA["by_key"].get(key)
                if sp is None:
                    continue
                for a in sp["attrs"]:
                    if a["kind"] != "item" or a.get("coll") != coll or a["name"] not in d or d[a["name"]] is None:
                        continue
                    v = d[a["name"]]
                    if a["struct"] == "scalar":
                        d[a["name"]] = new if v == old else v
                    elif a["struct"] == "list":
                        d[a["name"]] = [new if x == old else x for x in v]
                    else:
                        d[a["name"]] = {k: (new if x == old else x) for k, x in v.items()}
    else:
        raise core.HarnessError(f"unknown mutation {mut!r}")


def _tuplify(x):
    return tuple(_tuplify(y) for y in x) if isinstance(x, list) else x


def mut_from_json(m):
    m = list(m)
    if m[0] == "misspell" and isinstance(m[4], list):
        m[4] = _tuplify(m[4])
    return tuple(m)


def expected_issues(schema, spec, params_present):
    """oracle: what the property demands for this (mutated) dict spec, computed from the spec alone.
       returns (must_report: list of canonical issues as multiset, must_be_empty: bool)"""
    must = []
    for coll, ident, a, sub, label in positions(schema, spec):
        if a["kind"] == "label":
            if label not in spec.get(a["coll"], {}) and label not in IMPLICIT_LABELS.get(a["coll"], ()):
                must.append(f"[item,{enc(a['coll'])},{enc(label)}]")
            continue
        if a["struct"] == "scalar" and label == "":
            continue
        if a["kind"] == "item":
            if label not in spec.get(a["coll"], {}):
                must.append(f"[item,{enc(a['coll'])},{enc(label)}]")
        elif params_present is not None and label not in params_present:
            must.append(f"[param,{enc(label)}]")
    # exclusive / unique
    mcs = spec.get("megacomplex", {})
    for dlabel, d in spec.get("dataset", {}).items():
        for attr in ("megacomplex", "global_megacomplex"):
            labels = [x for x in (d.get(attr) or []) if x in mcs]
            keys = [f"megacomplex/{mcs[x]['type']}" for x in labels]
            for x, k in zip(labels, keys):
                sp = schema["by_key"][k]
                if sp["exclusive"] and len(labels) > 1:
                    must.append(f"[exclusive,{enc(x)},{enc(k)}]")
                if sp["unique"] and keys.count(k) > 1:
                    must.append(f"[unique,{enc(x)},{enc(k)}]")
    # length rule of the oscillation-like megacomplexes (stated here from the documentation of the classes, NOT taken
    # from the translated validator table: the oracle must not depend on the translator)
    for coll, items in spec.items():
        seq = items.items() if isinstance(items, dict) else enumerate(items)
        for ident, d in seq:
            names = ORACLE_LENGTH_RULES.get(f"{coll}/{d['type']}" if "type" in d else f"{coll}/")
            if names:
                lens = [len(d[x]) for x in names]
                if len(set(lens)) > 1:
                    must.append(f"[lengths,{enc(str(ident))},{core.lst(map(str, lens))}]")
    return sorted(must)


ORACLE_LENGTH_RULES = {
    "megacomplex/damped-oscillation": ["labels", "frequencies", "rates"],
    "megacomplex/pfid": ["labels", "frequencies", "rates"],
}


def all_param_labels(pdict):
    from glotaran.parameter import Parameters
    return sorted(Parameters.from_dict(copy.deepcopy(pdict)).labels)


def systematic_mutations(schema, sc):
    spec = sc["spec"]
    muts = []
    preds = walk_validators(schema)["preds"]
    pos = positions(schema, spec)
    for coll, ident, a, sub, label in pos:
        muts.append([("misspell", coll, ident, a["name"], sub, label + "_x")])
        # near misses that a sloppy lookup could accept: a proper prefix, and for parameter labels the group path
        # (dotted prefix) of an existing label and a child of it (seeded change C20-3: `Parameters.has` true for groups)
        near = []
        if len(label) > 1:
            near.append(label[:-1])
        if a["kind"] == "param":
            if "." in label:
                near.append(label.rsplit(".", 1)[0])
            near.append(label + ".x")
        if a["kind"] in ("item", "label"):
            # a label that IS defined, but in another collection (labels are unique per collection only)
            others = [c for c in ("dataset", "megacomplex") + tuple(spec) if c != a["coll"] and isinstance(spec.get(c), dict)]
            seen_c = []
            for c in others:
                if c in seen_c:
                    continue
                seen_c.append(c)
                cand = next((x for x in spec[c] if x not in spec.get(a["coll"], {})
                             and x not in IMPLICIT_LABELS.get(a["coll"], ())), None)
                if cand is not None and len(seen_c) <= 2:
                    near.append(cand)
        for nl in near:
            if nl != label:
                muts.append([("misspell", coll, ident, a["name"], sub, nl)])
        if a["struct"] == "scalar":
            muts.append([("set", coll, ident, a["name"], "")])
            if a["optional"]:
                muts.append([("set", coll, ident, a["name"], None)])
        elif sub in (0,) or (a["struct"] == "dict" and sub == next(iter(spec[coll][ident][a["name"]]))):
            muts.append([("set", coll, ident, a["name"], [] if a["struct"] == "list" else {})])
    for coll, items in spec.items():
        if isinstance(items, dict):
            for label in items:
                muts.append([("undefine", coll, label)])
    # the same label for items of different collections (round-2 seeded change C20-4: a fill memo keyed by label only)
    RELABEL_SCHEMA["by_key"] = schema["by_key"]
    mc_labels = list(spec.get("megacomplex", {}))
    for coll, items in spec.items():
        if isinstance(items, dict) and coll not in ("dataset", "dataset_groups", "megacomplex") and mc_labels:
            for label in items:
                target = next((x for x in mc_labels if x not in items), None)
                if target is not None:
                    muts.append([("relabel", coll, label, target)])
    for p in all_param_labels(sc["params"]):
        muts.append([("rmparam", p)])
    for dlabel, d in spec["dataset"].items():
        for attr in ("megacomplex", "global_megacomplex"):
            if attr == "global_megacomplex" and not d.get(attr):
                continue
            for mlabel in spec["megacomplex"]:
                muts.append([("append", dlabel, attr, mlabel)])
                if schema["by_key"][f"megacomplex/{spec['megacomplex'][mlabel]['type']}"]["unique"]:
                    muts.append([("append", dlabel, attr, mlabel), ("append", dlabel, attr, mlabel)])
    for coll, items in spec.items():
        seq = items.items() if isinstance(items, dict) else enumerate(items)
        for ident, d in seq:
            sp = schema["by_key"][f"{coll}/{d['type']}" if "type" in d else f"{coll}/"]
            for a in sp["attrs"]:
                pr = preds.get(a["validator"][1]) if a["validator"][0] == "named" else None
                if pr and pr[0] == "lengthsequal":
                    # every way the table allows: each measured list shorter, each longer, and each pair changed alike
                    for x in pr[1]:
                        muts.append([("droplast", coll, ident, x)])
                        muts.append([("duplast", coll, ident, x)])
                    for i, x in enumerate(pr[1]):
                        for y in pr[1][i + 1:]:
                            muts.append([("droplast", coll, ident, x), ("droplast", coll, ident, y)])
                    muts.append([("droplast", coll, ident, x) for x in pr[1]])
    return muts


def dangling_singles(schema, sc):
    """single mutations that each create (at least) one dangling reference, with the item / definition they belong to"""
    spec = sc["spec"]
    out = []
    for coll, ident, a, sub, label in positions(schema, spec):
        out.append((("misspell", coll, ident, a["name"], sub, label + "_x"), ("item", coll, ident)))
    for coll, items in spec.items():
        if isinstance(items, dict):
            for label in items:
                out.append((("undefine", coll, label), ("item", coll, label)))
    for p in all_param_labels(sc["params"]):
        out.append((("rmparam", p), ("param", p)))
    return out


def pair_mutations(schema, sc):
    """all unordered pairs of dangling-reference mutations that sit in different items (no masking: both must be reported)"""
    singles = dangling_singles(schema, sc)
    out = []
    for i, (m1, o1) in enumerate(singles):
        for m2, o2 in singles[i + 1:]:
            if o1 != o2:
                # a misspelling inside an item goes first so that removing a definition afterwards cannot hide it
                out.append([m1, m2] if m1[0] != "undefine" else [m2, m1])
    return out


def random_mutations(ck, schema, sc, n):
    base = [m[0] for m in systematic_mutations(schema, sc)]
    out = []
    for _ in range(n):
        k = ck.rng.randint(2, 4)
        out.append(ck.rng.sample(base, min(k, len(base))))
    return out


# ------------------------------------------------------------------------------------------
# one case: real code + oracle; returns protocol lines and implementation answers
# ------------------------------------------------------------------------------------------
LOOKUP_ERRORS = ("KeyError", "AttributeError", "ParameterNotFoundException", "RecursionError")


def run_case(ck, schema, scen_name, sc, muts, evaluate=False):
    """returns (lines, impl answers, info) ; oracle violations are reported on the way"""
    spec = copy.deepcopy(sc["spec"])
    removed = set()
    case = {"scenario": scen_name, "mutations": [list(m) for m in muts]}
    try:
        for m in muts:
            apply_mutation(spec, removed, m)
    except (KeyError, IndexError, TypeError):
        return None   # mutations of a random combination that do not compose
    types_ = scenario_types(sc["spec"])
    try:
        model = build_model(spec, types_)
    except Exception as e:  # noqa: BLE001 — construction errors of mutated specs are outside C20
        ck.count("construction-error:" + type(e).__name__)
        if not muts:
            ck.violation("valid-model-rejected-" + type(e).__name__,
                         f"the valid scenario specification cannot be constructed: {e!r} (a reference position / collection "
                         "of the schema is not known to the model class)", case)
        return None
    ps = build_params(sc["params"], removed)
    present = sorted(ps.labels)
    tree, mirror = abstract_model(schema, model)
    lines, impl = [f"model {tree}"], ["model"]

    # ---- validation with and without parameters
    gots = {}
    for with_ps in (True, False):
        ck.oracle_evals += 1
        res = real_issues(model, ps if with_ps else None)
        must = expected_issues(schema, spec, present if with_ps else None)
        lines.append("issues " + (strs(present) if with_ps else "none"))
        if res[0] == "err":
            impl.append("err " + ERR_CLASS.get(res[1], res[1]))
            key = "internal-error-" + res[1]
            if res[1] == "KeyError" and any(m.startswith("[item,megacomplex,") for m in must):
                key = "undefined-megacomplex-keyerror"
            ck.violation(key, f"Model.get_issues(parameters={'…' if with_ps else 'None'}) raised {res[2]} instead of "
                              f"reporting issues; required issues: {must}", case)
            ck.count("outcome:exception")
            continue
        got = res[1]
        impl.append("ok " + core.lst(got))
        ck.count("outcome:issues" if got else "outcome:valid")
        gots[with_ps] = got
        for g in got:
            ck.count("issue:" + g[1:].split(",")[0])
        # oracle: every dangling label / exclusive / unique violation is reported …
        missing = list(must)
        for g in got:
            if g in missing:
                missing.remove(g)
        if missing:
            kinds = sorted({x[1:].split(",")[0] for x in missing})
            ck.violation("unreported-" + "-".join(kinds),
                         f"not reported by get_issues(parameters={'…' if with_ps else 'None'}): {missing}; reported: {got}", case)
        # … and nothing is reported for a model whose references all resolve
        if not must and got:
            ck.violation("spurious-issue", f"all references resolve but get_issues reports {got}", case)
        # validate() / valid() agree with get_issues
        try:
            v = model.valid(ps if with_ps else None)
            text = str(model.validate(ps if with_ps else None))
            if v != (not got) or (("Your model is valid." in text) != (not got)) or \
                    (got and f"has {len(got)} problem" not in text):
                ck.violation("validate-inconsistent", f"valid()={v}, validate()={text!r}, get_issues={got}", case)
            if got:
                from glotaran.model.model import ModelError
                try:
                    model.validate(ps if with_ps else None, raise_exception=True)
                    ck.violation("validate-no-raise", "validate(raise_exception=True) did not raise for an invalid model", case)
                except ModelError:
                    pass
        except Exception as e:  # noqa: BLE001
            if not isinstance(e, AssertionError):
                ck.violation("internal-error-validate-" + type(e).__name__, f"validate()/valid() raised {e!r}", case)
        # Scheme.validate() / Scheme.valid() are the same statement about (model, parameters)
        if with_ps:
            try:
                from glotaran.project import Scheme
                scheme = Scheme(model=model, parameters=ps, data=sc["data"])
                sv, st = scheme.valid(), str(scheme.validate())
                if sv != (not got) or st != str(model.validate(ps)):
                    ck.violation("scheme-validate-differs", f"Scheme.valid()={sv}, Scheme.validate()={st!r}, "
                                 f"Model.get_issues(parameters)={got}", case)
            except Exception as e:  # noqa: BLE001
                ck.violation("internal-error-scheme-validate-" + type(e).__name__, f"Scheme.validate()/valid() raised {e!r}", case)

    # ---- the parameter set only decides the ParameterIssues (Lean: issues_without_parameters_subset,
    # issues_with_parameters_extra): get_issues(parameters=P) = get_issues() + [param, l] for labels l not in P
    if True in gots and False in gots:
        ck.oracle_evals += 1
        rest = list(gots[True])
        lost = []
        for g in gots[False]:
            if g in rest:
                rest.remove(g)
            else:
                lost.append(g)
        extra = [g for g in rest if not g.startswith("[param,") or g in [f"[param,{enc(p)}]" for p in present]]
        if lost or extra:
            ck.violation("parameters-change-other-issues",
                         f"get_issues() reports {lost} that get_issues(parameters) does not, and get_issues(parameters) adds "
                         f"{extra} (not a ParameterIssue of an absent label)", case)

    # ---- only membership in the parameter set is observable (Lean: issues_depend_on_parameter_membership):
    # the same labels declared in the reverse order give the same issues
    if True in gots:
        try:
            rev = {g: list(reversed(e)) for g, e in reversed(list(copy.deepcopy(sc["params"]).items()))}
            ps_rev = build_params(rev, removed)
            if sorted(ps_rev.labels) == present:
                ck.oracle_evals += 1
                rr = real_issues(model, ps_rev)
                if rr[0] != "ok" or rr[1] != gots[True]:
                    ck.violation("parameter-order-changes-issues",
                                 f"the same parameter labels declared in reverse order give {rr[1]} instead of {gots[True]}", case)
        except Exception as e:  # noqa: BLE001 — a parameter specification that cannot be reversed is outside the relation
            ck.count("reverse-params-skipped:" + type(e).__name__)

    # ---- parameter labels / generated parameters
    lines.append("params")
    try:
        labels = sorted(model.get_parameter_labels())
        impl.append("ok " + strs(labels))
        gen = model.generate_parameters()
        ck.oracle_evals += 1
        gi = real_issues(model, gen)
        if gi[0] == "ok" and any(g.startswith("[param,") for g in gi[1]):
            ck.violation("generated-parameters-missing", "validating against generate_parameters() still reports "
                         f"{[g for g in gi[1] if g.startswith('[param,')]}", case)
        # tightness (Lean: generated_parameters_all_referenced, generated_parameters_tight): leaving out any one of the
        # generated labels must be reported — what the property demands is computed from the spec alone
        # (expected_issues), so a generator that produces additional, unreferenced parameters is not an alarm
        from glotaran.parameter import Parameters
        gen_labels = sorted(gen.labels)
        if gen_labels != labels:
            ck.count("generated-parameters-differ-from-referenced-labels")
        for drop in gen_labels:
            ck.oracle_evals += 1
            rest = [x for x in gen_labels if x != drop]
            less = Parameters({p.label: p for p in gen.all() if p.label != drop})
            gl = real_issues(model, less)
            need = [x for x in expected_issues(schema, spec, rest) if x.startswith("[param,")]
            if gl[0] == "ok":
                unreported = [x for x in set(need) if x not in gl[1]]
                if unreported:
                    ck.violation("generated-parameters-not-tight", f"generate_parameters() without {drop!r}: the referenced "
                                 f"labels {unreported} are not in the set but get_issues reports {gl[1]}", case)
    except Exception as e:  # noqa: BLE001
        impl.append("err " + ERR_CLASS.get(type(e).__name__, type(e).__name__))
        ck.violation("internal-error-parameter-labels-" + type(e).__name__, f"get_parameter_labels/generate_parameters raised {e!r}", case)

    # ---- filling
    valid_now = real_issues(model, ps)
    for dlabel in model.dataset:
        lines.append(f"fill {strs(present)} dataset {enc(dlabel)} 6")
        r = real_fill(schema, model, ps, dlabel)
        impl.append(r if r.startswith("ok") or len(muts) == 1 else "err")
        ck.count("fill:" + r.split(" ")[0] + ("-" + r.split(" ")[1] if r.startswith("err") else ""))
        if valid_now[0] == "ok" and not valid_now[1] and not r.startswith("ok ["):
            ck.violation("valid-model-does-not-fill", f"model validates but fill_item(dataset {dlabel!r}) gives {r}", case)
        elif "WRONGKIND:" in r:
            ck.violation("filled-reference-of-wrong-kind", f"fill_item(dataset {dlabel!r}) put an item of another collection into a "
                         f"reference attribute (labels are unique per collection only): {r[:200]}", case)

    info = {"model": model, "ps": ps, "valid": valid_now[0] == "ok" and not valid_now[1], "case": case,
            "refs": sum(len(v) if isinstance(v, (list, dict)) else 1 for items in mirror.values() for _, _, vals in items
                        for v in vals.values() if v)}
    if evaluate and info["valid"]:
        evaluate_scheme(ck, sc, model, ps, case)
    return lines, impl, info


def evaluate_scheme(ck, sc, model, ps, case):
    from glotaran.optimization.optimize import optimize
    from glotaran.project import Scheme

    ck.oracle_evals += 1
    try:
        scheme = Scheme(model=model, parameters=ps, data=sc["data"], maximum_number_function_evaluations=1)
        if "Your model is valid." not in str(scheme.validate()) or not scheme.valid():
            ck.violation("scheme-validate-differs", "Scheme.validate() reports problems for a model+parameters that validate", case)
            return
        with warnings.catch_warnings():
            warnings.simplefilter("ignore")
            optimize(scheme, verbose=False, raise_exception=True)
        ck.count("evaluate:ok")
    except Exception as e:  # noqa: BLE001
        if type(e).__name__ in LOOKUP_ERRORS or "ModelError" in type(e).__name__:
            ck.violation("valid-model-does-not-evaluate-" + type(e).__name__,
                         f"model and parameters validate but one objective evaluation raised {e!r}", case)
        else:
            ck.count("evaluate:numerical-" + type(e).__name__)
            ck.diagnostic("evaluation of a valid scenario failed numerically (scenario problem, not C20)", {"error": repr(e), **case})


# ------------------------------------------------------------------------------------------
# schema cross-check against glotaran's own discovery
# ------------------------------------------------------------------------------------------
def crosscheck_schema(ck, schema):
    import attrs
    import importlib
    gitem = importlib.import_module("glotaran.model.item")
    from glotaran.parameter import Parameter

    struct_name = {None: "scalar", list: "list", dict: "dict"}
    n = 0
    for s in schema["specs"]:
        classes = [s["cls"]] if s["cls"] is not None else [schema["bases"]["dataset"]] + s["dataset_types"]
        try:
            theirs_items, theirs_params = {}, {}
            for cls in classes:
                theirs_items.update({a.name: (struct_name[gitem.strip_type_and_structure_from_attribute(a)[0]],
                                              a.metadata.get(ALIAS, a.name)) for a in gitem.model_attributes(cls)})
                theirs_params.update({a.name: struct_name[gitem.strip_type_and_structure_from_attribute(a)[0]]
                                      for a in gitem.parameter_attributes(cls)})
        except Exception as e:  # noqa: BLE001
            ck.disagree("schema-vs-glotaran", f"glotaran's attribute discovery raised {e!r} for {s['key']}", {"class": s["key"]})
            continue
        mine_items = {a["name"]: (a["struct"], a["coll"]) for a in s["attrs"] if a["kind"] == "item"}
        mine_params = {a["name"]: a["struct"] for a in s["attrs"] if a["kind"] == "param"}
        n += len(mine_items) + len(mine_params)
        for a in s["attrs"]:
            if a["kind"] == "unsupported":
                ck.disagree("schema-unsupported-shape", f"{s['key']}.{a['name']}: annotation mentions an item / parameter in a shape "
                            "the validation cannot iterate", {"class": s["key"], "attr": a["name"]})
        if mine_items != theirs_items or mine_params != theirs_params:
            ck.disagree("schema-vs-glotaran",
                        f"reference positions of {s['key']}: walker items={mine_items} params={mine_params}; "
                        f"glotaran model_attributes={theirs_items} parameter_attributes={theirs_params}",
                        {"class": s["key"], "lost_or_changed": sorted(set(mine_items.items()) ^ set(theirs_items.items()))
                         + sorted(set(mine_params.items()) ^ set(theirs_params.items()))})
        # referent collections exist in the model class, are keyed, and hold the annotated class
        for a in s["attrs"]:
            if a["kind"] == "item":
                base = schema["bases"].get(a["coll"])
                keyed = dict(schema["collections"]).get(a["coll"])
                if base is None or not keyed or not (issubclass(base, a["target"]) or issubclass(a["target"], base)):
                    ck.disagree("schema-not-closed", f"{s['key']}.{a['name']} refers to collection {a['coll']!r} "
                                f"(class {a['target'].__name__}) which the model class does not have as a keyed collection of that class",
                                {"class": s["key"], "attr": a["name"]})
    ck.extra["schema_reference_positions"] = n
    # typed registries agree with the walker
    for coll, base in schema["bases"].items():
        if hasattr(base, "get_item_types"):
            try:
                reg = sorted(f"{coll}/{t}" for t in base.get_item_types()
                             if base.get_item_type_class(t).__module__.startswith("glotaran."))
            except Exception:
                continue
            mine = sorted(s["key"] for s in schema["specs"] if s["coll"] == coll)
            if reg != mine:
                ck.disagree("schema-vs-registry", f"collection {coll}: registered item types {reg}, walker {mine}", {"collection": coll})
    # collections: walker vs Model.iterate_items
    mine = sorted(n for n, _ in schema["collections"])
    try:
        theirs = sorted(name for name, _ in schema["model_class"](dataset={}).iterate_items())
        theirs_typed = sorted((n, k) for n, k, _ in model_collections(schema["model_class"]))
    except Exception as e:  # noqa: BLE001
        theirs = theirs_typed = f"raised {e!r}"
    if theirs != mine or theirs_typed != schema["collections"]:
        ck.disagree("schema-vs-glotaran", f"top-level collections of the model class for all builtin megacomplexes: walker {mine}, "
                    f"Model.create_class_from_megacomplexes / iterate_items {theirs}", {})


def crosscheck_labels(ck, schema, scen_name, model):
    """iterate_names_and_labels on the real items vs labels read through MY schema"""
    import importlib
    gitem = importlib.import_module("glotaran.model.item")

    for name, keyed, _ in model_collections(model.__class__):
        items = getattr(model, name)
        for it in (items.values() if isinstance(items, dict) else items):
            spec = schema["by_key"][item_key(name, it)]
            mine_i, mine_p = [], []
            for a in spec["attrs"]:
                v = getattr(it, a["name"], None)
                if not v or a["kind"] not in ("item", "param"):
                    continue
                vs = list(v.values()) if a["struct"] == "dict" else (list(v) if a["struct"] == "list" else [v])
                (mine_i if a["kind"] == "item" else mine_p).extend((a["coll"] if a["kind"] == "item" else a["name"], x) for x in vs)
            theirs_i = list(gitem.iterate_model_item_names_and_labels(it))
            theirs_p = list(gitem.iterate_parameter_names_and_labels(it))
            if sorted(mine_i) != sorted(theirs_i) or sorted(mine_p) != sorted(theirs_p):
                ck.disagree("labels-vs-glotaran", f"{scen_name}: item {name}:{getattr(it, 'label', '?')}: walker sees items {mine_i} "
                            f"params {mine_p}; iterate_names_and_labels yields {theirs_i} / {theirs_p}",
                            {"scenario": scen_name, "collection": name})


# ------------------------------------------------------------------------------------------
def compare(ck, schema, batch, tag):
    """batch: list of (scen_name, sc, muts, evaluate)"""
    all_lines, all_impl, owner, cases = [], [], [], []
    for scen_name, sc, muts, evaluate in batch:
        r = run_case(ck, schema, scen_name, sc, muts, evaluate)
        if r is None:
            continue
        lines, impl, info = r
        cases.append(info["case"])
        all_lines += lines
        all_impl += impl
        owner += [len(cases) - 1] * len(lines)
        ck.case((scen_name, repr(muts)), info["refs"] > 0)
        ck.count(f"stream:{tag}")
        ck.count(f"scenario:{scen_name}")
        for m in muts:
            ck.count("mutation:" + m[0])
        if not muts:
            ck.sample({"scenario": scen_name, "mutations": [], "observed": dict(zip(lines[1:], impl[1:]))}, limit=2)
        elif len(ck.samples) < 6 and muts[0][0] in ("misspell", "append", "rmparam") and ck.counters.get("sampled:" + muts[0][0], 0) < 1:
            ck.count("sampled:" + muts[0][0])
            ck.sample({"scenario": scen_name, "mutations": [list(m) for m in muts], "observed": dict(zip(lines[1:], impl[1:]))})
    model = core.lean_driver(PROP, all_lines)
    seen = set()
    for i, (a, b) in enumerate(zip(all_impl, model)):
        b = canon_model_answer(b, a)
        if a != b and owner[i] not in seen:
            seen.add(owner[i])
            ck.disagree("model-vs-impl", f"{all_lines[i][:60]!r}: implementation {a!r}, model {b!r}", cases[owner[i]])
    return len(seen)


def canon_model_answer(b, impl):
    if b.startswith("ok [") and impl.startswith("ok ["):
        head = b[3:]
        try:
            t = core.parse_tree(head)[0]
        except Exception:
            return b
        if impl.startswith("ok [[item") or impl.startswith("ok [[param") or impl.startswith("ok [[excl") or \
                impl.startswith("ok [[uniq") or impl.startswith("ok [[len") or impl == "ok []":
            if t and isinstance(t[0], list) and t[0] and t[0][0] in ("item", "param", "exclusive", "unique", "lengths", "custom"):
                return "ok " + core.lst(sorted(_show(x) for x in t))
            if t and isinstance(t[0], str):   # list of labels (params): a set in Python
                return "ok " + core.lst(sorted(set(t), key=lambda s: core.dec(s)))
        elif t and all(isinstance(x, str) for x in t):
            return "ok " + core.lst(sorted(set(t), key=lambda s: core.dec(s)))
    if b.startswith("err ") and impl.startswith("err"):
        return " ".join(b.split(" ")[:len(impl.split(" "))])
    return b


def _show(t):
    return "[" + ",".join(_show(x) if isinstance(x, list) else x for x in t) + "]"


def check_driver_schema(ck, schema):
    got = core.lean_driver(PROP, ["schema"])[0]
    want = schema_protocol_dump(schema)
    if got != want:
        raise core.HarnessError("the Schema compiled into the Lean driver is not the one regenerated in this run "
                                "(lake build did not pick up lean/GlotaranModel/Generated/C20.lean?)")
    got = core.lean_driver(PROP, ["validators"])[0]
    if got != validators_protocol_dump(walk_validators(schema)):
        raise core.HarnessError("the validator table compiled into the Lean driver is not the one regenerated in this run "
                                "(lake build did not pick up lean/GlotaranModel/Generated/C20Validators.lean?)")


def untyped_reference_probe(ck, schema, scs):
    """scheme-level positions the property does NOT cover (clp labels are produced by megacomplexes at evaluation, they are
       not defined in the model; `scheme.data` keys are data, not a model or a parameter set): observed and recorded, never
       judged.  (`DatasetModel.group` / `Weight.datasets` ARE covered — labels of model items stored as plain strings — and
       are part of the correspondence and the oracle since the `fix:` that validates them.)"""
    from glotaran.optimization.optimize import optimize
    from glotaran.project import Scheme

    sc = scs["decay"]
    out = {}
    for what in ("clp-labels-undefined", "data-missing"):
        spec = copy.deepcopy(sc["spec"])
        data = dict(sc["data"])
        if what == "clp-labels-undefined":
            spec["clp_constraints"][0]["target"] = "nope1"
            spec["clp_relations"][0]["source"] = "nope2"
            spec["clp_penalties"][0]["target"] = "nope3"
        else:
            data.pop("d1")
        try:
            m = build_model(spec, scenario_types(spec))
            ps = build_params(sc["params"])
            r = real_issues(m, ps)
            obs = {"get_issues": r[1] if r[0] == "ok" else f"raised {r[1]}"}
            try:
                with warnings.catch_warnings():
                    warnings.simplefilter("ignore")
                    optimize(Scheme(model=m, parameters=ps, data=data, maximum_number_function_evaluations=1),
                             verbose=False, raise_exception=True)
                obs["one_evaluation"] = "ok (the undefined labels are silently ignored)"
            except Exception as e:  # noqa: BLE001
                obs["one_evaluation"] = f"raised {type(e).__name__}"
            out[what] = obs
        except Exception as e:  # noqa: BLE001
            out[what] = repr(e)
    out["note"] = ("not covered by C20: clp labels (constraint / relation / penalty target and source) are not labels defined in a "
                   "model, scheme.data keys are not part of a model or parameter set, clp_link_* are options")
    ck.extra["scheme_level_positions_observed"] = out


# ------------------------------------------------------------------------------------------
# derived megacomplex types (plugin style class hierarchies): judged by the oracle only
# ------------------------------------------------------------------------------------------
# The Schema of the Lean model lists the builtin classes; a type declared by a plugin with `@megacomplex(...)` on a class
# DERIVED from another megacomplex type is outside it.  The statement of C20 is evaluated on such models directly:
# a unique / exclusive violation is decided by what the type's own declaration says (documented defaults unique=False,
# exclusive=False), never by what a base class declared.
#
# flags of the builtin types as their documentation declares them (oracle-side table, NOT read from the classes)
ORACLE_BUILTIN_PARENTS = {
    "coherent-artifact": {"unique": True, "exclusive": False, "spec": {"order": 1}},
    "baseline": {"unique": True, "exclusive": False, "spec": {"dimension": "time"}},
    "clp-guide": {"unique": False, "exclusive": True, "spec": {"dimension": "time", "target": "s1"}},
    "decay-parallel": {"unique": False, "exclusive": False, "spec": {"compartments": ["s1"], "rates": ["r.1"]}},
}
DERIVED_PARAMS = {"r": [["1", 0.5]]}
DERIVED_DECLS = (None, False, True)   # the flag omitted in `@megacomplex(...)`, explicit False, True
DERIVED_PREFIX = "c20h-"


def _derived_type_string(name):
    return name[8:] if name.startswith("builtin:") else DERIVED_PREFIX + name


def _derived_cleanup():
    """the decorator registers every declared type globally: remove the harness' types again"""
    try:
        import glotaran.plugin_system.base_registry as br
        from glotaran.model import Megacomplex
        regs = [getattr(Megacomplex, "__item_types__", {}), getattr(br, "__PluginRegistry").megacomplex]
    except Exception:  # noqa: BLE001 — registries moved: nothing to clean
        return
    for reg in regs:
        for k in [k for k in list(reg) if DERIVED_PREFIX in str(k) or "C20H_" in str(k)]:
            reg.pop(k, None)


def derived_instances(types):
    """{label: (type string, spec without `type`)}: two instances of every declared type and of every builtin parent"""
    spec_of, out = {}, {}
    for name, parent, _, _ in types:
        if parent == "Megacomplex":
            spec_of[name] = {"dimension": "time"}
        elif parent.startswith("builtin:"):
            spec_of[name] = ORACLE_BUILTIN_PARENTS[parent[8:]]["spec"]
            spec_of[parent] = spec_of[name]
        else:
            spec_of[name] = spec_of[parent]
    for name in sorted(spec_of):
        base = name[8:].replace("-", "_") if name.startswith("builtin:") else name
        for sfx in ("a", "b"):
            out[f"{base}_{sfx}"] = (_derived_type_string(name), spec_of[name])
    return out


def build_derived(types):
    """declares the hierarchy the way a plugin does; returns the model class"""
    _glotaran()
    from glotaran.model import Megacomplex, Model, megacomplex
    from glotaran.plugin_system.megacomplex_registration import get_megacomplex

    classes, used = {}, []
    for name, parent, unique, exclusive in types:
        if parent == "Megacomplex":
            pcls = Megacomplex
        elif parent.startswith("builtin:"):
            pcls = get_megacomplex(parent[8:])
            if pcls not in used:
                used.append(pcls)
        else:
            pcls = classes[parent]
        kw = {}
        if unique is not None:
            kw["unique"] = unique
        if exclusive is not None:
            kw["exclusive"] = exclusive
        dmt = pcls.get_dataset_model_type()
        if dmt is not None:
            kw["dataset_model_type"] = dmt
        cls = type("C20H_" + name, (pcls,), {"__annotations__": {"type": str}, "type": DERIVED_PREFIX + name,
                                             "__module__": __name__})
        classes[name] = megacomplex(**kw)(cls)
        used.append(classes[name])
    return Model.create_class_from_megacomplexes(used)


def derived_expected(types, instances, dataset):
    """oracle: the unique / exclusive issues the property demands, from the DECLARATIONS alone"""
    decl = {k: (v["unique"], v["exclusive"]) for k, v in ORACLE_BUILTIN_PARENTS.items()}
    for name, _, unique, exclusive in types:
        decl[DERIVED_PREFIX + name] = (bool(unique), bool(exclusive))
    must = []
    for attr in ("megacomplex", "global_megacomplex"):
        labels = list(dataset.get(attr) or [])
        ts = [instances[x][0] for x in labels]
        for x, t in zip(labels, ts):
            unique, exclusive = decl[t]
            if exclusive and len(labels) > 1:
                must.append(f"[exclusive,{enc(x)},{enc('megacomplex/' + t)}]")
            if unique and ts.count(t) > 1:
                must.append(f"[unique,{enc(x)},{enc('megacomplex/' + t)}]")
    return sorted(must)


def run_derived_case(ck, types, dataset, model_class=None):
    """one model over a declared hierarchy: validation with / without parameters, valid(), validate(), fill"""
    types = [tuple(t) for t in types]
    instances = derived_instances(types)
    case = {"scenario": "derived-types", "types": [list(t) for t in types], "dataset": dataset,
            "instances": {k: v[0] for k, v in instances.items()}}
    own = model_class is None
    try:
        with warnings.catch_warnings():
            warnings.simplefilter("ignore")
            try:
                M = build_derived(types) if own else model_class
                model = M(megacomplex={k: dict(copy.deepcopy(s), type=t) for k, (t, s) in instances.items()},
                          dataset={"d1": copy.deepcopy(dataset)})
            except Exception as e:  # noqa: BLE001 — a hierarchy a plugin may declare must be accepted
                ck.count("derived:construction-error:" + type(e).__name__)
                ck.violation("derived-type-rejected-" + type(e).__name__,
                             f"a megacomplex type hierarchy declared with @megacomplex(...) / a model that uses it cannot be "
                             f"constructed: {e!r}", case)
                return
            ps = build_params(DERIVED_PARAMS)
            must = derived_expected(types, instances, dataset)
            ck.case(("derived-types", repr(types), repr(sorted(dataset.items()))), True)
            ck.count("stream:derived-types")
            ck.count("derived:expected:" + ("valid" if not must else "-".join(sorted({m[1:].split(",")[0] for m in must}))))
            for with_ps in (True, False):
                ck.oracle_evals += 1
                res = real_issues(model, ps if with_ps else None)
                if res[0] == "err":
                    ck.violation("derived-type-internal-error-" + res[1], f"Model.get_issues raised {res[2]} for a model whose "
                                 f"megacomplex types are derived from other types; required issues: {must}", case)
                    continue
                got = res[1]
                missing, extra = list(must), []
                for g in got:
                    if g in missing:
                        missing.remove(g)
                    else:
                        extra.append(g)
                if missing:
                    ck.violation("derived-type-unreported-" + "-".join(sorted({x[1:].split(",")[0] for x in missing})),
                                 f"declared unique / exclusive type violated but not reported: {missing}; reported: {got}", case)
                if extra:
                    ck.violation("derived-type-spurious-" + "-".join(sorted({x[1:].split(",")[0] for x in extra})),
                                 "all references resolve and no type DECLARED unique / exclusive is duplicated / combined "
                                 f"(flags of a base type are not the type's declaration), but get_issues reports {extra}; "
                                 f"required: {must}", case)
                try:
                    v = model.valid(ps if with_ps else None)
                    text = str(model.validate(ps if with_ps else None))
                    if v != (not got) or (("Your model is valid." in text) != (not got)):
                        ck.violation("validate-inconsistent", f"valid()={v}, validate()={text!r}, get_issues={got}", case)
                except Exception as e:  # noqa: BLE001
                    ck.violation("internal-error-validate-" + type(e).__name__, f"validate()/valid() raised {e!r}", case)
                if with_ps and not got and not must:
                    from glotaran.model.item import fill_item
                    try:
                        f = fill_item(model.dataset["d1"], model, ps)
                        unfilled = [m for m in list(f.megacomplex) + list(f.global_megacomplex or []) if isinstance(m, str)]
                        if unfilled:
                            ck.violation("valid-model-does-not-fill", f"model validates but fill_item leaves {unfilled}", case)
                        ck.count("derived:fill:ok")
                    except Exception as e:  # noqa: BLE001
                        ck.violation("valid-model-does-not-fill", f"model validates but fill_item raised {e!r}", case)
    finally:
        if own:
            _derived_cleanup()


def derived_dataset_patterns(parent, child):
    """usage patterns of a parent / child pair (parent None: the base class `Megacomplex`, which has no instances)"""
    c1, c2, x = f"{child}_a", f"{child}_b", "plain_a"
    lists = [[c1], [c1, c2], [c1, x], [c1, c2, x]]
    if parent is not None:
        p = parent[8:].replace("-", "_") if parent.startswith("builtin:") else parent
        lists += [[f"{p}_a", c1], [f"{p}_a", f"{p}_b"], [f"{p}_a", x], [f"{p}_a", c1, c2]]
    out = [{"megacomplex": l} for l in lists]
    out += [{"megacomplex": [x], "global_megacomplex": l} for l in lists]
    return out


def derived_hierarchies_systematic():
    """every (flags of the parent) x (declaration of the child), depth two: harness-declared and builtin parents"""
    plain = ("plain", "Megacomplex", None, None)
    out = []
    for cu in DERIVED_DECLS:
        for ce in DERIVED_DECLS:
            for pu in (False, True):
                for pe in (False, True):
                    out.append(([plain, ("base", "Megacomplex", pu, pe), ("child", "base", cu, ce)], "base", "child"))
            for b in sorted(ORACLE_BUILTIN_PARENTS):
                out.append(([plain, ("child", "builtin:" + b, cu, ce)], "builtin:" + b, "child"))
    return out


def derived_hierarchy_random(rng):
    """a tree of 2-4 declared types of depth up to three below `Megacomplex` or a builtin type"""
    types = [("plain", "Megacomplex", None, None)]
    root = rng.choice(["Megacomplex"] + ["builtin:" + b for b in sorted(ORACLE_BUILTIN_PARENTS)])
    names = []
    for i in range(rng.randint(2, 4)):
        parent = root if not names else rng.choice(names[-2:] + ([root] if root != "Megacomplex" and rng.random() < 0.2 else []))
        if root == "Megacomplex" and not names:
            parent = "Megacomplex"
        names.append(f"t{i}")
        types.append((f"t{i}", parent, rng.choice(DERIVED_DECLS), rng.choice(DERIVED_DECLS)))
    return types


def derived_stream(ck):
    n_sys = n_rand = 0
    for types, parent, child in derived_hierarchies_systematic():
        try:
            with warnings.catch_warnings():
                warnings.simplefilter("ignore")
                try:
                    M = build_derived(types)
                except Exception:  # noqa: BLE001 — reported with the concrete case by run_derived_case
                    M = None
            for ds in derived_dataset_patterns(parent, child):
                run_derived_case(ck, types, ds, M)
                n_sys += 1
            ck.count(f"derived:parent:{parent if parent.startswith('builtin:') else 'declared'}")
        finally:
            _derived_cleanup()
    for _ in range(ck.n(40, 400)):
        types = derived_hierarchy_random(ck.rng)
        labels = sorted(derived_instances(types))
        ck.count(f"derived:random-types:{len(types) - 1}")
        try:
            with warnings.catch_warnings():
                warnings.simplefilter("ignore")
                try:
                    M = build_derived(types)
                except Exception:  # noqa: BLE001
                    M = None
            for _ in range(6):
                ds = {"megacomplex": ck.rng.sample(labels, ck.rng.randint(1, min(4, len(labels))))}
                if ck.rng.random() < 0.5:
                    ds["global_megacomplex"] = ck.rng.sample(labels, ck.rng.randint(1, min(4, len(labels))))
                run_derived_case(ck, types, ds, M)
                n_rand += 1
        finally:
            _derived_cleanup()
    ck.extra["derived_type_hierarchies"] = {
        "systematic_cases": n_sys, "random_cases": n_rand,
        "judged_by": "oracle only (declared types are outside the Schema of the Lean model)"}


def run(ck):
    schema = walk_schema()
    if not getattr(ck, "_no_driver_check", False):
        check_driver_schema(ck, schema)
    try:
        crosscheck_schema(ck, schema)
    except core.HarnessError:
        raise
    except Exception as e:  # noqa: BLE001 — glotaran's helper functions are internal observables
        ck.diagnostic("schema cross-check against glotaran's own discovery could not run", {"error": repr(e)})
    scs = scenarios()
    # corpus first (regressions: D11 witness)
    batch = []
    for c in core.load_corpus(PROP):
        cc = c.get("case", c)
        if cc.get("scenario") == "derived-types":
            run_derived_case(ck, cc["types"], cc["dataset"])
        elif cc.get("scenario") in scs:
            batch.append((cc["scenario"], scs[cc["scenario"]], [mut_from_json(m) for m in cc["mutations"]], False))
    if batch:
        compare(ck, schema, batch, "corpus")
    # valid scenarios: validate, fill, evaluate
    for name, sc in scs.items():
        try:
            crosscheck_labels(ck, schema, name, build_model(sc["spec"], scenario_types(sc["spec"])))
        except core.HarnessError:
            raise
        except (AttributeError, ImportError) as e:   # helper renamed / moved: internal observable only
            ck.diagnostic("label cross-check against iterate_names_and_labels could not run", {"error": repr(e)})
        except Exception as e:  # noqa: BLE001 — reported with a replay by run_case below
            ck.disagree("labels-vs-glotaran", f"{name}: valid scenario cannot be built / iterated: {e!r}", {"scenario": name, "mutations": []})
    compare(ck, schema, [(name, sc, [], True) for name, sc in scs.items()], "valid")
    covered = set()
    for name, sc in scs.items():
        for coll, items in sc["spec"].items():
            for d in (items.values() if isinstance(items, dict) else items):
                covered.add(f"{coll}/{d['type']}" if "type" in d else f"{coll}/")
    not_covered = sorted(s["key"] for s in schema["specs"] if s["key"] not in covered)
    ck.extra["schema_classes_not_in_any_scenario"] = not_covered
    if not_covered:
        ck.disagree("scenario-coverage", f"item classes of the regenerated schema without a scenario: {not_covered}", {})
    # exhaustive over positions
    total = 0
    for name, sc in scs.items():
        muts = systematic_mutations(schema, sc)
        total += len(muts)
        compare(ck, schema, [(name, sc, m, False) for m in muts], "systematic")
    ck.exhaustive = True
    ck.extra["exhaustive_space"] = (f"{total} single mutations = every reference position of every scenario misspelled / emptied, "
                                    "every definition removed, every parameter removed, every megacomplex appended to every "
                                    "dataset's megacomplex lists, every oscillation list shortened")
    # seeded random combinations
    n = ck.n(40, 600)
    for name, sc in scs.items():
        compare(ck, schema, [(name, sc, m, False) for m in random_mutations(ck, schema, sc, n)], "random")
    # pairs of simultaneous dangling references in different items: both must be reported (no masking);
    # thorough: all pairs, quick: a seeded sample
    n_pairs = 0
    for name, sc in scs.items():
        pairs = pair_mutations(schema, sc)
        if ck.quick:
            pairs = ck.rng.sample(pairs, min(30, len(pairs)))
        n_pairs += len(pairs)
        for i in range(0, len(pairs), 400):
            compare(ck, schema, [(name, sc, m, False) for m in pairs[i:i + 400]], "pairs")
    ck.extra["pairs_of_dangling_references"] = {"cases": n_pairs, "all_pairs": not ck.quick}
    untyped_reference_probe(ck, schema, scs)
    # megacomplex types declared on classes derived from other megacomplex types (oracle only; last: the declarations
    # register types globally, they are removed again)
    derived_stream(ck)


def search(ck):
    """widened oracle-only sweep on the real code"""
    schema = walk_schema()
    scs = scenarios()
    for name, sc in scs.items():
        for m in [[]] + systematic_mutations(schema, sc) + random_mutations(ck, schema, sc, ck.n(200, 2000)):
            run_case(ck, schema, name, sc, m, evaluate=not m)
        if ck.violations:
            return
    derived_stream(ck)


def replay(ck, case):
    schema = walk_schema()
    scs = scenarios()
    todo = []
    if "disagreements" in case:
        todo = [d["case"] for d in case["disagreements"] if "scenario" in d.get("case", {})]
    else:
        c = case.get("case", case)
        if "scenario" in c:
            todo = [c]
    if not todo:
        print("nothing replayable in this file (schema-level disagreement: re-run the check)")
        return
    for c in todo:
        if c.get("scenario") == "derived-types":
            run_derived_case(ck, c["types"], c["dataset"])
            print(f"replayed derived-types types={c['types']} dataset={c['dataset']}: violations={len(ck.violations)}")
            continue
        muts = [mut_from_json(m) for m in c["mutations"]]
        n = compare(ck, schema, [(c["scenario"], scs[c["scenario"]], muts, not muts)], "replay")
        print(f"replayed scenario={c['scenario']} mutations={muts}: model-vs-impl differences={n}, violations={len(ck.violations)}")
    for d in ck.disagreements:
        print("DISAGREEMENT", d["what"])
    for v in ck.violations:
        print("VIOLATION-DETAIL", v["key"], v["what"])
