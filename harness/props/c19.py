"""C19 — plugin registry: correspondence (model vs real code) + oracle (statement on real code)."""
from __future__ import annotations

import ast
import hashlib
import itertools
import os
import tempfile
import warnings
from pathlib import Path

from harness import core
from harness.core import enc, strs, bool_
from harness.props import _c19_extract as ex
from harness.props import _c19_fns as fns
from harness.props import _c19_builtins as bt

PROP = "C19"
REQUIRED_THEOREMS = [
    "step_keeps_short", "run_keeps_short", "first_registration_wins", "conflict_warns_and_keeps",
    "set_plugin_repoints", "dotted_short_names_rejected", "set_plugin_unknown_rejected",
    "lookup_spec", "registered_names_complete", "every_plugin_reachable_partial",
    "every_plugin_reachable_counterexample",
    # exactly when a plugin is shadowed (write trace of a history)
    "every_plugin_reachable_iff", "every_plugin_reachable_of_no_collision", "every_plugin_reachable_iff_static",
    "every_class_plugin_reachable", "every_plugin_reachable_counterexample_plain_name",
    # the three registries as instances of the model (regenerated table Generated/C19.lean: accessors)
    "known_names_instances", "is_known_instances", "get_instances", "register_set_instances",
    "api_history_projects", "first_registration_wins_public",
    # dispatch of the ten convenience functions (regenerated table: convFns) + format inference
    "dispatch_uses_resolution", "infer_file_format_spec", "extOf_spec", "supported_file_extensions_instances",
    # the source of base_registry.py / infer_file_format translated function by function (Generated/C19Fns.lean) = the model
    "generated_full_plugin_name_eq_model", "generated_is_registered_plugin_eq_model", "generated_add_plugin_eq_model",
    "generated_add_instantiated_eq_model", "generated_set_plugin_eq_model", "generated_get_plugin_eq_model",
    "generated_registered_plugins_eq_model", "generated_infer_file_format_eq_model",
    # import-time registration: regenerated decorator call sites (Generated/C19Builtins.lean) and load_plugins()
    "builtin_names_unique", "builtins_register_cleanly", "load_plugins_order", "loadPlugins_eq_runApi",
    "entry_point_cannot_shadow_builtin", "shadowed_entry_point_reachable", "entry_point_order_decides_counterexample",
]
GEN_FILE = core.LEAN / "GlotaranModel" / "Generated" / "C19.lean"
TRUSTED = [
    "function-level translator harness/props/_c19_fns.py (ast -> Lean do-blocks) and its hand-written vocabulary "
    "lean/GlotaranModel/C19Py.lean (meaning of dict get/set/in/keys, warn, raise, f-strings, sorted/filter, instantiation, "
    "os.path.splitext / lstrip on the model's types): generated_*_eq_model prove the translated add_plugin_to_registry, "
    "add_instantiated_plugin_to_registry, set_plugin, get_plugin_from_registry, registered_plugins, is_registered_plugin, "
    "full_plugin_name, infer_file_format equal to the model lean/GlotaranModel/C19.lean; the same model is still executed "
    "against the real functions",
    "Python dict semantics (insertion replaces in place / appends, membership by string equality)",
    "extractors harness/props/_c19_extract.py (wrapper / convenience-function tables) and _c19_builtins.py (decorator call "
    "sites under glotaran/builtin/, entry points of setup.cfg): their tables are interpreted by the model and cross-checked by "
    "running the real public functions / comparing with the registries `import glotaran` produced",
    "hand-written model of load_plugins() (entry points in importlib's order, no try around load()), of get_method_from_plugin / "
    "methods_differ_from_baseclass(_table) / supported_file_extensions (supportedExtensions) and of os.path.splitext (posix), tied "
    "by differential execution",
]
ASSUMPTIONS = [
    "full_plugin_name(plugin) = module + '.' + class name (always contains '.')",
    "registries are only modified through the functions of base_registry.py (for the three registration modules this is "
    "checked on the regenerated table: apiTableClosed)",
    "dispatch is stated for calls that pass the overwrite check of the save_* functions (C18) and whose plugin method "
    "returns normally; arguments are passed positionally or by their documented names",
]
RULE = (
    "histories over an alphabet of register / set_plugin operations (short names a, b, the dotted a.b and dotted names that "
    "coincide with full names / full keys the registry holds, "
    "4 plugin classes of which two share a full name, class- and instance-style registration, 5 set targets); "
    "after every operation every key of the registry and of a fixed key universe is looked up and "
    "registered_plugins(full/short) is read, and the writes to dotted keys the operation made (recorded by the dict itself) "
    "are compared with the model's write trace, on the real code and on the Lean model; a history is non-trivial "
    "when it contains at least one accepted registration; distinct = distinct operation sequences. "
    "quick: seeded sample of the exhaustive length<=3 space + random length-12 histories (these also draw registrations "
    "that collide on a dotted key) + the two witnesses of the recorded finding; thorough: every history of length <= 4. "
    "public API stream: random histories of register_* / set_*_plugin / get_* / is_known_* / known_* calls on all three "
    "registries at once inside the monkeypatch context managers, executed on the model through the regenerated table "
    "(api <function> [values]); every result, warning flag, error kind, the names listed in error messages and the instance "
    "identity are compared and the key sets of all three registries are read after every call. "
    "infer stream: infer_file_format on every path of a scratch tree (dotted folders, hidden files, trailing dot, missing "
    "paths, str and Path) x the four flag settings + the signature defaults. "
    "dispatch stream: after random register/set histories over the names a, b, yml, yaml and the empty name with three "
    "recording plugin classes all ten load_*/save_* convenience functions are called on 7 paths of the scratch tree (18 in "
    "all) x format_name in {absent, '', a, yml, yaml, zz}: outcome (methods called + plugin instance / which ValueError with "
    "the names it lists) compared with the model's dispatch through the regenerated table, and with a model-independent "
    "reading of the statement (oracle_format). extension stream: supported_file_extensions_* after random histories with "
    "classes overriding different method subsets and names ending in _str / str. "
    "import stream: load_plugins() on empty registries over simulated entry points (monkeypatched importlib.metadata."
    "entry_points): 2-5 builtin call sites of the regenerated table (classes with the builtins' module and class names), 1-3 "
    "third-party entry points asking for builtin names (+ new names, + a second registry), groups glotaran.plugins* / foreign, an "
    "entry point listed twice, imports that raise before / between / after their registrations or through a dotted name, "
    "DEACTIVATE_GTA_PLUGINS; compared with the model's `load`: whether loading ended with an exception, the outcome and warning "
    "flags of every registration call made, all names and what each resolves to (instance identity) in all three registries; "
    "oracle from the scenario alone (first registration in loading order owns the name, every loaded plugin reachable under its "
    "full key, nothing from skipped / unreached entry points). builtin table: the regenerated decorator call sites against the "
    "registries the real `import glotaran` produced (names listed, every short name resolves to the builtin class)"
)

def generate(ck):
    """regenerate lean/GlotaranModel/Generated/C19.lean from the source text of VERIF_REPO"""
    accessors, convs, exts, infer_defaults = ex.extract_all(core.REPO)
    text = ex.render(accessors, convs, exts, infer_defaults)
    GEN_FILE.parent.mkdir(parents=True, exist_ok=True)
    if not GEN_FILE.exists() or GEN_FILE.read_text() != text:
        GEN_FILE.write_text(text)
    translated = fns.generate(core.REPO, core.LEAN)
    builtins = bt.generate(core.REPO, core.LEAN)
    return [translated, builtins, {
        "table": "Accessors + ConvFns + ExtFns + inferDefaults (lean/GlotaranModel/Generated/C19.lean)",
        "source": ex.SOURCES,
        "source_sha1": ex.source_sha1(core.REPO),
        "sha1": hashlib.sha1(text.encode()).hexdigest(),
        "accessors": [a["name"] for a in accessors],
        "convenience_functions": [c["name"] for c in convs],
        "extension_functions": [e["name"] for e in exts],
    }]


class RecDict(dict):
    """a registry dict that remembers every write (the base functions only need a MutableMapping)"""

    def __init__(self):
        super().__init__()
        self.writes = []

    def __setitem__(self, k, v):
        self.writes.append((k, v))
        super().__setitem__(k, v)


# ------------------------------------------------------------------------------------------
# alphabet
# ------------------------------------------------------------------------------------------
CLASSES = {  # tag -> (module, name)
    "X": ("m", "A"),
    "Y": ("m", "A"),   # a different class object with the same full name
    "Z": ("m", "B"),
    "U": ("m", "A_b"),  # used by the full-key collision finding
}
SHORT = ["a", "b", "a.b"]
UNIVERSE = ["a", "b", "c", "b_c", "a.b", "m.A", "m.B", "m.A_a", "m.A_b", "m.B_a", "m.B_b", "m.A_b_c", "zz", "Q", "q", "m.A_Q", "m.a_q"]
# the two shapes of the recorded finding (Lean: every_plugin_reachable_counterexample / …_plain_name)
WITNESSES = [
    [("addinst", ["c"], "U"), ("addinst", ["b_c"], "X")],
    [("addinst", ["b"], "X"), ("addinst", ["x"], "U"), ("addinst", ["x"], "U")],
]


# registrations that can collide on a dotted key (class m.A_b against class m.A + format b); used in the random streams only
COLLIDE_OPS = [("addinst", ["b"], "U"), ("addinst", ["a"], "U"), ("addinst", ["b", "a"], "X")]
# more operations for the random streams and the search: a short name as set target, names with capitals (look-up is exact)
EXTRA_OPS = [("set", "b", "a"), ("set", "a", "b"), ("addinst", ["Q"], "X"), ("add", "Q", "Z"), ("set", "Q", "m.A_Q"),
             ("set", "b", "m.A_Q"), ("addinst", ["q", "Q"], "Z")]


def alphabet(full: bool):
    ops = []
    for k in SHORT:
        for c in ("X", "Y", "Z"):
            ops.append(("addinst", [k], c))
    for k in ("a", "b"):
        for c in ("X", "Z"):
            ops.append(("add", k, c))
    for k, f in (("a", "m.A_a"), ("a", "m.B_a"), ("b", "m.A"), ("a", "nodot"), ("a.b", "m.A"), ("b", "m.B_b")):
        ops.append(("set", k, f))
    # dotted short names that coincide with keys the registry may already hold (full names, full keys): they must be
    # rejected like any other dotted name (seeded change C19-2: validation skipped for names already in the registry)
    ops.append(("add", "m.A", "Z"))
    ops.append(("addinst", ["m.A_a"], "Z"))
    ops.append(("addinst", ["m.B_a"], "X"))
    # names whose only dots are leading / trailing (a plugin author passing Path.suffix): rejected like any dotted name,
    # never registered under the stripped name
    ops.append(("addinst", [".b"], "X"))
    ops.append(("addinst", ["a", "b."], "Y"))
    ops.append(("add", ".a", "Z"))
    if full:
        ops.append(("addinst", ["."], "Z"))
        ops.append(("addinst", ["..b"], "X"))
        ops.append(("add", "m.B", "X"))
        ops.append(("addinst", ["a", "b"], "Z"))
        ops.append(("addinst", ["a", "a.b", "b"], "X"))
    return ops


# ------------------------------------------------------------------------------------------
# the real code, driven op by op
# ------------------------------------------------------------------------------------------
class Real:
    """a fresh registry dict + plugin classes whose instances carry a uid"""

    def __init__(self, api="base"):
        from glotaran.plugin_system import base_registry as br

        self.br = br
        self.api = api
        self.reg: dict = RecDict()
        self.uid = 0
        self.uids: dict[int, int] = {}
        self.keep = []
        self.classes = {}
        outer = self
        for tag, (mod, name) in CLASSES.items():
            def __init__(self, format_name, _outer=outer):
                _outer.uids[id(self)] = _outer.uid
                _outer.uid += 1
                _outer.keep.append(self)
                self.format = format_name
            self.classes[tag] = type(name, (object,), {"__module__": mod, "__init__": __init__})

    def uid_of(self, obj):
        return self.uids[id(obj)]

    def show(self, obj):
        return f"{enc(self.br.full_plugin_name(obj))}#{self.uid_of(obj)}"

    def apply(self, op):
        """returns (protocol line for the model, canonical implementation answer)"""
        br = self.br
        kind = op[0]
        with warnings.catch_warnings(record=True) as w:
            warnings.simplefilter("always")
            try:
                if kind == "add":
                    _, key, tag = op
                    cls = self.classes[tag]
                    # class-style plugin (megacomplex): the class object itself, fresh uid
                    sub = type(cls.__name__, (cls,), {"__module__": cls.__module__})
                    self.uids[id(sub)] = self.uid
                    uid = self.uid
                    self.uid += 1
                    self.keep.append(sub)
                    mod, name = CLASSES[tag]
                    line = f"add {enc(key)} {enc(mod)} {enc(name)} {uid} ~"
                    br.add_plugin_to_registry(key, sub, self.reg, "set_x_plugin")
                    warned = [x for x in w if issubclass(x.category, br.PluginOverwriteWarning)]
                    return line, f"ok {bool_(bool(warned))}"
                if kind == "addinst":
                    _, keys, tag = op
                    mod, name = CLASSES[tag]
                    line = f"addinst {strs(keys)} {enc(mod)} {enc(name)} {self.uid}"
                    flags = []
                    # per-key warning flags: run the real function on the whole key list, then attribute
                    # warnings to keys through the old_key recorded in the warning message
                    try:
                        br.add_instantiated_plugin_to_registry(list(keys), self.classes[tag], self.reg, "set_x_plugin")
                    except ValueError:
                        done = self._processed(keys)
                        flags = self._flags(w, keys[:done])
                        if not flags:
                            return line, "err dotted"
                        return line, "err dotted-after " + core.lst(bool_(f) for f in flags)
                    flags = self._flags(w, keys)
                    return line, "oks " + core.lst(bool_(f) for f in flags)
                if kind == "set":
                    _, key, full = op
                    line = f"set {enc(key)} {enc(full)}"
                    try:
                        br.set_plugin(key, full, self.reg)
                    except ValueError as e:
                        if "isn't allowed to contain the character '.'" in str(e):
                            return line, "err dotted"
                        # the message must name the known full names; the model predicts the order too (dict order)
                        listed = names_in_message(str(e))
                        known = sorted(k for k in self.reg if "." in k)
                        named = listed is not None and sorted(listed) == known
                        return line, "err unknown-full " + strs(listed if listed is not None else known) + ("" if named else " MESSAGE-INCOMPLETE")
                    return line, "done"
                if kind == "get":
                    _, key = op
                    line = f"get {enc(key)}"
                    try:
                        p = br.get_plugin_from_registry(key, self.reg, "nf")
                    except ValueError:
                        return line, "err not-found"
                    return line, f"found {self.show(p)}"
                if kind == "registered":
                    _, full = op
                    return f"registered {bool_(full)}", "names " + strs(br.registered_plugins(self.reg, full_names=full))
            except ValueError as e:
                if kind == "add" and "isn't allowed in the name of a plugin" in str(e):
                    return line, "err dotted"
                raise
        raise AssertionError(op)

    def _processed(self, keys):
        n = 0
        for k in keys:
            if "." in k:
                break
            n += 1
        return n

    def _flags(self, w, keys):
        old = warned_keys(w, self.br.PluginOverwriteWarning)
        return [k in old for k in keys]


def warned_keys(w, category):
    """access names for which a PluginOverwriteWarning was issued"""
    import re
    out = []
    for x in w:
        if issubclass(x.category, category):
            m = re.search(r"access_name '([^']*)'", str(x.message))
            out.append(m.group(1) if m else "?")
    return out


def trace_answer(real: Real, n_before: int) -> str:
    """dotted-key writes of the last operation, as the model prints them for `wtrace <op>`"""
    ws = [(k, v) for k, v in real.reg.writes[n_before:] if "." in k]
    return "writes " + core.lst(f"[{enc(k)},{real.show(v)}]" for k, v in ws)


def observe(real: Real):
    """registered_plugins(full / short) and a lookup of every key of the registry and of the key universe, as one protocol
    line (`obs [keys]`); the real functions are called key by key"""
    br = real.br
    keys = sorted(set(UNIVERSE) | set(real.reg.keys()))
    res = []
    for k in keys:
        try:
            res.append(real.show(br.get_plugin_from_registry(k, real.reg, "nf")))
        except ValueError:
            res.append("-")
    ans = ("obs names " + strs(br.registered_plugins(real.reg, full_names=True)) + " names "
           + strs(br.registered_plugins(real.reg, full_names=False)) + " " + core.lst(res))
    return "obs " + strs(keys), ans


# ------------------------------------------------------------------------------------------
# oracle: the statement of C19 evaluated on the real registry, independent of the model
# ------------------------------------------------------------------------------------------
class Oracle:
    def __init__(self, ck, real: Real):
        self.ck, self.real = ck, real
        self.expect: dict[str, object] = {}          # short name -> object it must resolve to
        self.registered: list[tuple[str, str]] = []   # (full key, full name) of every accepted registration

    def before(self, op):
        self.snapshot = dict(self.real.reg)

    def after(self, op, answer, history):
        ck, real, br = self.ck, self.real, self.real.br
        ck.oracle_evals += 1
        reg = real.reg
        kind = op[0]
        case = {"history": history}
        if kind in ("add", "addinst"):
            keys = [op[1]] if kind == "add" else list(op[1])
            for k in keys:
                if "." in k:
                    if not answer.startswith("err dotted"):
                        ck.violation("dotted-accepted", f"short name {k!r} containing '.' was accepted", case)
                    break
                if k not in self.expect and k in reg:
                    self.expect[k] = reg[k]      # first registration under k
            # every accepted registration is remembered with its full key
            mod, name = CLASSES[op[2]]
            full = f"{mod}.{name}"
            for k in keys:
                if "." in k:
                    break
                self.registered.append((full if kind == "add" else f"{full}_{k}", full))
            if answer.startswith("err dotted") and kind == "add" and reg != self.snapshot:
                ck.violation("dotted-mutated", "rejected registration changed the registry", case)
        elif kind == "set":
            if answer == "done":
                self.expect[op[1]] = self.snapshot[op[2]]
                if "." not in op[2]:
                    ck.violation("set-short-target-accepted", f"set_plugin({op[1]!r}, {op[2]!r}) accepted a target that is not a "
                                 f"full plugin name", case)
            elif reg != self.snapshot:
                ck.violation("set-rejected-mutated", "rejected set_plugin changed the registry", case)
            if "." in op[1] and answer != "err dotted":
                ck.violation("dotted-accepted", f"set_plugin accepted dotted short name {op[1]!r}", case)
            if "MESSAGE-INCOMPLETE" in answer:
                ck.violation("unknown-message", "ValueError of set_plugin does not name the known plugins", case)
        # first registration wins / re-pointing
        for k, obj in self.expect.items():
            if reg.get(k) is not obj:
                ck.violation("short-name-replaced", f"short name {k!r} no longer resolves to the plugin first "
                             f"registered / last set under it", case)
        # ... through the real functions: every name registered_plugins lists is retrievable with get_plugin_from_registry
        # and is the object the dict holds; the short listing is the sorted list of the undotted names
        listed = br.registered_plugins(reg, full_names=True)
        if listed != sorted(reg.keys()) or br.registered_plugins(reg) != sorted(k for k in reg if "." not in k):
            ck.violation("listing-wrong", f"registered_plugins lists {listed}, the registry holds {sorted(reg.keys())} "
                         f"(short: {br.registered_plugins(reg)})", case)
        for k in list(reg.keys()):
            try:
                got = br.get_plugin_from_registry(k, reg, "nf")
            except ValueError:
                got = None
            if got is not reg[k]:
                ck.violation("known-name-not-retrievable", f"{k!r} is registered but get_plugin_from_registry({k!r}) "
                             f"{'raises' if got is None else 'returns another plugin'}", case)
                break
        # every registered plugin reachable under its full key — and under every other dotted name it was stored
        # under (the plain full name of a conflicting registration, which the overwrite warning tells the user to pass to
        # set_*_plugin).  The write trace is recorded by the dict itself (RecDict), not taken from the model.
        trace = [(k, br.full_plugin_name(v)) for k, v in reg.writes if "." in k]
        names_at: dict[str, set] = {}
        for k, full in trace:
            names_at.setdefault(k, set()).add(full)
        promised = list(dict.fromkeys(self.registered + trace))
        lost = []
        for fk, full in promised:
            got = reg.get(fk)
            if got is None or br.full_plugin_name(got) != full:
                other = None if got is None else br.full_plugin_name(got)
                # the recorded finding: two registrations wrote this dotted key with different full names
                collide = len(names_at.get(fk, ())) > 1
                key = "fullkey-underscore-collision" if collide else "plugin-unreachable"
                lost.append(fk)
                ck.violation(key, f"plugin {full!r} registered under {fk!r} is not retrievable there (found {other!r})", case)
        for fk, full in self.registered:
            if (fk, full) not in trace:
                ck.violation("registration-not-stored", f"accepted registration of {full!r} never wrote its full key {fk!r}", case)
        # the characterisation (Lean: every_plugin_reachable_iff) on the real registry: some promised name is lost
        # exactly when two writes of the history collide on a dotted key
        collision = any(len(v) > 1 for v in names_at.values())
        ck.count("reachable-iff:" + ("collision" if collision else "no-collision"))
        if collision != bool(lost):
            ck.disagree("reachable-iff-vs-impl", f"write trace of the real registry has collision={collision} but lost names={lost}",
                        case)


# ------------------------------------------------------------------------------------------
def run_history(ck, hist, api="base", with_oracle=True):
    """returns (protocol lines, implementation answers, per-line op index)"""
    real = Real(api)
    orc = Oracle(ck, real) if with_oracle else None
    lines, impl = ["reset"], ["reset"]
    done = []
    for op in hist:
        if orc:
            orc.before(op)
        n_before = len(real.reg.writes)
        line, ans = real.apply(op)
        if op[0] in ("add", "addinst", "set"):
            lines.append("wtrace " + line)
            impl.append(trace_answer(real, n_before))
        lines.append(line)
        impl.append(ans)
        done.append(list(op))
        if orc:
            orc.after(op, ans, [list(o) for o in done])
        l, a = observe(real)
        lines.append(l)
        impl.append(a)
    return lines, impl


def compare(ck, hists, tag):
    all_lines, all_impl, owner = [], [], []
    for hi, h in enumerate(hists):
        lines, impl = run_history(ck, h)
        all_lines += lines
        all_impl += impl
        owner += [hi] * len(lines)
        nontrivial = any(a.startswith("ok") or a.startswith("oks") for a in impl)
        ck.case(("hist", tuple(map(repr, h))), nontrivial)
        for a in impl:
            ck.count("answer:" + a.split(" ")[0] + ("-" + a.split(" ")[1] if a.startswith("err") else ""))
        ck.count(f"stream:{tag}")
        ck.count(f"len:{len(h)}")
    model = core.lean_driver(PROP, all_lines)
    bad_hist = {}
    for i, (a, b) in enumerate(zip(all_impl, model)):
        if a != b and owner[i] not in bad_hist:
            bad_hist[owner[i]] = (all_lines[i], a, b)
    for hi, (line, a, b) in bad_hist.items():
        h = shrink(ck, hists[hi]) if len(ck.disagreements) < 2 else hists[hi]
        ck.disagree("model-vs-impl", f"after {line!r}: implementation {a!r}, model {b!r}",
                    {"history": [list(o) for o in h]})
    return len(bad_hist)


def differs(ck, h):
    lines, impl = run_history(ck, h, with_oracle=False)
    return core.lean_driver(PROP, lines) != impl


def shrink(ck, h):
    h = list(h)
    changed = True
    while changed and len(h) > 1:
        changed = False
        for i in range(len(h)):
            cand = h[:i] + h[i + 1:]
            try:
                if differs(ck, cand):
                    h, changed = cand, True
                    break
            except Exception:
                pass
    return h


# ------------------------------------------------------------------------------------------
# public API streams (register_* inside monkeypatched registries) + dispatch
# ------------------------------------------------------------------------------------------
def val_str(x: str) -> str:
    return f"[s,{enc(x)}]"


def val_strs(xs) -> str:
    return f"[l,{strs(xs)}]"


def val_cls(mod, name, uid) -> str:
    return f"[c,{enc(mod)},{enc(name)},{uid}]"


def names_in_message(msg: str):
    """the list of names a ValueError of get_* prints at its end"""
    try:
        v = ast.literal_eval(msg[msg.rindex("["):].strip())
        return v if isinstance(v, list) and all(isinstance(x, str) for x in v) else None
    except (ValueError, SyntaxError):
        return None


def public_api(ck):
    """histories of public calls on all three registries at once (inside the monkeypatch context managers), the same
    calls on the model *through the regenerated table* (`api <function> [values]`), compared call by call; after every
    call the keys of all three registries are compared (a call on one registry must not touch another)."""
    from glotaran.io.interface import DataIoInterface, ProjectIoInterface
    from glotaran.plugin_system import data_io_registration as dreg
    from glotaran.plugin_system import megacomplex_registration as mreg
    from glotaran.plugin_system import project_io_registration as preg
    from glotaran.plugin_system.base_registry import PluginOverwriteWarning, full_plugin_name
    from glotaran.testing.plugin_system import (
        monkeypatch_plugin_registry_data_io,
        monkeypatch_plugin_registry_megacomplex,
        monkeypatch_plugin_registry_project_io,
    )

    API = {
        "megacomplex": dict(mod=mreg, register="register_megacomplex", is_known="is_known_megacomplex",
                            known="known_megacomplex_names", set="set_megacomplex_plugin", get="get_megacomplex", base=object,
                            message_full=True),
        "data": dict(mod=dreg, register="register_data_io", is_known="is_known_data_format", known="known_data_formats",
                     set="set_data_plugin", get="get_data_io", base=DataIoInterface, message_full=False),
        "project": dict(mod=preg, register="register_project_io", is_known="is_known_project_format",
                        known="known_project_formats", set="set_project_plugin", get="get_project_io", base=ProjectIoInterface,
                        message_full=False),
    }
    n_hist = ck.n(120, 1500)
    for hi in range(n_hist):
        rng = ck.rng
        counter = [0]
        uids: dict[int, int] = {}
        keep = []

        def mk(which, tag):
            mod, name = CLASSES[tag]
            base = API[which]["base"]
            if which == "megacomplex":
                cls = type(name, (object,), {"__module__": mod})
                uids[id(cls)] = 100 + "XYZU".index(tag)
                keep.append(cls)
                return cls

            def __init__(self, format_name):
                base.__init__(self, format_name)
                uids[id(self)] = counter[0]
                counter[0] += 1
                keep.append(self)

            return type(name, (base,), {"__module__": mod, "__init__": __init__})

        classes = {w: {t: mk(w, t) for t in "XYZU"} for w in API}
        fn = lambda which, role: getattr(API[which]["mod"], API[which][role])
        show = lambda obj: f"{enc(full_plugin_name(obj))}#{uids.get(id(obj), '?')}"

        def resolve(wh, k):
            try:
                return fn(wh, "get")(k)
            except ValueError:
                return None

        hist, lines, impl = [], ["reset"], ["reset"]
        expect = {}
        with monkeypatch_plugin_registry_megacomplex({}, create_new_registry=True), \
                monkeypatch_plugin_registry_data_io({}, create_new_registry=True), \
                monkeypatch_plugin_registry_project_io({}, create_new_registry=True):
            for _ in range(rng.randint(3, 10)):
                which = rng.choice(list(API))
                a = API[which]
                get, known = fn(which, "get"), fn(which, "known")
                r = rng.random()
                case = {"api": which, "history": hist}
                with warnings.catch_warnings(record=True) as w:
                    warnings.simplefilter("always")
                    if r < 0.5:
                        tag = rng.choice("XXYZZU")
                        mod, name = CLASSES[tag]
                        if which == "megacomplex":
                            keys = [rng.choice(["a", "b", "c", "a", "b", "a.b"])]
                            single = True
                        else:
                            keys = rng.sample(["a", "b", "c", "x"], rng.randint(1, 2))
                            single = len(keys) == 1 and rng.random() < 0.4
                            if rng.random() < 0.15:
                                keys.insert(rng.randint(0, len(keys)), rng.choice(["a.b", "a.b", ".b", "c.", "..x", "."]))
                                single = len(keys) == 1
                            elif rng.random() < 0.15:
                                dotted = [x for x in known(full_names=True) if "." in x]
                                if dotted:   # a dotted name the registry already knows (full name / full key)
                                    keys.insert(rng.randint(0, len(keys)), rng.choice(dotted))
                                    single = False
                        hist.append(["register", which, keys, tag])
                        before = {k: resolve(which, k) for k in ["a", "b", "c", "x"]}
                        base_uid = counter[0]
                        try:
                            if which == "megacomplex":
                                fn(which, "register")(keys[0], classes[which][tag])
                            else:
                                fn(which, "register")(keys[0] if single else list(keys))(classes[which][tag])
                            ans_err = None
                        except ValueError:
                            ans_err = "dotted"
                        dpos = [i for i, k in enumerate(keys) if "." in k]
                        proc = keys[: dpos[0]] if dpos else keys
                        if dpos and ans_err is None:
                            ck.violation("dotted-accepted", f"{which}: short name {keys[dpos[0]]!r} containing '.' was accepted", case)
                        flags = []
                        wk = warned_keys(w, PluginOverwriteWarning)
                        for k in proc:
                            old = before[k]
                            should = old is not None and full_plugin_name(old) != f"{mod}.{name}"
                            got = k in wk
                            flags.append(got)
                            if got != should:
                                ck.violation("warning-mismatch", f"{which}: conflicting registration of {k!r}: "
                                             f"warning issued={got}, expected={should}", case)
                            if old is None:
                                obj = resolve(which, k)
                                if obj is None:
                                    ck.violation("registered-not-resolvable", f"{which}: {k!r} does not resolve right after its "
                                                 f"accepted registration", case)
                                else:
                                    expect[(which, k)] = obj
                        if which == "megacomplex":
                            lines.append(f"api {a['register']} [{val_str(keys[0])},{val_cls(mod, name, uids[id(classes[which][tag])])}]")
                            impl.append("err dotted" if ans_err else f"ok {bool_(flags[0])}")
                        else:
                            kv = val_str(keys[0]) if single else val_strs(keys)
                            lines.append(f"api {a['register']} [{kv},{val_cls(mod, name, base_uid)}]")
                            if ans_err:
                                impl.append("err dotted" if not flags else "err dotted-after " + core.lst(map(bool_, flags)))
                            else:
                                impl.append("oks " + core.lst(map(bool_, flags)))
                    elif r < 0.68:
                        k = rng.choice(["a", "b", "x", "a.b"])
                        fulls = [x for x in known(full_names=True) if "." in x] + ["m.Nope", "nodot"]
                        full = rng.choice(fulls)
                        hist.append(["set", which, k, full])
                        lines.append(f"api {a['set']} [{val_str(k)},{val_str(full)}]")
                        try:
                            target = resolve(which, full)
                            fn(which, "set")(k, full)
                            impl.append("done")
                            expect[(which, k)] = target
                        except ValueError as e:
                            if "." in k:
                                impl.append("err dotted")
                            else:
                                # the names the message prints, in the order it prints them (dict order; Lean: keys)
                                listed = names_in_message(str(e))
                                impl.append("err unknown-full " + (strs(listed) if listed is not None else "MESSAGE-UNPARSABLE"))
                                if listed is None or sorted(listed) != sorted(x for x in known(full_names=True) if "." in x):
                                    ck.violation("unknown-message", f"{which}: ValueError of {a['set']} does not name exactly the "
                                                 f"registered full names", case)
                    elif r < 0.84:
                        k = rng.choice(["a", "b", "c", "x", "zz"] + [x for x in known(full_names=True) if "." in x][:2])
                        hist.append(["get", which, k])
                        lines.append(f"api {a['get']} [{val_str(k)}]")
                        try:
                            impl.append("found " + show(get(k)))
                        except ValueError as e:
                            listed = names_in_message(str(e))
                            impl.append(f"err unknown {enc(k)} " + (strs(listed) if listed is not None else "MESSAGE-UNPARSABLE"))
                            want = known(full_names=a["message_full"])
                            if listed is None or not set(known()) <= set(listed):
                                ck.violation("unknown-message", f"{which}: ValueError for unknown name does not list the "
                                             f"known names", {**case, "message": str(e)})
                    elif r < 0.92:
                        k = rng.choice(["a", "b", "c", "zz", "m.A", "m.A_a", "m.B_b"])
                        hist.append(["is_known", which, k])
                        lines.append(f"api {a['is_known']} [{val_str(k)}]")
                        got = fn(which, "is_known")(k)
                        impl.append(f"bool {bool_(got)}")
                        ck.oracle_evals += 1
                        if got != (k in known(full_names=True)):
                            ck.violation("is-known-vs-known-names", f"{which}: is_known({k!r})={got} but known names say otherwise", case)
                    else:
                        flag = rng.choice([None, True, False])
                        hist.append(["known", which, flag])
                        lines.append(f"api {a['known']} [{'' if flag is None else bool_(flag)}]")
                        impl.append("names " + strs(known() if flag is None else known(flag)))
                ck.oracle_evals += 1
                # known_*() without arguments lists the undotted keys, is_known_* agrees with known_*(full_names=True)
                if known() != sorted(k for k in known(full_names=True) if "." not in k):
                    ck.violation("known-default-not-short", f"{which}: known names without arguments are not the undotted keys", case)
                for (wh, k), obj in expect.items():
                    if resolve(wh, k) is not obj:
                        ck.violation("short-name-replaced", f"{wh}: short name {k!r} no longer resolves to the "
                                     f"plugin first registered / last set", {"api": wh, "history": hist})
                # frame: all three registries after every call
                for wh in API:
                    lines.append(f"api {API[wh]['known']} [T]")
                    impl.append("names " + strs(fn(wh, "known")(full_names=True)))
        yield "mixed", hist, lines, impl


# ------------------------------------------------------------------------------------------
# dispatch of the load/save convenience functions (all ten) after register / set_plugin histories
# ------------------------------------------------------------------------------------------
# paths of the scratch tree the convenience functions are called on: (relative path, kind)
DISPATCH_TREE = [
    ("f.a", "file"), ("f.A", "file"), ("f.b", "file"), ("f.yml", "file"), ("f.yaml", "file"), ("f.zz", "file"), ("noext", "file"),
    (".a", "file"), ("f.", "file"), ("g.tar.a", "file"), ("..b", "file"), ("d.x/inner", "file"), ("d.x/f.b", "file"),
    ("folder", "dir"), ("dir.a", "dir"), ("missing.a", "absent"), ("missing", "absent"), ("newdir/new.b", "absent"),
    ("d.x/gone", "absent"),
]
REGULAR = {"f.a": "a", "f.A": "A", "f.b": "b", "f.yml": "yaml", "f.yaml": "yaml", "f.zz": "zz"}   # the oracle's own reading


def oracle_format(fname: str, rel: str, kind: str, given):
    """the statement read on one call, independent of the model: the format the registry must be asked for, or None when
    the call must fail with ValueError before any plugin is touched.  `load_*` need an existing file (the result loader
    also takes a folder or a path yet to be created), `save_*` do not; the extension names the format, `yml` reads as
    `yaml`; without an extension the result functions mean `yaml`, everything else is an error."""
    if given:
        return given
    is_load, is_result = fname.startswith("load_"), fname.endswith("_result")
    if is_load and not is_result and kind != "file":
        return None
    name = rel.rsplit("/", 1)[-1]
    stem, dot, ext = name.rpartition(".")
    if dot and stem.strip(".") != "":
        return "yaml" if ext == "yml" else ext
    return "yaml" if is_result else None


def build_tree(td: Path):
    for rel, kind in DISPATCH_TREE:
        p = td / rel
        if kind == "file":
            p.parent.mkdir(parents=True, exist_ok=True)
            p.write_text("x")
        elif kind == "dir":
            p.mkdir(parents=True, exist_ok=True)


def classify_value_error(e: ValueError) -> str:
    msg = str(e)
    if msg.startswith("There is no file"):
        return "err no-file"
    if msg.startswith("Cannot determine format"):
        return "err no-extension"
    import re
    m = re.match(r"Unknown\s+(?:Project|Data) Io format (.*)\. Known formats are: (\[.*\])$", msg, re.S)
    if m:
        try:
            fmt, known = ast.literal_eval(m.group(1)), ast.literal_eval(m.group(2))
            return f"err unknown {enc(fmt)} {strs(known)}"
        except (ValueError, SyntaxError):
            pass
    return "err other " + enc(msg[:60])


def infer_stream(ck):
    """io_plugin_utils.infer_file_format against the model, every path of the scratch tree x the four flag settings"""
    from glotaran.plugin_system.io_plugin_utils import infer_file_format
    lines, impl = [], []
    with tempfile.TemporaryDirectory() as td:
        td = Path(td)
        build_tree(td)
        for rel, kind in DISPATCH_TREE:
            for as_path in (False, True):
                p = td / rel
                arg = p if as_path else str(p)
                for nte in (True, False):
                    for af in (True, False):
                        lines.append(f"infer {enc(str(p))} {bool_(os.path.isfile(p))} {bool_(nte)} {bool_(af)}")
                        try:
                            impl.append("ok " + enc(infer_file_format(arg, needs_to_exist=nte, allow_folder=af)))
                        except ValueError as e:
                            impl.append(classify_value_error(e))
                        ck.case(("infer", rel, as_path, nte, af), True)
                        ck.count("stream:infer")
        # the defaults of the signature (regenerated into the table as inferDefaults)
        for rel in ("f.a", "missing.a", "folder"):
            p = td / rel
            lines.append(f"infer {enc(str(p))} {bool_(os.path.isfile(p))} T F")
            try:
                impl.append("ok " + enc(infer_file_format(str(p))))
            except ValueError as e:
                impl.append(classify_value_error(e))
    model = core.lean_driver(PROP, lines)
    for l, a, b in zip(lines, impl, model):
        if a != b:
            ck.disagree("infer-model-vs-impl", f"{l!r}: implementation {a!r}, model {b!r}", {"line": l})
            break


def dispatch_stream(ck, only=None):
    """(`only`: a recorded case {api, history, function, file, format_name} to replay instead of generating)
    The last clause of the statement: every load_*/save_* convenience function hands the call to exactly the plugin
    the registry resolves for the *given* format name, or for the format inferred from the file name (the extension;
    'yml' is read as 'yaml'; a folder as 'yaml' for results) — and raises ValueError when that name is unknown.
    Every call is also made on the model through the regenerated table (`dispatch <function> [values] [files]`)."""
    import types
    import xarray as xr
    from glotaran.io.interface import DataIoInterface, ProjectIoInterface
    from glotaran.plugin_system import data_io_registration as dreg
    from glotaran.plugin_system import project_io_registration as preg
    from glotaran.plugin_system.base_registry import full_plugin_name
    from glotaran.testing.plugin_system import monkeypatch_plugin_registry_data_io, monkeypatch_plugin_registry_project_io

    calls = []
    counter = [0]
    uids: dict[int, int] = {}
    keep = []

    def rec(name, ret):
        def f(self, *a, **kw):
            calls.append((name, self))
            return ret()
        return f

    ns = lambda: types.SimpleNamespace(source_path=None)
    proj_methods = {m: rec(m, ns) for m in ("load_model", "save_model", "load_parameters", "save_parameters", "load_scheme",
                                           "save_scheme", "load_result")}
    proj_methods["save_result"] = rec("save_result", lambda: [])
    data_methods = {"load_dataset": rec("load_dataset", lambda: xr.Dataset({"data": (("a",), [1.0])})),
                    "save_dataset": rec("save_dataset", lambda: None)}
    # "A" next to "a": registry keys are case sensitive, and so is the format inferred from an extension (round-2 seeded
    # change C19-5: infer_file_format lower-cased the extension)
    names = ["a", "yml", "yaml", "b", "A"]
    for which in ("project", "data"):
        if only and only["api"] != which:
            continue
        base, methods = (ProjectIoInterface, proj_methods) if which == "project" else (DataIoInterface, data_methods)

        def __init__(self, format_name, _base=base):
            _base.__init__(self, format_name)
            uids[id(self)] = counter[0]
            counter[0] += 1
            keep.append(self)

        classes = [type(n, (base,), {"__module__": "m", "__init__": __init__, **methods}) for n in ("P1", "P2", "P3")]
        if which == "project":
            cm, register, setp, get, known = (monkeypatch_plugin_registry_project_io, preg.register_project_io,
                                              preg.set_project_plugin, preg.get_project_io, preg.known_project_formats)
            reg_name, set_name = "register_project_io", "set_project_plugin"
            funcs = [("load_model", lambda p, f: preg.load_model(p, format_name=f), True),
                     ("save_model", lambda p, f: preg.save_model(ns(), p, format_name=f, allow_overwrite=True), False),
                     ("load_parameters", lambda p, f: preg.load_parameters(p, format_name=f), True),
                     ("save_parameters", lambda p, f: preg.save_parameters(ns(), p, format_name=f, allow_overwrite=True), False),
                     ("load_scheme", lambda p, f: preg.load_scheme(p, format_name=f), True),
                     ("save_scheme", lambda p, f: preg.save_scheme(ns(), p, format_name=f, allow_overwrite=True), False),
                     ("load_result", lambda p, f: preg.load_result(p, format_name=f), True),
                     ("save_result", lambda p, f: preg.save_result(ns(), p, format_name=f, allow_overwrite=True), False)]
        else:
            cm, register, setp, get, known = (monkeypatch_plugin_registry_data_io, dreg.register_data_io,
                                              dreg.set_data_plugin, dreg.get_data_io, dreg.known_data_formats)
            reg_name, set_name = "register_data_io", "set_data_plugin"
            funcs = [("load_dataset", lambda p, f: dreg.load_dataset(p, format_name=f), True),
                     ("save_dataset", lambda p, f: dreg.save_dataset(xr.Dataset({"data": (("a",), [1.0])}), p, format_name=f,
                                                                      allow_overwrite=True), False)]
        for hi in range(1 if only else ck.n(25, 300)):
            rng = ck.rng
            hist = []
            lines, impl = ["reset"], ["reset"]
            with cm({}, create_new_registry=True), warnings.catch_warnings():
                warnings.simplefilter("ignore")
                for step in (only["history"] if only else range(rng.randint(1, 5))):
                    if only:
                        op = step
                    elif rng.random() < 0.75 or not known():
                        ks = rng.sample(names, rng.randint(1, 2))
                        if rng.random() < 0.1:
                            ks = [""]          # the empty format name can be registered as well
                        op = ["register", ks, f"P{rng.randrange(3) + 1}"]
                    else:
                        fulls = [x for x in known(full_names=True) if "." in x]
                        op = ["set", rng.choice(names), rng.choice(fulls)]
                    if op[0] == "register":
                        ks, ci = list(op[1]), int(op[2][1:]) - 1
                        lines.append(f"api {reg_name} [{val_strs(ks)},{val_cls('m', f'P{ci + 1}', counter[0])}]")
                        register(ks)(classes[ci])
                        impl.append(None)       # compared through the dispatch lines
                    else:
                        lines.append(f"api {set_name} [{val_str(op[1])},{val_str(op[2])}]")
                        setp(op[1], op[2])
                        impl.append("done")
                    hist.append(list(op))
                ck.case(("dispatch", which, repr(hist)), True)
                ck.count(f"stream:dispatch-{which}")
                with tempfile.TemporaryDirectory() as td:
                    td = Path(td)
                    build_tree(td)
                    regular = rng.sample(sorted(REGULAR), 3)
                    odd = rng.sample([r for r, _ in DISPATCH_TREE if r not in REGULAR], 4)
                    for rel in ([only["file"]] if only else regular + odd):
                        path = td / rel
                        for fname, call, is_load in funcs:
                            if only and fname != only["function"]:
                                continue
                            for given in ([only["format_name"]] if only else (None, "", "a", "yml", "yaml", "zz")):
                                calls.clear()
                                case = {"api": which, "history": hist, "function": fname, "file": rel, "format_name": given}
                                files = strs([str(path)] if os.path.isfile(path) else [])
                                g = "n" if given is None else val_str(given)
                                pos = f"{val_str(str(path))},{g}" if is_load else f"o,{val_str(str(path))},{g}"
                                lines.append(f"dispatch {fname} [{pos}] {files}")
                                try:
                                    call(path if rng.random() < 0.5 else str(path), given)
                                    err = None
                                except ValueError as e:
                                    err = e
                                except Exception as e:     # anything else is not the documented behaviour
                                    ck.violation("dispatch-error", f"{which}.{fname}({rel}, format_name={given!r}) raised {e!r}", case)
                                    impl.append("raised " + type(e).__name__)
                                    continue
                                if err is not None:
                                    impl.append(classify_value_error(err) if not calls else "err after-plugin-call")
                                elif calls and all(o is calls[0][1] for _, o in calls):
                                    o = calls[0][1]
                                    impl.append(f"called {strs([n for n, _ in calls])} {enc(full_plugin_name(o))}#{uids[id(o)]}")
                                else:
                                    impl.append("called-several-or-none " + strs([n for n, _ in calls]))
                                ck.count("dispatch-answer:" + impl[-1].split(" ")[0] + ("-" + impl[-1].split(" ")[1] if err is not None else ""))
                                # oracle (independent of the model): the statement read on this call
                                ck.oracle_evals += 1
                                use = oracle_format(fname, rel, dict(DISPATCH_TREE)[rel], given)
                                if use is None:
                                    if err is None or calls:
                                        ck.violation("dispatch-without-format", f"{which}.{fname}({rel}, format_name={given!r}): no "
                                                     f"format can be determined (missing file / no extension) but no ValueError was "
                                                     f"raised (called: {[n for n, _ in calls]})", case)
                                    else:
                                        ck.count("dispatch:no-format-rejected")
                                elif use in known():
                                    try:
                                        want = get(use)
                                    except ValueError as e2:
                                        ck.violation("known-name-not-retrievable", f"{which}: {use!r} is listed by known_*() but "
                                                     f"get_*({use!r}) raises {e2!r}", case)
                                        continue
                                    if err is not None or [c for c in calls] != [(fname, want)]:
                                        ck.count("dispatch:wrong")
                                        ck.violation("dispatch-wrong-plugin", f"{which}.{fname}({rel}, format_name={given!r}) did not "
                                                     f"dispatch to the plugin the registry resolves for {use!r} "
                                                     f"(called: {[(n, type(o).__name__) for n, o in calls]}, error: {err!r})", case)
                                    else:
                                        ck.count("dispatch:resolved-plugin-called")
                                else:
                                    if err is None or calls:
                                        ck.violation("dispatch-unknown-format-accepted", f"{which}.{fname}({rel}, format_name={given!r}): "
                                                     f"format {use!r} is unknown but no ValueError was raised", case)
                                    else:
                                        ck.count("dispatch:unknown-format-rejected")
                                        if not set(known()) <= set(names_in_message(str(err)) or []):
                                            ck.violation("unknown-message", f"{which}.{fname}: ValueError for the unknown format "
                                                         f"{use!r} does not list the known formats", {**case, "message": str(err)})
            yield which, hist, lines, impl


def ext_stream(ck, only=None):
    """(`only`: a recorded case {api, history, methods} to replay)
    supported_file_extensions_data_io / _project_io after random register / set histories with plugin classes that
    override different subsets of the interface methods, against the model (through the regenerated table) and against
    the statement (oracle: the extension is listed iff the short name does not end in `_str` and its plugin's class
    overrides every requested method)."""
    from glotaran.io.interface import DataIoInterface, ProjectIoInterface
    from glotaran.plugin_system import data_io_registration as dreg
    from glotaran.plugin_system import project_io_registration as preg
    from glotaran.testing.plugin_system import monkeypatch_plugin_registry_data_io, monkeypatch_plugin_registry_project_io

    for which in ("project", "data"):
        if only and only["api"] != which:
            continue
        if which == "project":
            base, all_methods = ProjectIoInterface, list(preg.PROJECT_IO_METHODS)
            cm, register, setp, get, known, sup = (monkeypatch_plugin_registry_project_io, preg.register_project_io,
                                                   preg.set_project_plugin, preg.get_project_io, preg.known_project_formats,
                                                   preg.supported_file_extensions_project_io)
            reg_name, set_name, sup_name = "register_project_io", "set_project_plugin", "supported_file_extensions_project_io"
        else:
            base, all_methods = DataIoInterface, list(dreg.DATA_IO_METHODS)
            cm, register, setp, get, known, sup = (monkeypatch_plugin_registry_data_io, dreg.register_data_io,
                                                   dreg.set_data_plugin, dreg.get_data_io, dreg.known_data_formats,
                                                   dreg.supported_file_extensions_data_io)
            reg_name, set_name, sup_name = "register_data_io", "set_data_plugin", "supported_file_extensions_data_io"
        counter = [0]
        uids: dict[int, int] = {}
        keep = []

        def __init__(self, format_name, _base=base):
            _base.__init__(self, format_name)
            uids[id(self)] = counter[0]
            counter[0] += 1
            keep.append(self)

        subsets = [all_methods, all_methods[:2], all_methods[1:2], []]
        classes = [type(f"Q{i}", (base,), {"__module__": "m", "__init__": __init__,
                                          **{m: (lambda self, *a, **k: None) for m in sub}}) for i, sub in enumerate(subsets)]
        names = ["a", "b", "a_str", "_str", "astr", "str"]
        for hi in range(1 if only else ck.n(20, 200)):
            rng = ck.rng
            hist, lines, impl = [], ["reset"], ["reset"]
            with cm({}, create_new_registry=True), warnings.catch_warnings():
                warnings.simplefilter("ignore")
                for step in (only["history"] if only else range(rng.randint(1, 5))):
                    if only:
                        op = step
                    elif rng.random() < 0.8 or not known():
                        op = ["register", rng.sample(names, rng.randint(1, 2)), f"Q{rng.randrange(len(classes))}"]
                    else:
                        fulls = [x for x in known(full_names=True) if "." in x]
                        op = ["set", rng.choice(names), rng.choice(fulls)]
                    if op[0] == "register":
                        ks, ci = list(op[1]), int(op[2][1:])
                        lines.append(f"api {reg_name} [{val_strs(ks)},{val_cls('m', f'Q{ci}', counter[0])}]")
                        register(ks)(classes[ci])
                        impl.append(None)
                    else:
                        lines.append(f"api {set_name} [{val_str(op[1])},{val_str(op[2])}]")
                        setp(op[1], op[2])
                        impl.append("done")
                    hist.append(list(op))
                ck.case(("ext", which, repr(hist)), True)
                ck.count(f"stream:ext-{which}")
                table = core.lst(f"[{uids[id(o)]},{strs(subsets[classes.index(type(o))])}]" for o in keep)
                for methods in ([only["methods"]] if only else ([all_methods[0]], all_methods[:2], all_methods[1:2], all_methods, [])):
                    case = {"api": which, "history": hist, "methods": methods}
                    lines.append(f"supported {sup_name} {strs(methods)} {table}")
                    try:
                        got = list(sup(methods if len(methods) != 1 or rng.random() < 0.5 else methods[0]))
                    except ValueError as e2:
                        impl.append("raised ValueError")
                        ck.violation("known-name-not-retrievable", f"{which}: {sup_name}({methods}) raised {e2!r}: a name listed by "
                                     f"known_*() is not retrievable", case)
                        continue
                    impl.append("exts " + strs(got))
                    ck.oracle_evals += 1
                    want = ["." + k for k in known() if not k.endswith("_str")
                            and all(getattr(type(get(k)), m) is not getattr(base, m) for m in methods)]
                    if got != want:
                        ck.violation("supported-extensions", f"{which}: {sup_name}({methods}) = {got}, the statement gives {want}", case)
            yield which, hist, lines, impl


# ------------------------------------------------------------------------------------------
# import-time registration: load_plugins() over simulated entry points; the regenerated builtin table
# ------------------------------------------------------------------------------------------
GROUP_OF = {"data_io": "glotaran.plugins.data_io", "project_io": "glotaran.plugins.project_io",
            "megacomplex": "glotaran.plugins.megacomplexes"}
REGISTER_FN = {"data_io": "register_data_io", "project_io": "register_project_io", "megacomplex": "register_megacomplex"}
GET_FN = {"data_io": "get_data_io", "project_io": "get_project_io", "megacomplex": "get_megacomplex"}
KNOWN_FN = {"data_io": "known_data_formats", "project_io": "known_project_formats", "megacomplex": "known_megacomplex_names"}


class FakeEntryPoint:
    def __init__(self, group, name, loader):
        self.group, self.name, self._loader = group, name, loader

    def load(self):
        return self._loader()


def builtin_tie(ck):
    """the regenerated table of decorator call sites against the registries as `import glotaran` left them (the real
    load_plugins() over the real entry points of this environment): the model, loading the table's registrations through
    `load`, must list the same names and resolve every short name to the same class; oracle: every builtin short name
    resolves to the builtin class (nothing shadowed it), `builtin_names_unique` read on the real registry."""
    from importlib import metadata

    from glotaran.plugin_system import data_io_registration as dreg
    from glotaran.plugin_system import megacomplex_registration as mreg
    from glotaran.plugin_system import project_io_registration as preg
    from glotaran.plugin_system.base_registry import full_plugin_name

    regs, _eps = bt.extract(core.REPO)
    mods = {"data_io": dreg, "project_io": preg, "megacomplex": mreg}
    real_eps = [e for e in metadata.entry_points() if e.group.startswith("glotaran.plugins")]
    foreign = [e for e in real_eps if not e.value.startswith("glotaran.builtin")]
    ck.extra["entry_points_of_this_environment"] = [f"{e.group}:{e.name}={e.value}" for e in real_eps]
    # model: one entry point per real entry point, carrying the table's call sites of that module (prefix match)
    eps, uid, used = [], 0, set()
    for e in real_eps:
        calls = []
        for i, r in enumerate(regs):
            if i not in used and (r["module"] == e.value or r["module"].startswith(e.value + ".")):
                used.add(i)
                if r["attr"] == "megacomplex":
                    calls.append(f"[{enc(REGISTER_FN[r['attr']])},[{val_str(r['names'][0] if r['names'] else '')},{val_cls(r['module'], r['cls'], uid)}]]")
                else:
                    calls.append(f"[{enc(REGISTER_FN[r['attr']])},[{val_strs(r['names'])},{val_cls(r['module'], r['cls'], uid)}]]")
                uid += max(1, len(r["names"]))
        eps.append(f"[{enc(e.group)},F,[{','.join(calls)}]]")
    lines = ["reset", f"load F [{','.join(eps)}]"]
    impl = ["reset", None]
    case = {"stream": "builtin-table"}
    unused = [regs[i] for i in range(len(regs)) if i not in used]
    if unused and not foreign:
        ck.disagree("builtin-not-an-entry-point", f"decorator call sites that no glotaran.plugins entry point imports: "
                    f"{[(r['module'], r['cls']) for r in unused]}", case)
    for attr, mod in mods.items():
        known = getattr(mod, KNOWN_FN[attr])
        get = getattr(mod, GET_FN[attr])
        lines.append(f"api {KNOWN_FN[attr]} [T]")
        impl.append("names " + strs(known(full_names=True)))
        for k in known():
            lines.append(f"api is_known_{'megacomplex' if attr == 'megacomplex' else attr.replace('_io', '') + '_format'} [{val_str(k)}]")
            impl.append("bool T")
        ck.oracle_evals += 1
        names = [n for r in regs if r["attr"] == attr for n in r["names"]]
        if len(set(names)) != len(names) or any("." in n for n in names) or not all(r["literal"] for r in regs):
            ck.violation("builtin-names-clash", f"{attr}: the builtin decorator call sites register {names}", case)
        for r in regs:
            if r["attr"] != attr:
                continue
            for n in r["names"]:
                try:
                    got = full_plugin_name(get(n))
                except ValueError:
                    got = None
                if got != f"{r['module']}.{r['cls']}" and not foreign:
                    ck.violation("builtin-shadowed", f"{attr}: builtin name {n!r} resolves to {got!r}, the source registers "
                                 f"{r['module']}.{r['cls']} under it", case)
        if not foreign and sorted(known()) != sorted(names):
            ck.violation("builtin-names-differ", f"{attr}: registered short names {known()} but the decorator call sites give {sorted(names)}", case)
    ck.case(("builtin-table",), True)
    ck.count("stream:builtin-table")
    yield "builtins", [], lines, impl


def import_stream(ck):
    """load_plugins() on empty registries over simulated entry points (monkeypatched importlib.metadata.entry_points): builtin
    call sites of the regenerated table (classes with the builtins' module and class names), third-party entry points that
    ask for builtin names, foreign groups, an entry point listed twice, entry points whose import raises (before / between /
    after their registrations, or by registering a dotted name), DEACTIVATE_GTA_PLUGINS.  Model: `load` (loadPlugins)."""
    import sys

    from glotaran.io.interface import DataIoInterface, ProjectIoInterface
    from glotaran.plugin_system import base_registry as br
    from glotaran.plugin_system import data_io_registration as dreg
    from glotaran.plugin_system import megacomplex_registration as mreg
    from glotaran.plugin_system import project_io_registration as preg
    from glotaran.testing.plugin_system import (
        monkeypatch_plugin_registry_data_io,
        monkeypatch_plugin_registry_megacomplex,
        monkeypatch_plugin_registry_project_io,
    )

    if sys.version_info < (3, 12):
        ck.count("import-stream:skipped-python<3.12")
        return
    regs, _ = bt.extract(core.REPO)
    mods = {"data_io": dreg, "project_io": preg, "megacomplex": mreg}
    bases = {"data_io": DataIoInterface, "project_io": ProjectIoInterface}
    rng = ck.rng
    for si in range(ck.n(60, 600)):
        counter = [0]
        uids: dict[int, int] = {}
        keep = []
        mega_uid = [1000]

        def mk(attr, mod, name):
            if attr == "megacomplex":
                cls = type(name, (object,), {"__module__": mod})
                uids[id(cls)] = mega_uid[0]
                mega_uid[0] += 1
                keep.append(cls)
                return cls
            base = bases[attr]

            def __init__(self, format_name, _base=base):
                _base.__init__(self, format_name)
                uids[id(self)] = counter[0]
                counter[0] += 1
                keep.append(self)

            return type(name, (base,), {"__module__": mod, "__init__": __init__})

        # the scenario: a list of entry points = (group, [registration specs], fail position or None)
        def reg_spec(attr, names, mod, name):
            return {"attr": attr, "names": list(names), "module": mod, "cls": name}

        pool = []
        for r in rng.sample(regs, min(len(regs), rng.randint(2, 5))):
            pool.append((GROUP_OF[r["attr"]], [reg_spec(r["attr"], r["names"], r["module"], r["cls"])], None, "builtin"))
        sampled = [x for x in regs if any(sp[1][0]["cls"] == x["cls"] for sp in pool)]
        for _ in range(rng.randint(1, 3)):      # third party asking for builtin names (and a new one)
            r = rng.choice(sampled) if sampled and rng.random() < 0.7 else rng.choice(regs)
            names = rng.sample(r["names"], rng.randint(1, len(r["names"]))) + (["third"] if rng.random() < 0.5 else [])
            tmod, tname = "third.party", "Plug" + r["cls"][:3]
            if r["attr"] == "megacomplex":       # register_megacomplex takes one name per call
                specs = [reg_spec("megacomplex", [n], tmod, tname) for n in names]
            else:
                specs = [reg_spec(r["attr"], names, tmod, tname)]
            if rng.random() < 0.3:
                specs.append(reg_spec(rng.choice(list(GROUP_OF)), ["extra"], "third.party", "Extra"))
            fail = rng.choice([None, None, None, 0, len(specs), "dotted"])
            if fail == "dotted":                 # the last registration of the module asks for a dotted name: ValueError
                last = specs[-1]
                last["names"] = ["not.allowed"] if last["attr"] == "megacomplex" else last["names"] + ["not.allowed"]
            group = rng.choice([GROUP_OF[r["attr"]], "glotaran.plugins", "glotaran.plugins_more", "console_scripts", "glotaran.plugin"])
            pool.append((group, specs, fail, "third"))
        rng.shuffle(pool)
        if rng.random() < 0.3:
            pool.insert(rng.randint(0, len(pool)), rng.choice(pool))     # an entry point listed twice
        deactivated = rng.random() < 0.1
        class_cache = {}
        performed = []       # (attr, names, cls object) in execution order, as the real run made them
        model_eps = []
        outs = []            # outcome of every registration call made, as the model prints it
        n_warned = [0]

        def loader_for(idx, group, specs, fail):
            def load():
                rec = model_eps[idx]
                rec["loaded"] = True
                for j, sp in enumerate(specs):
                    if fail == j:
                        rec["fails"] = True
                        raise ImportError("simulated failing plugin import")
                    key = (sp["attr"], sp["module"], sp["cls"])
                    cls = class_cache.setdefault(key, mk(sp["attr"], sp["module"], sp["cls"]))
                    names = list(sp["names"])
                    base_uid = uids[id(cls)] if sp["attr"] == "megacomplex" else counter[0]
                    if sp["attr"] == "megacomplex":
                        rec["calls"].append(f"[{enc(REGISTER_FN['megacomplex'])},[{val_str(names[0])},{val_cls(sp['module'], sp['cls'], base_uid)}]]")
                    else:
                        rec["calls"].append(f"[{enc(REGISTER_FN[sp['attr']])},[{val_strs(names)},{val_cls(sp['module'], sp['cls'], base_uid)}]]")
                    performed.append((sp["attr"], names, cls))
                    dpos = [i for i, k in enumerate(names) if "." in k]
                    proc = names[: dpos[0]] if dpos else names
                    with warnings.catch_warnings(record=True) as w1:
                        warnings.simplefilter("always")
                        try:
                            if sp["attr"] == "megacomplex":
                                mods["megacomplex"].register_megacomplex(names[0], cls)
                            else:
                                getattr(mods[sp["attr"]], REGISTER_FN[sp["attr"]])(names)(cls)
                            err = None
                        except ValueError as e:
                            err = e
                    n_warned[0] += len([x for x in w1 if issubclass(x.category, br.PluginOverwriteWarning)])
                    flags = [k in warned_keys(w1, br.PluginOverwriteWarning) for k in proc]
                    if sp["attr"] == "megacomplex":
                        outs.append("err dotted" if err else f"ok {bool_(flags[0])}")
                    elif err:
                        outs.append("err dotted" if not flags else "err dotted-after " + core.lst(map(bool_, flags)))
                    else:
                        outs.append("oks " + core.lst(map(bool_, flags)))
                    if err is not None:
                        rec["fails"] = True
                        raise err
                if fail == len(specs):
                    rec["fails"] = True
                    raise ImportError("simulated failing plugin import")
            return load

        eps = []
        for idx, (group, specs, fail, kind) in enumerate(pool):
            model_eps.append({"group": group, "calls": [], "fails": False, "loaded": False, "kind": kind})
            eps.append(FakeEntryPoint(group, f"ep{idx}", loader_for(idx, group, specs, fail)))
        hist = [{"group": g, "registers": [(sp["attr"], sp["names"], sp["module"] + "." + sp["cls"]) for sp in specs],
                 "fail": fail} for g, specs, fail, _ in pool]
        case = {"stream": "import", "entry_points": hist, "deactivated": deactivated}
        lines, impl = ["reset"], ["reset"]
        old_env = os.environ.pop("DEACTIVATE_GTA_PLUGINS", None)
        old_eps = br.metadata.entry_points
        raised = None
        with monkeypatch_plugin_registry_megacomplex({}, create_new_registry=True), \
                monkeypatch_plugin_registry_data_io({}, create_new_registry=True), \
                monkeypatch_plugin_registry_project_io({}, create_new_registry=True):
            try:
                if deactivated:
                    os.environ["DEACTIVATE_GTA_PLUGINS"] = "1"
                br.metadata.entry_points = lambda: list(eps)
                try:
                    br.load_plugins()
                except (ImportError, ValueError) as e:
                    raised = e
                n_warn = n_warned[0]
            finally:
                br.metadata.entry_points = old_eps
                os.environ.pop("DEACTIVATE_GTA_PLUGINS", None)
                if old_env is not None:
                    os.environ["DEACTIVATE_GTA_PLUGINS"] = old_env
            # the model gets the scenario as the real run unfolded it: an entry point that was never reached has the calls
            # it would make, taken from its specification (fresh uids that are never compared)
            ghost = 5000
            for idx, (group, specs, fail, kind) in enumerate(pool):
                rec = model_eps[idx]
                if not rec["loaded"]:
                    for sp in specs:
                        if sp["attr"] == "megacomplex":
                            rec["calls"].append(f"[{enc(REGISTER_FN['megacomplex'])},[{val_str(sp['names'][0])},{val_cls(sp['module'], sp['cls'], ghost)}]]")
                        else:
                            rec["calls"].append(f"[{enc(REGISTER_FN[sp['attr']])},[{val_strs(sp['names'])},{val_cls(sp['module'], sp['cls'], ghost)}]]")
                        ghost += 10
                    rec["fails"] = fail is not None
            lines.append(f"load {bool_(deactivated)} [" + ",".join(
                f"[{enc(r['group'])},{bool_(r['fails'])},[{','.join(r['calls'])}]]" for r in model_eps) + "]")
            impl.append(f"loaded {bool_(raised is not None)} " + strs(outs))
            state = {}
            for attr, mod in mods.items():
                known = getattr(mod, KNOWN_FN[attr])
                get = getattr(mod, GET_FN[attr])
                lines.append(f"api {KNOWN_FN[attr]} [T]")
                impl.append("names " + strs(known(full_names=True)))
                state[attr] = {}
                for k in known(full_names=True):
                    o = get(k)
                    state[attr][k] = o
                    lines.append(f"api {GET_FN[attr]} [{val_str(k)}]")
                    impl.append(f"found {enc(br.full_plugin_name(o))}#{uids.get(id(o), '?')}")
        # ---- oracle: the statement read on this scenario, from the scenario alone ------------------------------------------
        ck.oracle_evals += 1
        expect_first: dict = {}
        reachable = []
        stop = False
        for (group, specs, fail, kind) in pool:
            if deactivated or stop:
                break
            if not group.startswith("glotaran.plugins"):
                continue
            for j, sp in enumerate(specs):
                if fail == j:
                    stop = True
                    break
                full = sp["module"] + "." + sp["cls"]
                for n in sp["names"]:
                    if "." in n:                 # refused: the import of this module ends here
                        stop = True
                        break
                    expect_first.setdefault((sp["attr"], n), full)
                    reachable.append((sp["attr"], full if sp["attr"] == "megacomplex" else f"{full}_{n}", full))
                if stop:
                    break
            if stop:
                break
            if fail == len(specs):
                stop = True
                break
        should_raise = stop
        if bool(raised) != should_raise:
            ck.violation("import-failure-handling", f"load_plugins() {'raised ' + repr(raised) if raised else 'returned'} although "
                         f"the scenario {'contains' if should_raise else 'does not contain'} a loaded entry point that fails", case)
        for (attr, n), full in expect_first.items():
            got = state[attr].get(n)
            if got is None or br.full_plugin_name(got) != full:
                ck.violation("import-first-registration-lost", f"{attr}: {n!r} was first registered by {full} during load_plugins() "
                             f"but resolves to {None if got is None else br.full_plugin_name(got)}", case)
        for attr, fk, full in reachable:
            got = state[attr].get(fk)
            if got is None or br.full_plugin_name(got) != full:
                ck.violation("plugin-unreachable", f"{attr}: plugin {full} registered during load_plugins() is not retrievable "
                             f"under {fk!r}", case)
        for attr in state:
            shorts = {k for k in state[attr] if "." not in k}
            if shorts != {n for (a, n) in expect_first if a == attr}:
                ck.violation("import-unexpected-names", f"{attr}: names {sorted(shorts)} are registered, the loaded entry points "
                             f"register {sorted(n for (a, n) in expect_first if a == attr)}", case)
        ck.case(("import", repr(hist), deactivated), bool(expect_first))
        ck.count("stream:import")
        ck.count("import:" + ("deactivated" if deactivated else "raised" if raised else "completed"))
        ck.count(f"import:warnings-{min(n_warn, 3)}")
        yield "import", hist, lines, impl


def compare_streams(ck, gen, key, tag):
    """run the generated (lines, implementation answers) of several histories through the model in one batch"""
    all_lines, all_impl, owner, metas = [], [], [], []
    for which, hist, lines, impl in gen:
        metas.append((which, hist))
        all_lines += lines
        all_impl += impl
        owner += [len(metas) - 1] * len(lines)
    model = core.lean_driver(PROP, all_lines)
    seen = set()
    for i, (a, b) in enumerate(zip(all_impl, model)):
        if a is not None and a != b and owner[i] not in seen:
            seen.add(owner[i])
            which, hist = metas[owner[i]]
            ck.disagree(key, f"{which}: after {all_lines[i]!r}: implementation {a!r}, model {b!r}",
                        {"api": which, "history": hist, "line": all_lines[i]})
    return metas


def run(ck):
    # corpus first
    corpus = [c["history"] for c in core.load_corpus(PROP)]
    hists = [[tuple(x if not isinstance(x, list) else x for x in op) for op in h] for h in corpus]
    hists = [[(op[0], op[1], op[2]) if len(op) == 3 else tuple(op) for op in h] for h in hists]
    if hists:
        compare(ck, hists, "corpus")
    # the two witnesses of the recorded finding (re-derived on the real code on every run)
    compare(ck, [list(w) for w in WITNESSES], "collision")
    alpha = alphabet(full=not ck.quick)
    if ck.quick:
        space = [list(h) for n in (1, 2, 3) for h in itertools.product(alpha, repeat=n)]
        ck.rng.shuffle(space)
        hists = space[:400]
        hists += [[ck.rng.choice(alphabet(True) + COLLIDE_OPS + EXTRA_OPS) for _ in range(12)] for _ in range(150)]
        compare(ck, hists, "sampled")
    else:
        total = 0
        for n in (1, 2, 3, 4):
            batch = []
            for h in itertools.product(alpha, repeat=n):
                batch.append(list(h))
                if len(batch) >= 4000:
                    compare(ck, batch, f"exhaustive-{n}")
                    total += len(batch)
                    batch = []
            if batch:
                compare(ck, batch, f"exhaustive-{n}")
                total += len(batch)
        ck.exhaustive = True
        ck.extra["exhaustive_space"] = f"all {total} histories of length <= 4 over {len(alpha)} operations"
        compare(ck, [[ck.rng.choice(alpha + COLLIDE_OPS + EXTRA_OPS) for _ in range(12)] for _ in range(2000)], "random-12")
    # public API (all three registries, through the regenerated table)
    def counted(gen):
        for which, hist, lines, impl in gen:
            ck.case(("api", which, repr(hist)), any(h[0] == "register" for h in hist))
            ck.count(f"stream:api-{which}")
            for h in hist:
                ck.count(f"api:{h[0]}-{h[1]}")
            yield which, hist, lines, impl
    metas = compare_streams(ck, counted(public_api(ck)), "model-vs-public-api", "api")
    infer_stream(ck)
    compare_streams(ck, dispatch_stream(ck), "dispatch-model-vs-impl", "dispatch")
    compare_streams(ck, ext_stream(ck), "extensions-model-vs-impl", "ext")
    compare_streams(ck, builtin_tie(ck), "builtin-table-vs-impl", "builtins")
    compare_streams(ck, import_stream(ck), "import-model-vs-impl", "import")
    ck.sample({"history": [["addinst", ["a"], "X"], ["addinst", ["a"], "Z"], ["set", "a", "m.B_a"]],
               "observed_after_each_op": "registered_plugins(full/short) + lookup of every key"})
    if metas:
        ck.sample({"api": metas[0][0], "history": metas[0][1]})


def search(ck):
    """widened oracle-only sweep on the real code"""
    alpha = alphabet(True) + EXTRA_OPS
    for _ in range(ck.n(3000, 30000)):
        h = [ck.rng.choice(alpha) for _ in range(ck.rng.randint(1, 10))]
        run_history(ck, h)
        if ck.violations:
            return
    # the oracles of the public API and of the convenience functions (the model's answers are not used here)
    for _ in public_api(ck):
        if ck.violations:
            return
    for _ in dispatch_stream(ck):
        if ck.violations:
            return
    for _ in ext_stream(ck):
        if ck.violations:
            return
    for _ in builtin_tie(ck):
        if ck.violations:
            return
    for _ in import_stream(ck):
        if ck.violations:
            return


def replay(ck, case):
    c = case.get("case", case)
    if "disagreements" in case:
        for d in case["disagreements"]:
            h = [tuple(op) for op in d["case"]["history"]]
            if d["case"].get("api"):
                continue
            compare(ck, [h], "replay")
        return
    if c.get("api") and "function" in c:        # a call of a convenience function
        compare_streams(ck, dispatch_stream(ck, only=c), "dispatch-model-vs-impl", "dispatch")
        for d in ck.disagreements:
            print("DISAGREEMENT", d["what"])
        return
    if c.get("api") and "methods" in c:         # supported_file_extensions_*
        compare_streams(ck, ext_stream(ck, only=c), "extensions-model-vs-impl", "ext")
        for d in ck.disagreements:
            print("DISAGREEMENT", d["what"])
        return
    if c.get("api"):
        print("replay of mixed public-API histories: re-run the check with the recorded seed")
        return
    h = [tuple(op) for op in c["history"]]
    compare(ck, [h], "replay")
    for d in ck.disagreements:
        print("DISAGREEMENT", d["what"])
