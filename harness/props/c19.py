"""C19 — plugin registry: correspondence (model vs real code) + oracle (statement on real code)."""
from __future__ import annotations

import itertools
import tempfile
import warnings
from pathlib import Path

from harness import core
from harness.core import enc, strs, bool_

PROP = "C19"
REQUIRED_THEOREMS = [
    "step_keeps_short", "run_keeps_short", "first_registration_wins", "conflict_warns_and_keeps",
    "set_plugin_repoints", "dotted_short_names_rejected", "set_plugin_unknown_rejected",
    "lookup_spec", "registered_names_complete", "every_plugin_reachable_partial",
    "every_plugin_reachable_counterexample",
]
TRUSTED = [
    "hand-written model lean/GlotaranModel/C19.lean of glotaran/plugin_system/base_registry.py "
    "(add_plugin_to_registry, add_instantiated_plugin_to_registry, set_plugin, get_plugin_from_registry, "
    "registered_plugins), tied to the code by differential execution only",
    "Python dict semantics (insertion replaces, membership by string equality)",
]
ASSUMPTIONS = [
    "full_plugin_name(plugin) = module + '.' + class name (always contains '.')",
    "registries are only modified through the functions of base_registry.py",
]
RULE = (
    "histories over an alphabet of register / set_plugin operations (short names a, b, the dotted a.b and dotted names that "
    "coincide with full names / full keys the registry holds, "
    "4 plugin classes of which two share a full name, class- and instance-style registration, 5 set targets); "
    "after every operation every key of the registry and of a fixed key universe is looked up and "
    "registered_plugins(full/short) is read, on the real code and on the Lean model; a history is non-trivial "
    "when it contains at least one accepted registration; distinct = distinct operation sequences. "
    "quick: seeded sample of the exhaustive length<=3 space + random length-12 histories + the public "
    "register_data_io/register_project_io/register_megacomplex API; thorough: every history of length <= 4; "
    "dispatch stream: after random register/set histories over the names a, b, yml, yaml with three recording plugin "
    "classes all ten load_*/save_* convenience functions are called with an explicit and with an inferred format for every "
    "name and an unknown one: exactly the resolved plugin's method must be called, unknown names must raise ValueError"
)

# ------------------------------------------------------------------------------------------
# alphabet
# ------------------------------------------------------------------------------------------
CLASSES = {  # tag -> (module, name)
    "X": ("m", "A"),
    "Y": ("m", "A"),   # a different class object with the same full name
    "Z": ("m", "B"),
    "U": ("m", "A_b"),  # used by the full-key collision finding
}
SHORT = ["a", "b", "a.b"]
UNIVERSE = ["a", "b", "c", "b_c", "a.b", "m.A", "m.B", "m.A_a", "m.A_b", "m.B_a", "m.B_b", "m.A_b_c", "zz"]


def alphabet(full: bool):
    ops = []
    for k in SHORT:
        for c in ("X", "Y", "Z"):
            ops.append(("addinst", [k], c))
    for k in ("a", "b"):
        for c in ("X", "Z"):
            ops.append(("add", k, c))
    for k, f in (("a", "m.A_a"), ("a", "m.B_a"), ("b", "m.A"), ("a", "nodot"), ("a.b", "m.A"), ("b", "m.B_b")):
        ops.append(("set", k, f))
    # dotted short names that coincide with keys the registry may already hold (full names, full keys): they must be
    # rejected like any other dotted name (seeded change C19-2: validation skipped for names already in the registry)
    ops.append(("add", "m.A", "Z"))
    ops.append(("addinst", ["m.A_a"], "Z"))
    ops.append(("addinst", ["m.B_a"], "X"))
    if full:
        ops.append(("add", "m.B", "X"))
        ops.append(("addinst", ["a", "b"], "Z"))
        ops.append(("addinst", ["a", "a.b", "b"], "X"))
    return ops


# ------------------------------------------------------------------------------------------
# the real code, driven op by op
# ------------------------------------------------------------------------------------------
class Real:
    """a fresh registry dict + plugin classes whose instances carry a uid"""

    def __init__(self, api="base"):
        from glotaran.plugin_system import base_registry as br

        self.br = br
        self.api = api
        self.reg: dict = {}
        self.uid = 0
        self.uids: dict[int, int] = {}
        self.keep = []
        self.classes = {}
        outer = self
        for tag, (mod, name) in CLASSES.items():
            def __init__(self, format_name, _outer=outer):
                _outer.uids[id(self)] = _outer.uid
                _outer.uid += 1
                _outer.keep.append(self)
                self.format = format_name
            self.classes[tag] = type(name, (object,), {"__module__": mod, "__init__": __init__})

    def uid_of(self, obj):
        return self.uids[id(obj)]

    def show(self, obj):
        return f"{enc(self.br.full_plugin_name(obj))}#{self.uid_of(obj)}"

    def apply(self, op):
        """returns (protocol line for the model, canonical implementation answer)"""
        br = self.br
        kind = op[0]
        with warnings.catch_warnings(record=True) as w:
            warnings.simplefilter("always")
            try:
                if kind == "add":
                    _, key, tag = op
                    cls = self.classes[tag]
                    # class-style plugin (megacomplex): the class object itself, fresh uid
                    sub = type(cls.__name__, (cls,), {"__module__": cls.__module__})
                    self.uids[id(sub)] = self.uid
                    uid = self.uid
                    self.uid += 1
                    self.keep.append(sub)
                    mod, name = CLASSES[tag]
                    line = f"add {enc(key)} {enc(mod)} {enc(name)} {uid} ~"
                    br.add_plugin_to_registry(key, sub, self.reg, "set_x_plugin")
                    warned = [x for x in w if issubclass(x.category, br.PluginOverwriteWarning)]
                    return line, f"ok {bool_(bool(warned))}"
                if kind == "addinst":
                    _, keys, tag = op
                    mod, name = CLASSES[tag]
                    line = f"addinst {strs(keys)} {enc(mod)} {enc(name)} {self.uid}"
                    flags = []
                    # per-key warning flags: run the real function on the whole key list, then attribute
                    # warnings to keys through the old_key recorded in the warning message
                    try:
                        br.add_instantiated_plugin_to_registry(list(keys), self.classes[tag], self.reg, "set_x_plugin")
                    except ValueError:
                        done = self._processed(keys)
                        flags = self._flags(w, keys[:done])
                        if not flags:
                            return line, "err dotted"
                        return line, "err dotted-after " + core.lst(bool_(f) for f in flags)
                    flags = self._flags(w, keys)
                    return line, "oks " + core.lst(bool_(f) for f in flags)
                if kind == "set":
                    _, key, full = op
                    line = f"set {enc(key)} {enc(full)}"
                    try:
                        br.set_plugin(key, full, self.reg)
                    except ValueError as e:
                        if "isn't allowed to contain the character '.'" in str(e):
                            return line, "err dotted"
                        known = sorted(k for k in self.reg if "." in k)
                        # the message must name the known full names
                        named = all(repr(k) in str(e) for k in known)
                        return line, "err unknown-full " + strs(known) + ("" if named else " MESSAGE-INCOMPLETE")
                    return line, "done"
                if kind == "get":
                    _, key = op
                    line = f"get {enc(key)}"
                    try:
                        p = br.get_plugin_from_registry(key, self.reg, "nf")
                    except ValueError:
                        return line, "err not-found"
                    return line, f"found {self.show(p)}"
                if kind == "registered":
                    _, full = op
                    return f"registered {bool_(full)}", "names " + strs(br.registered_plugins(self.reg, full_names=full))
            except ValueError as e:
                if kind == "add" and "isn't allowed in the name of a plugin" in str(e):
                    return line, "err dotted"
                raise
        raise AssertionError(op)

    def _processed(self, keys):
        n = 0
        for k in keys:
            if "." in k:
                break
            n += 1
        return n

    def _flags(self, w, keys):
        old = warned_keys(w, self.br.PluginOverwriteWarning)
        return [k in old for k in keys]


def warned_keys(w, category):
    """access names for which a PluginOverwriteWarning was issued"""
    import re
    out = []
    for x in w:
        if issubclass(x.category, category):
            m = re.search(r"access_name '([^']*)'", str(x.message))
            out.append(m.group(1) if m else "?")
    return out


def observe_ops(real: Real):
    keys = sorted(set(UNIVERSE) | set(real.reg.keys()))
    return [("registered", True), ("registered", False)] + [("get", k) for k in keys]


# ------------------------------------------------------------------------------------------
# oracle: the statement of C19 evaluated on the real registry, independent of the model
# ------------------------------------------------------------------------------------------
class Oracle:
    def __init__(self, ck, real: Real):
        self.ck, self.real = ck, real
        self.expect: dict[str, object] = {}          # short name -> object it must resolve to
        self.registered: list[tuple[str, str]] = []   # (full key, full name) of every accepted registration

    def before(self, op):
        self.snapshot = dict(self.real.reg)

    def after(self, op, answer, history):
        ck, real, br = self.ck, self.real, self.real.br
        ck.oracle_evals += 1
        reg = real.reg
        kind = op[0]
        case = {"history": history}
        if kind in ("add", "addinst"):
            keys = [op[1]] if kind == "add" else list(op[1])
            for k in keys:
                if "." in k:
                    if not answer.startswith("err dotted"):
                        ck.violation("dotted-accepted", f"short name {k!r} containing '.' was accepted", case)
                    break
                if k not in self.expect and k in reg:
                    self.expect[k] = reg[k]      # first registration under k
            # every accepted registration is remembered with its full key
            mod, name = CLASSES[op[2]]
            full = f"{mod}.{name}"
            for k in keys:
                if "." in k:
                    break
                self.registered.append((full if kind == "add" else f"{full}_{k}", full))
            if answer.startswith("err dotted") and kind == "add" and reg != self.snapshot:
                ck.violation("dotted-mutated", "rejected registration changed the registry", case)
        elif kind == "set":
            if answer == "done":
                self.expect[op[1]] = self.snapshot[op[2]]
            elif reg != self.snapshot:
                ck.violation("set-rejected-mutated", "rejected set_plugin changed the registry", case)
            if "." in op[1] and answer != "err dotted":
                ck.violation("dotted-accepted", f"set_plugin accepted dotted short name {op[1]!r}", case)
            if "MESSAGE-INCOMPLETE" in answer:
                ck.violation("unknown-message", "ValueError of set_plugin does not name the known plugins", case)
        # first registration wins / re-pointing
        for k, obj in self.expect.items():
            if reg.get(k) is not obj:
                ck.violation("short-name-replaced", f"short name {k!r} no longer resolves to the plugin first "
                             f"registered / last set under it", case)
        # every registered plugin reachable under its full key
        for fk, full in self.registered:
            got = reg.get(fk)
            if got is None or br.full_plugin_name(got) != full:
                other = None if got is None else br.full_plugin_name(got)
                collide = other is not None and other != full and (fk.startswith(other + "_") or other.startswith(full))
                key = "fullkey-underscore-collision" if collide else "plugin-unreachable"
                ck.violation(key, f"plugin {full!r} registered under {fk!r} is not retrievable there (found {other!r})", case)


# ------------------------------------------------------------------------------------------
def run_history(ck, hist, api="base", with_oracle=True):
    """returns (protocol lines, implementation answers, per-line op index)"""
    real = Real(api)
    orc = Oracle(ck, real) if with_oracle else None
    lines, impl = ["reset"], ["reset"]
    done = []
    for op in hist:
        if orc:
            orc.before(op)
        line, ans = real.apply(op)
        lines.append(line)
        impl.append(ans)
        done.append(list(op))
        if orc:
            orc.after(op, ans, [list(o) for o in done])
        for o in observe_ops(real):
            l, a = real.apply(o)
            lines.append(l)
            impl.append(a)
    return lines, impl


def compare(ck, hists, tag):
    all_lines, all_impl, owner = [], [], []
    for hi, h in enumerate(hists):
        lines, impl = run_history(ck, h)
        all_lines += lines
        all_impl += impl
        owner += [hi] * len(lines)
        nontrivial = any(a.startswith("ok") or a.startswith("oks") for a in impl)
        ck.case(("hist", tuple(map(repr, h))), nontrivial)
        for a in impl:
            ck.count("answer:" + a.split(" ")[0] + ("-" + a.split(" ")[1] if a.startswith("err") else ""))
        ck.count(f"stream:{tag}")
        ck.count(f"len:{len(h)}")
    model = core.lean_driver(PROP, all_lines)
    bad_hist = {}
    for i, (a, b) in enumerate(zip(all_impl, model)):
        if a != b and owner[i] not in bad_hist:
            bad_hist[owner[i]] = (all_lines[i], a, b)
    for hi, (line, a, b) in bad_hist.items():
        h = shrink(ck, hists[hi]) if len(ck.disagreements) < 2 else hists[hi]
        ck.disagree("model-vs-impl", f"after {line!r}: implementation {a!r}, model {b!r}",
                    {"history": [list(o) for o in h]})
    return len(bad_hist)


def differs(ck, h):
    lines, impl = run_history(ck, h, with_oracle=False)
    return core.lean_driver(PROP, lines) != impl


def shrink(ck, h):
    h = list(h)
    changed = True
    while changed and len(h) > 1:
        changed = False
        for i in range(len(h)):
            cand = h[:i] + h[i + 1:]
            try:
                if differs(ck, cand):
                    h, changed = cand, True
                    break
            except Exception:
                pass
    return h


# ------------------------------------------------------------------------------------------
# public API streams (register_* inside monkeypatched registries) + dispatch
# ------------------------------------------------------------------------------------------
def public_api(ck):
    import xarray as xr
    from glotaran.io.interface import DataIoInterface, ProjectIoInterface
    from glotaran.plugin_system import data_io_registration as dreg
    from glotaran.plugin_system import megacomplex_registration as mreg
    from glotaran.plugin_system import project_io_registration as preg
    from glotaran.plugin_system.base_registry import PluginOverwriteWarning, full_plugin_name
    from glotaran.testing.plugin_system import (
        monkeypatch_plugin_registry_data_io,
        monkeypatch_plugin_registry_megacomplex,
        monkeypatch_plugin_registry_project_io,
    )

    calls = []

    def mk_data(mod, name):
        def load_dataset(self, file_name, **kw):
            calls.append(("load", self))
            return xr.Dataset({"data": (("a",), [1.0])})

        def save_dataset(self, dataset, file_name, **kw):
            calls.append(("save", self))

        return type(name, (DataIoInterface,), {"__module__": mod, "load_dataset": load_dataset, "save_dataset": save_dataset})

    def mk_proj(mod, name):
        def load_parameters(self, file_name, **kw):
            calls.append(("load", self))
            from glotaran.parameter import Parameters
            return Parameters.from_list([1.0])

        def save_parameters(self, parameters, file_name, **kw):
            calls.append(("save", self))

        return type(name, (ProjectIoInterface,), {"__module__": mod, "load_parameters": load_parameters,
                                                 "save_parameters": save_parameters})

    n_hist = ck.n(60, 600)
    for which in ("data", "project", "megacomplex"):
        for hi in range(n_hist):
            rng = ck.rng
            if which == "data":
                cm, mk = monkeypatch_plugin_registry_data_io, mk_data
                register = lambda names, cls: dreg.register_data_io(names)(cls)
                setp, get, known = dreg.set_data_plugin, dreg.get_data_io, dreg.known_data_formats
            elif which == "project":
                cm, mk = monkeypatch_plugin_registry_project_io, mk_proj
                register = lambda names, cls: preg.register_project_io(names)(cls)
                setp, get, known = preg.set_project_plugin, preg.get_project_io, preg.known_project_formats
            else:
                cm = monkeypatch_plugin_registry_megacomplex
                mk = lambda mod, name: type(name, (object,), {"__module__": mod})
                register = lambda names, cls: [mreg.register_megacomplex(n, cls) for n in ([names] if isinstance(names, str) else names)]
                setp, get, known = mreg.set_megacomplex_plugin, mreg.get_megacomplex, mreg.known_megacomplex_names
            classes = {t: mk(*CLASSES[t]) for t in ("X", "Y", "Z")}
            hist, lines, impl = [], ["reset"], ["reset"]
            expect = {}
            uid = 0
            uids = {}
            with cm({}, create_new_registry=True):
                for _ in range(rng.randint(2, 8)):
                    r = rng.random()
                    with warnings.catch_warnings(record=True) as w:
                        warnings.simplefilter("always")
                        if r < 0.6:
                            keys = rng.sample(["a", "b", "c"], rng.randint(1, 2))
                            if rng.random() < 0.15:
                                keys.insert(rng.randint(0, len(keys)), "a.b")
                            elif rng.random() < 0.2:
                                dotted = [x for x in known(full_names=True) if "." in x]
                                if dotted:   # a dotted name the registry already knows (full name / full key)
                                    keys.insert(rng.randint(0, len(keys)), rng.choice(dotted))
                            tag = rng.choice("XYZ")
                            mod, name = CLASSES[tag]
                            hist.append(["register", keys, tag])
                            before = {k: (get(k) if k in known() else None) for k in ["a", "b", "c"]}
                            try:
                                register(list(keys), classes[tag])
                                ans_err = None
                            except ValueError:
                                ans_err = "dotted"
                            dpos = [i for i, k in enumerate(keys) if "." in k]
                            dk = keys[dpos[0]] if dpos else None
                            proc = keys[: dpos[0]] if dpos else keys
                            if dpos and ans_err is None:
                                ck.violation("dotted-accepted", f"{which}: short name {dk!r} containing '.' was accepted",
                                             {"api": which, "history": hist})
                            flags = []
                            wk = warned_keys(w, PluginOverwriteWarning)
                            for k in proc:
                                old = before[k]
                                should = old is not None and full_plugin_name(old) != f"{mod}.{name}"
                                got = k in wk
                                flags.append(got)
                                if got != should:
                                    ck.violation("warning-mismatch", f"{which}: conflicting registration of {k!r}: "
                                                 f"warning issued={got}, expected={should}", {"api": which, "history": hist})
                                if old is None:
                                    expect[k] = get(k)
                            if which == "megacomplex":
                                # class-style: one `add` per key, uid = per registration
                                for i, k in enumerate(proc + ([dk] if ans_err else [])):
                                    lines.append(f"add {enc(k)} {enc(mod)} {enc(name)} {uid} ~")
                                    uid += 1
                                    if "." in k:
                                        impl.append("err dotted")
                                    else:
                                        impl.append(f"ok {bool_(flags[i])}")
                            else:
                                lines.append(f"addinst {strs(keys)} {enc(mod)} {enc(name)} {uid}")
                                uid += len(proc) + (1 if ans_err else 0)
                                if ans_err:
                                    impl.append("err dotted" if not flags else "err dotted-after " + core.lst(map(bool_, flags)))
                                else:
                                    impl.append("oks " + core.lst(map(bool_, flags)))
                        elif r < 0.8:
                            k = rng.choice(["a", "b", "a.b"])
                            fulls = [x for x in known(full_names=True) if "." in x] + ["m.Nope", "nodot"]
                            f = rng.choice(fulls)
                            hist.append(["set", k, f])
                            lines.append(f"set {enc(k)} {enc(f)}")
                            try:
                                target = get(f) if f in known(full_names=True) else None
                                setp(k, f)
                                impl.append("done")
                                expect[k] = target
                            except ValueError as e:
                                if "." in k:
                                    impl.append("err dotted")
                                else:
                                    impl.append("err unknown-full " + strs(sorted(x for x in known(full_names=True) if "." in x)))
                        else:
                            k = rng.choice(["a", "b", "c", "zz"])
                            hist.append(["lookup", k])
                            lines.append(f"get {enc(k)}")
                            try:
                                p = get(k)
                                impl.append("found " + enc(full_plugin_name(p)))
                            except ValueError as e:
                                impl.append("err not-found")
                                if not all(repr(n)[1:-1] in str(e) for n in known()):
                                    ck.violation("unknown-message", f"{which}: ValueError for unknown name does not list the "
                                                 f"known names", {"api": which, "history": hist, "message": str(e)})
                    ck.oracle_evals += 1
                    for k, obj in expect.items():
                        if get(k) is not obj:
                            ck.violation("short-name-replaced", f"{which}: short name {k!r} no longer resolves to the "
                                         f"plugin first registered / last set", {"api": which, "history": hist})
                # names at the end
                lines.append("registered T")
                impl.append("names " + strs(known(full_names=True)))
                lines.append("registered F")
                impl.append("names " + strs(known()))
                # dispatch (data / project): the convenience functions use exactly the resolved plugin
                if which in ("data", "project") and known():
                    with tempfile.TemporaryDirectory() as td:
                        for fmt in known():
                            calls.clear()
                            path = Path(td) / f"f.{fmt}"
                            path.write_text("x")
                            try:
                                if which == "data":
                                    dreg.load_dataset(path)                      # inferred from the extension
                                    dreg.load_dataset(path, format_name=fmt)     # given
                                    dreg.save_dataset(xr.Dataset({"data": (("a",), [1.0])}), Path(td) / f"new.{fmt}")
                                else:
                                    preg.load_parameters(path)
                                    preg.load_parameters(path, format_name=fmt)
                                    from glotaran.parameter import Parameters
                                    preg.save_parameters(Parameters.from_list([1.0]), Path(td) / f"new.{fmt}")
                            except Exception as e:
                                ck.violation("dispatch-error", f"{which}: convenience function failed for registered format {fmt!r}: {e!r}",
                                             {"api": which, "history": hist})
                                continue
                            ck.oracle_evals += 1
                            want = get(fmt)
                            if [c[1] for c in calls] != [want, want, want]:
                                ck.violation("dispatch-wrong-plugin", f"{which}: load/save for format {fmt!r} did not dispatch to the "
                                             "plugin the registry resolves", {"api": which, "history": hist})
            yield which, hist, lines, impl


# ------------------------------------------------------------------------------------------
# dispatch of the load/save convenience functions (all ten) after register / set_plugin histories
# ------------------------------------------------------------------------------------------
def dispatch_stream(ck):
    """The last clause of the statement: every load_*/save_* convenience function hands the call to exactly the plugin
    the registry resolves for the *given* format name, or for the format inferred from the file name (the extension;
    'yml' is read as 'yaml'; a folder as 'yaml' for results) — and raises ValueError when that name is unknown."""
    import types
    import xarray as xr
    from glotaran.io.interface import DataIoInterface, ProjectIoInterface
    from glotaran.plugin_system import data_io_registration as dreg
    from glotaran.plugin_system import project_io_registration as preg
    from glotaran.testing.plugin_system import monkeypatch_plugin_registry_data_io, monkeypatch_plugin_registry_project_io

    calls = []

    def rec(name, ret):
        def f(self, *a, **kw):
            calls.append((name, self))
            return ret()
        return f

    ns = lambda: types.SimpleNamespace(source_path=None)
    proj_methods = {m: rec(m, ns) for m in ("load_model", "save_model", "load_parameters", "save_parameters", "load_scheme",
                                           "save_scheme", "load_result")}
    proj_methods["save_result"] = rec("save_result", lambda: [])
    data_methods = {"load_dataset": rec("load_dataset", lambda: xr.Dataset({"data": (("a",), [1.0])})),
                    "save_dataset": rec("save_dataset", lambda: None)}
    names = ["a", "yml", "yaml", "b"]
    for which in ("project", "data"):
        base, methods = (ProjectIoInterface, proj_methods) if which == "project" else (DataIoInterface, data_methods)
        classes = [type(n, (base,), {"__module__": "m", **methods}) for n in ("P1", "P2", "P3")]
        if which == "project":
            cm, register, setp, get, known = (monkeypatch_plugin_registry_project_io, preg.register_project_io,
                                              preg.set_project_plugin, preg.get_project_io, preg.known_project_formats)
            funcs = [("load_model", lambda p, f: preg.load_model(p, format_name=f), True),
                     ("save_model", lambda p, f: preg.save_model(ns(), p, format_name=f, allow_overwrite=True), False),
                     ("load_parameters", lambda p, f: preg.load_parameters(p, format_name=f), True),
                     ("save_parameters", lambda p, f: preg.save_parameters(ns(), p, format_name=f, allow_overwrite=True), False),
                     ("load_scheme", lambda p, f: preg.load_scheme(p, format_name=f), True),
                     ("save_scheme", lambda p, f: preg.save_scheme(ns(), p, format_name=f, allow_overwrite=True), False),
                     ("load_result", lambda p, f: preg.load_result(p, format_name=f), True),
                     ("save_result", lambda p, f: preg.save_result(ns(), p, format_name=f, allow_overwrite=True), False)]
        else:
            cm, register, setp, get, known = (monkeypatch_plugin_registry_data_io, dreg.register_data_io,
                                              dreg.set_data_plugin, dreg.get_data_io, dreg.known_data_formats)
            funcs = [("load_dataset", lambda p, f: dreg.load_dataset(p, format_name=f), True),
                     ("save_dataset", lambda p, f: dreg.save_dataset(xr.Dataset({"data": (("a",), [1.0])}), p, format_name=f,
                                                                      allow_overwrite=True), False)]
        for hi in range(ck.n(25, 400)):
            rng = ck.rng
            hist = []
            with cm({}, create_new_registry=True), warnings.catch_warnings():
                warnings.simplefilter("ignore")
                for _ in range(rng.randint(1, 5)):
                    if rng.random() < 0.75 or not known():
                        ks = rng.sample(names, rng.randint(1, 2))
                        ci = rng.randrange(3)
                        register(ks)(classes[ci])
                        hist.append(["register", ks, f"P{ci + 1}"])
                    else:
                        fulls = [x for x in known(full_names=True) if "." in x]
                        k, f = rng.choice(names), rng.choice(fulls)
                        setp(k, f)
                        hist.append(["set", k, f])
                ck.case(("dispatch", which, repr(hist)), True)
                ck.count(f"stream:dispatch-{which}")
                with tempfile.TemporaryDirectory() as td:
                    for fmt in names + ["zz"]:
                        path = Path(td) / f"f.{fmt}"
                        path.write_text("x")
                        inferred = "yaml" if fmt == "yml" else fmt        # the documented inference from the extension
                        for fname, call, _is_load in funcs:
                            for given in (fmt, None):
                                use = given if given is not None else inferred
                                calls.clear()
                                ck.oracle_evals += 1
                                case = {"api": which, "history": hist, "function": fname, "file": f"f.{fmt}", "format_name": given}
                                try:
                                    call(path, given)
                                    err = None
                                except ValueError as e:
                                    err = e
                                except Exception as e:     # anything else is not the documented behaviour
                                    ck.violation("dispatch-error", f"{which}.{fname}(f.{fmt}, format_name={given!r}) raised {e!r}", case)
                                    continue
                                if use in known():
                                    want = get(use)
                                    if err is not None or [c for c in calls] != [(fname, want)]:
                                        ck.count("dispatch:wrong")
                                        ck.violation("dispatch-wrong-plugin", f"{which}.{fname}(f.{fmt}, format_name={given!r}) did not "
                                                     f"dispatch to the plugin the registry resolves for {use!r} "
                                                     f"(called: {[(n, type(o).__name__) for n, o in calls]}, error: {err!r})", case)
                                    else:
                                        ck.count("dispatch:resolved-plugin-called")
                                else:
                                    if err is None or calls:
                                        ck.violation("dispatch-unknown-format-accepted", f"{which}.{fname}(f.{fmt}, format_name={given!r}): "
                                                     f"format {use!r} is unknown but no ValueError was raised", case)
                                    else:
                                        ck.count("dispatch:unknown-format-rejected")


def run(ck):
    # corpus first
    corpus = [c["history"] for c in core.load_corpus(PROP)]
    hists = [[tuple(x if not isinstance(x, list) else x for x in op) for op in h] for h in corpus]
    hists = [[(op[0], op[1], op[2]) if len(op) == 3 else tuple(op) for op in h] for h in hists]
    if hists:
        compare(ck, hists, "corpus")
    # the known collision history (kept so that the finding is re-derived on every run)
    compare(ck, [[("addinst", ["c"], "U"), ("addinst", ["b_c"], "X")]], "collision")
    alpha = alphabet(full=not ck.quick)
    if ck.quick:
        space = [list(h) for n in (1, 2, 3) for h in itertools.product(alpha, repeat=n)]
        ck.rng.shuffle(space)
        hists = space[:400]
        hists += [[ck.rng.choice(alphabet(True)) for _ in range(12)] for _ in range(150)]
        compare(ck, hists, "sampled")
    else:
        total = 0
        for n in (1, 2, 3, 4):
            batch = []
            for h in itertools.product(alpha, repeat=n):
                batch.append(list(h))
                if len(batch) >= 4000:
                    compare(ck, batch, f"exhaustive-{n}")
                    total += len(batch)
                    batch = []
            if batch:
                compare(ck, batch, f"exhaustive-{n}")
                total += len(batch)
        ck.exhaustive = True
        ck.extra["exhaustive_space"] = f"all {total} histories of length <= 4 over {len(alpha)} operations"
        compare(ck, [[ck.rng.choice(alpha) for _ in range(12)] for _ in range(2000)], "random-12")
    # public API
    all_lines, all_impl, owner, metas = [], [], [], []
    for which, hist, lines, impl in public_api(ck):
        metas.append((which, hist))
        all_lines += lines
        all_impl += impl
        owner += [len(metas) - 1] * len(lines)
        ck.case(("api", which, repr(hist)), any(h[0] == "register" for h in hist))
        ck.count(f"stream:api-{which}")
    model = core.lean_driver(PROP, all_lines)
    seen = set()
    for i, (a, b) in enumerate(zip(all_impl, model)):
        if b.startswith("found "):
            b = b.split("#")[0]
        if a != b and owner[i] not in seen:
            seen.add(owner[i])
            which, hist = metas[owner[i]]
            ck.disagree("model-vs-public-api", f"{which}: after {all_lines[i]!r}: implementation {a!r}, model {b!r}",
                        {"api": which, "history": hist})
    dispatch_stream(ck)
    ck.sample({"history": [["addinst", ["a"], "X"], ["addinst", ["a"], "Z"], ["set", "a", "m.B_a"]],
               "observed_after_each_op": "registered_plugins(full/short) + lookup of every key"})
    if metas:
        ck.sample({"api": metas[0][0], "history": metas[0][1]})


def search(ck):
    """widened oracle-only sweep on the real code"""
    alpha = alphabet(True)
    for _ in range(ck.n(3000, 30000)):
        h = [ck.rng.choice(alpha) for _ in range(ck.rng.randint(1, 10))]
        run_history(ck, h)
        if ck.violations:
            return


def replay(ck, case):
    c = case.get("case", case)
    if "disagreements" in case:
        for d in case["disagreements"]:
            h = [tuple(op) for op in d["case"]["history"]]
            if d["case"].get("api"):
                continue
            compare(ck, [h], "replay")
        return
    if c.get("api"):
        print("replay of public-API histories: re-run the check with the recorded seed")
        return
    h = [tuple(op) for op in c["history"]]
    compare(ck, [h], "replay")
    for d in ck.disagreements:
        print("DISAGREEMENT", d["what"])
