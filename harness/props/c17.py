"""C17 — models, schemes, datasets and results survive persistence unchanged.

Every explored input is a JSON-able *case* {"stream": <name>, ...}; corpus files, replays and the generators all
go through the same checker per stream (CHECKERS), which runs the real code in-process, queues protocol lines
for the Lean model (Batch) and evaluates the property oracle on the real code's own outputs.
"""
from __future__ import annotations

import contextlib
import itertools
import json
import math
import os
import shutil
import struct
import tempfile
import warnings
from fractions import Fraction
from pathlib import Path

import numpy as np

from harness import core, gen_scheme
from harness.core import bool_, enc, erat, lst, rat, rats, strs
from harness.props import _c17_gen as G
from harness.props import _c17_regex as RX
from harness.props import _c17_scheme as SC

PROP = "C17"
REQUIRED_THEOREMS = [
    "generated_tuple_word_eq_model",
    "generated_word_eq_model",
    "generated_number_scientific_eq_model",
    "scientific_conversion_total",
    "generated_render_eq_model",
    "tuple_key_roundtrip",
    "tuple_key_roundtrip_iff",
    "tuple_key_roundtrip_counterexample",
    "model_spec_roundtrip",
    "model_spec_roundtrip_excluded",
    "interval_roundtrip_same_semantics",
    "interval_wellformed_defined",
    "relpath_resolves",
    "dataset_filenames_injective_partial",
    "dataset_filenames_counterexample",
    "refs_relative_to_result_folder",
    "refs_independent_of_history",
    "folder_movable",
    "scheme_refs_partial",
    "scheme_refs_counterexample",
    "saveSchemeRefs_eq",
    "ascii_orientation",
    "ascii_timeSpectral_entry",
    "yaml_scalar_roundtrip",
    "scheme_table_wellformed",
    "result_table_wellformed",
    "scheme_spec_roundtrip",
    "result_spec_roundtrip",
]
TRUSTED = [
    "hand-written model lean/GlotaranModel/C17.lean of builtin/io/yml/yml.py (save_model key rendering, save_result, "
    "save_scheme), utils/sanitize.py (sanitize_dict_keys, sanity_scientific_notation_conversion) with the regular "
    "expressions of utils/regex.py as deterministic matchers, model/interval_item.py (applies), utils/io.py "
    "(relative_posix_path), project/dataclass_helpers.py (asdict / file_loader path handling), builtin/io/folder/"
    "folder_plugin.py (file layout, source_path updates), builtin/io/ascii/wavelength_time_explicit_file.py "
    "(write/read orientation) — tied to the code by differential execution only",
    "ruamel.yaml (scalars, strings, lists, string-keyed dicts come back unchanged; tuples come back as lists), netCDF4/"
    "xarray (to_netcdf/open_dataset), pandas (read_csv/to_csv), numpy savetxt: observed by sampling only",
    "pathlib / os.path on POSIX without symlinks below the scratch directory; Python re",
    "translator harness/props/_c17_regex.py (re._parser parse tree of the live RegexPattern attributes -> regex AST, ast walk of "
    "sanitize.py for match/fullmatch/findall and of yml.py for the key f-string) and the backtracking engine of "
    "lean/GlotaranModel/C17Regex.lean (ASCII \\w \\d \\s): tied by the text stream (every string through Python's re and the engine)",
    "generator harness/props/_c17_scheme.py (dataclasses.fields of the live Scheme / Result classes, ast shapes of save_scheme / load_scheme / "
    "load_result / save_result in yml.py) and the hand-written model lean/GlotaranModel/C17Scheme.lean of dataclass_helpers.asdict / "
    "fromdict and of ruamel's YAML 1.2 scalar representers / implicit resolvers (closed-form reading): tied by the yaml stream (every "
    "text through ruamel's own resolver, every value through write_dict / load_dict) and by comparing every scheme.yml / result.yml the "
    "scheme and result streams write, and every loaded Scheme / Result, with the model's document / instance",
]
ASSUMPTIONS = [
    "labels and dict keys in the model correspondence are ASCII (Python's \\w also matches non-ASCII letters; those are "
    "explored by the oracle only)",
    "a string that fully matches number_scientific (sign? digits* .? digits+ [eE] sign? digits+) is accepted by Python's "
    "float() — the only strings convert_scientific_to_float passes to float() since it applies the pattern with fullmatch "
    "(fixes/C17/C17-scientific-fullmatch.patch); the text stream checks it on every such string it generates",
    "no symlinks inside the scratch tree, no leading '//' in paths",
    "the yaml transport assumption (everything but tuples unchanged) is what the tree stream tests on every run",
]
RULE = (
    "streams: text (strings over an alphabet of word/non-word/bracket/number characters through sanitize_dict_keys, "
    "convert_scientific_to_float and the regexes), tree (random python trees shaped like Model.as_dict() with tuple-keyed, "
    "mixed, tuple-like-string-keyed dicts, tuples, number-like strings through YmlProjectIo.save_model -> file -> "
    "sanitize_yaml), interval (None / tuple / list / list of tuples or lists / malformed interval fields x probe indices "
    "through IntervalItem.applies, before and after a yaml round trip), path (source/base pairs absolute, relative, with "
    "'.', '..', below / beside / above the base, in a scratch cwd through relative_posix_path, Path, Path/ref), model "
    "(random models over every builtin megacomplex, irf, shape, k-matrix, constraint, relation, penalty, weight, dataset "
    "group item + C02 scheme-generator models: save_model -> load_model, as_dict, applies on probes, objective vector), "
    "result (results of real optimisations saved under every SavingOptions combination to relative / absolute / nested / "
    "dotted folders, after pre-saving components elsewhere, re-saved, loaded and re-saved, moved; results whose input data "
    "was written to and loaded from measurement files before optimising (1-4 datasets that inherit the source_path of their "
    "measurement file; saved with a data_filter in 2 of 3 saves; the measurement folder deleted before loading in half of the "
    "cases; one uncached optimisation per case); result.yml / scheme.yml references, source_path state, loaded content; a "
    "load_result that raises directly after save_result is a violation, not a crash), netcdf (datasets of random shape, dtype, coordinate values incl. "
    "NaN/inf/-0.0/subnormal/empty/strings), ascii (both formats x both dimension orders x non-square shapes), yaml (texts over number / "
    "word / indicator characters and a pool of look-alikes through ruamel's resolver; floats of every magnitude, ints of any size, None, "
    "bools, strings, string lists, numpy scalars through write_dict -> load_dict); every scheme.yml / result.yml of the scheme and result "
    "streams is compared key by key, scalar by scalar with the field-table model, and every loaded Scheme / Result field by field. "
    "A case is non-trivial when it reaches the persistence code (not rejected before); distinct = distinct case content"
)
EXOTIC_KEYS = ("tuple-key-nonword-label", "label-looks-like-number", "str-key-looks-like-tuple")
# the recorded exclusion classes, spelled out here (not taken from the code under test)
import re as _re
SCI_RE = _re.compile(r"[-+]?[0-9]*\.?[0-9]+([eE][-+]?[0-9]+)")
TUPLE_WORD_RE = _re.compile(r"(\([.\s\w\d]+?[,.\s\w\d]*?\))")


def generate(ck):
    """regenerate lean/GlotaranModel/Generated/C17.lean (the three loader patterns as regex ASTs, how they are applied,
    the key template of save_model) from VERIF_REPO"""
    tables, _ = RX.generate(ck)
    tables2, _ = SC.generate(ck)
    return tables + tables2


# ================================================================================================
# batch of protocol lines for the Lean model
# ================================================================================================
class Batch:
    def __init__(self):
        self.items = []   # (line, impl_answer, key, what, payload, post)

    def add(self, line, impl, key, what, payload, post=None, internal=False, cmp=None):
        self.items.append((line, impl, key, what, payload, post, internal, cmp))

    def flush(self, ck):
        if not self.items:
            return
        items, self.items = self.items, []
        answers = core.lean_driver(PROP, [it[0] for it in items])
        for (line, impl, key, what, payload, post, internal, cmp), ans in zip(items, answers):
            model = post(ans) if post else ans
            if (not cmp(impl, model)) if cmp else (model != impl):
                msg = f"{what}: implementation {impl[:300]!r}, model {model[:300]!r} (line {line[:200]!r})"
                if internal:
                    ck.diagnostic(msg, payload)
                else:
                    ck.disagree(key, msg, payload)


# ================================================================================================
# python trees <-> protocol
# ================================================================================================
def num_atom(x):
    if x is None:
        return "None"
    if isinstance(x, (bool, np.bool_)):
        return "True" if x else "False"
    if isinstance(x, (int, np.integer)):
        return repr(int(x))
    return repr(float(x))


def enc_key(k):
    if isinstance(k, tuple):
        return "[t," + lst(enc(str(x)) for x in k) + "]"
    return "[s," + enc(str(k)) + "]"


def enc_tree(o, sort=False):
    """python value -> protocol text (same syntax as showY in the Lean driver)"""
    if isinstance(o, str):
        return "[s," + enc(o) + "]"
    if o is None or isinstance(o, (bool, int, float, np.integer, np.floating, np.bool_)):
        return "[a," + enc(num_atom(o)) + "]"
    if isinstance(o, tuple):
        return "[t," + lst(enc_tree(x, sort) for x in o) + "]"
    if isinstance(o, list):
        return "[l," + lst(enc_tree(x, sort) for x in o) + "]"
    if isinstance(o, dict):
        items = list(o.items())
        if sort:
            items.sort(key=lambda kv: enc_key(kv[0]))
        return "[m," + lst("[" + enc_key(k) + "," + enc_tree(v, sort) + "]" for k, v in items) + "]"
    raise TypeError(f"cannot encode {type(o)}")


def ser(t):
    return t if isinstance(t, str) else "[" + ",".join(ser(x) for x in t) + "]"


def eval_sci(ans, sort=False):
    """model answer -> same text with [f,s] replaced by the atom repr(float(s)) (and dict entries sorted)"""
    if ans in ("none", "bad-op"):
        return ans
    tree = core.parse_tree(ans)[0]

    def walk(t):
        if isinstance(t, list) and len(t) == 2 and t[0] == "f":
            return ["a", enc(repr(float(core.dec(t[1]))))]
        if isinstance(t, list) and len(t) == 2 and t[0] == "m" and sort:
            kvs = [[kv[0], walk(kv[1])] for kv in t[1]]
            kvs.sort(key=lambda kv: ser(kv[0]))
            return ["m", kvs]
        if isinstance(t, list):
            return [walk(x) for x in t]
        return t

    return ser(walk(tree))


def plain(o):
    """ruamel containers / scalars -> builtin python types"""
    if isinstance(o, dict):
        return {(tuple(k) if isinstance(k, (tuple, list)) else k): plain(v) for k, v in o.items()}
    if isinstance(o, tuple):
        return tuple(plain(x) for x in o)
    if isinstance(o, list):
        return [plain(x) for x in o]
    if isinstance(o, bool) or o is None:
        return o
    if isinstance(o, int):
        return int(o)
    if isinstance(o, float):
        return float(o)
    if isinstance(o, str):
        return str(o)
    return o


def listify(o):
    if isinstance(o, (list, tuple)):
        return [listify(x) for x in o]
    if isinstance(o, dict):
        return {k: listify(v) for k, v in o.items()}
    return o


def same_value(a, b):
    """equality that treats NaN == NaN and distinguishes bool/None from numbers"""
    if isinstance(a, dict) and isinstance(b, dict):
        return list(a.keys()) == list(b.keys()) and all(same_value(a[k], b[k]) for k in a) if False else \
            (set(a.keys()) == set(b.keys()) and all(same_value(a[k], b[k]) for k in a))
    if isinstance(a, list) and isinstance(b, list):
        return len(a) == len(b) and all(same_value(x, y) for x, y in zip(a, b))
    if isinstance(a, float) and isinstance(b, float) and a != a and b != b:
        return True
    if isinstance(a, bool) != isinstance(b, bool) or (a is None) != (b is None):
        return False
    if isinstance(a, (int, float)) and isinstance(b, (int, float)):
        return a == b
    return type(a) == type(b) and a == b


@contextlib.contextmanager
def scratch(chdir=False):
    d = os.path.realpath(tempfile.mkdtemp(prefix="c17-"))
    old = os.getcwd()
    try:
        if chdir:
            os.chdir(d)
        yield Path(d)
    finally:
        os.chdir(old)
        shutil.rmtree(d, ignore_errors=True)


# ================================================================================================
# stream: text
# ================================================================================================
TEXT_ALPHABET = "()ab1_,. -+eE.x9()ab1_,. -+eE.x9\x1c\t"


def check_text(ck, case, batch):
    from glotaran.utils import sanitize
    from glotaran.utils.regex import RegexPattern as rp

    s = case["s"]
    ck.case(("text", s), nontrivial=len(s) > 0)
    # public: sanitize_dict_keys on a dict holding the key
    d = {"o": {s: 1}}
    try:
        sanitize.sanitize_dict_keys(d)
        keys = list(d["o"].keys())
        impl = enc_key(keys[0]) if len(keys) == 1 else "keys:" + repr(keys)
    except Exception as e:  # pragma: no cover
        impl = "raises:" + type(e).__name__
    batch.add(f"sankey {enc(s)}", impl, "sanitize-dict-keys", f"sanitize_dict_keys on key {s!r}", case)
    # oracle (statement; the recorded classes spelled out in this file, not taken from the code): a string key that does not
    # look like a tuple and a string that does not look like a scientific number are what they were after loading
    ck.oracle_evals += 1
    if not TUPLE_WORD_RE.match(s) and impl != enc_key(s):
        ck.violation("plain-key-converted", f"sanitize_dict_keys turns the string key {s!r} (not of the form '(word...)') into {impl}", case)
    # public: convert_scientific_to_float
    try:
        r = sanitize.convert_scientific_to_float(s)
        impl = "float" if isinstance(r, float) else "none"
    except ValueError:
        impl = "error"
    # a string that is not a scientific-notation number *in full* is left alone: neither converted nor a ValueError
    # (before fixes/C17/C17-scientific-fullmatch.patch a number-like prefix — '1e3x' — reached float() and raised)
    full = SCI_RE.fullmatch(s) is not None
    if not full and impl == "error":
        ck.violation("plain-string-raises", f"convert_scientific_to_float({s!r}) raises ValueError for a string that is not a "
                     "scientific-notation number in full (it must be left alone)", case)
    elif not full and impl != "none":
        ck.violation("plain-string-converted", f"convert_scientific_to_float({s!r}) gives {impl} for a string that is not of the form "
                     "<number>e<digits> in full", case)
    elif full and impl != "float":
        ck.violation("scientific-string-not-converted", f"convert_scientific_to_float({s!r}) gives {impl} for a string that is a "
                     "scientific-notation number in full (hand-written 1E7 values must become floats)", case)
    batch.add(f"sci {enc(s)}", impl, "convert-scientific", f"convert_scientific_to_float({s!r})", case,
              post=lambda a: "none" if a == "none" else ("float" if a == "rest ~" else ("error" if a.startswith("rest ") else a)))
    # internal: the regexes themselves
    batch.add(f"twm {enc(s)}", bool_(bool(rp.tuple_word.match(s))), "regex", "tuple_word.match", case, internal=True)
    batch.add(f"words {enc(s)}", strs(rp.word.findall(s)), "regex", "word.findall", case, internal=True)
    ck.count("text:tuple-like" if rp.tuple_word.match(s) else "text:not-tuple-like")
    if SCI_RE.fullmatch(s):
        ck.count("text:scientific")
    elif SCI_RE.match(s):
        ck.count("text:scientific-prefix-only")
    # oracle (statement): a rendered pair of word labels comes back as that pair
    if case.get("pair"):
        a, b = case["pair"]
        ck.oracle_evals += 1
        dd = {"o": {f"({a}, {b})": 1}}
        sanitize.sanitize_dict_keys(dd)
        got = list(dd["o"].keys())
        wordy = all(x != "" and all(c.isalnum() or c == "_" for c in x) for x in (a, b))
        if wordy and got != [(a, b)]:
            ck.violation("tuple-key-word-label", f"key ({a!r}, {b!r}) rendered and sanitized gives {got!r}", case)
        if not wordy and got != [(a, b)]:
            ck.violation("tuple-key-nonword-label", f"key ({a!r}, {b!r}) rendered and sanitized gives {got!r}", case)


def gen_text(ck):
    rng = ck.rng
    for _ in range(ck.n(700, 6000)):
        n = rng.randint(0, 9)
        s = "".join(rng.choice(TEXT_ALPHABET) for _ in range(n))
        r = rng.random()
        if r < 0.35:
            a = "".join(rng.choice("ab1_") for _ in range(rng.randint(1, 3)))
            b = "".join(rng.choice("ab1_. -") for _ in range(rng.randint(0, 3)))
            s = rng.choice(["({}, {})", "({},{})", "({} ,{})", "({}, {}", "{}, {})", "({}, {})x", "(({}, {}))", "({}, {}, c)"]).format(a, b)
        elif r < 0.6:
            s = rng.choice(["", "-", "+"]) + rng.choice(["1", "12", "", "0"]) + rng.choice(["", ".", ".5", ".05"]) + \
                rng.choice(["e", "E", ""]) + rng.choice(["", "-", "+"]) + rng.choice(["3", "10", "", "x"]) + rng.choice(["", "", "", "a", ".5", "e2"])
        case = {"stream": "text", "s": s}
        if rng.random() < 0.3:
            pool = ["s1", "s2", "a", "_x", "9", "s-1", "s.2", "s 3", "", "s,4", "(s5)"]
            case["pair"] = [rng.choice(pool), rng.choice(pool)]
        yield case
    if not ck.quick:
        # bounded exhaustive: every string of length <= 5 over a 7-letter alphabet
        alpha = "(a,. )e"
        for n in range(0, 6):
            for t in itertools.product(alpha, repeat=n):
                yield {"stream": "text", "s": "".join(t)}
        for n in range(0, 6):
            for t in itertools.product("1.e-+x", repeat=n):
                yield {"stream": "text", "s": "".join(t)}
        ck.extra["exhaustive_text"] = "all strings of length <= 5 over '(a,. )e' and over '1.e-+x'"


# ================================================================================================
# stream: tree  (YmlProjectIo.save_model on a duck-typed model -> file -> load_dict -> sanitize_yaml)
# ================================================================================================
STR_POOL = ["s1", "s2", "k.1", "rates.k1", "", " ", "a b", "null", "true", "~", "1", "1.5", "1e3", "-2.5E-3", "1e3x", ".5e1",
            "(s1, s2)", "(s1)", "(a", "x: y", "# c", "'q'", "\"d\"", "[1]", "{a}", "a,b", "-", "- a", "line1\nline2", "tab\tx",
            "yes", "no", "0x10", "1_0", "inf", ".inf", "nan", "2020-01-01", "é"]
LABEL_POOL = ["s1", "s2", "s3", "a", "_x", "9", "S5"]
BAD_LABEL_POOL = ["s-1", "s.2", "s 3", "", "s,4", "(s5)", "s+6"]


def rand_scalar(rng, ascii_only=True):
    r = rng.random()
    if r < 0.1:
        return None
    if r < 0.2:
        return rng.choice([True, False])
    if r < 0.35:
        return rng.choice([0, 1, -7, 42, 10**12])
    if r < 0.5:
        return rng.choice([0.0, 1.5, -2.25, 1e-05, 1e20, 0.1, 3.141592653589793, float("inf"), float("-inf"), 1e-300, 123456789.123])
    s = rng.choice(STR_POOL)
    if ascii_only and not s.isascii():
        s = "e1"
    return s


def rand_value(rng, depth):
    r = rng.random()
    if depth <= 0 or r < 0.55:
        return rand_scalar(rng)
    if r < 0.7:
        return [rand_value(rng, depth - 1) for _ in range(rng.randint(0, 3))]
    if r < 0.8:
        return tuple(rand_value(rng, depth - 1) for _ in range(rng.randint(0, 3)))
    keys = rng.sample([s for s in STR_POOL if s.isascii()], rng.randint(0, 3))
    return {k: rand_value(rng, depth - 1) for k in keys}


def rand_tuple_dict(rng, clean):
    pool = LABEL_POOL if clean else LABEL_POOL + BAD_LABEL_POOL
    d = {}
    for _ in range(rng.randint(1, 4)):
        r = rng.random()
        if clean or r < 0.8:
            k = (rng.choice(pool), rng.choice(pool))
        elif r < 0.87:
            k = (rng.choice(pool),)
        elif r < 0.94:
            k = (rng.choice(pool), rng.choice(pool), rng.choice(pool))
        else:
            k = rng.choice(["ab", "x", "(a, b)", "abc"])
        d[k] = rand_value(rng, 1) if not clean else rng.choice(["k.1", "k.2", 1.5, None])
    return d


def rand_model_tree(rng, clean):
    top = {}
    for name in rng.sample(["megacomplex", "k_matrix", "dataset", "clp_constraints", "weights", "irf", "x"], rng.randint(1, 4)):
        as_list = name in ("clp_constraints", "weights") or rng.random() < 0.15
        items = []
        for i in range(rng.randint(0, 3)):
            item = {"label": f"{name}{i}"}
            for p in rng.sample(["matrix", "interval", "shape", "type", "compartments", "scale", "(a, b)"], rng.randint(0, 4)):
                if p == "(a, b)" and clean:
                    continue
                r = rng.random()
                if p == "matrix" or r < 0.15:
                    item[p] = rand_tuple_dict(rng, clean)
                elif clean:
                    v = rand_value(rng, 2)
                    item[p] = _cleanse(v)
                else:
                    item[p] = rand_value(rng, 2)
            if not clean and rng.random() < 0.04:
                item = rng.choice([5, "text", [1, 2]])      # not a dict: save_model raises
            items.append(item)
        if as_list:
            top[name] = items
        else:
            top[name] = {(it["label"] if isinstance(it, dict) else f"l{j}"): it for j, it in enumerate(items)}
        if not clean and rng.random() < 0.1:
            top[name] = rand_scalar(rng)
    return top


def _cleanse(v):
    """remove what the round-trip theorem excludes: tuple-like string keys, strings that are scientific-notation numbers
    in full (a number-like prefix, '1e3x', stays: it must round-trip since the fullmatch repair)"""
    if isinstance(v, str):
        return "e" + v if SCI_RE.fullmatch(v) else v
    if isinstance(v, list):
        return [_cleanse(x) for x in v]
    if isinstance(v, tuple):
        return tuple(_cleanse(x) for x in v)
    if isinstance(v, dict):
        return {("k" + k if TUPLE_WORD_RE.match(k) else k): _cleanse(x) for k, x in v.items()}
    return v


class _FakeModel:
    def __init__(self, tree):
        self._tree = tree

    def as_dict(self):
        return self._tree


def check_tree(ck, case, batch):
    from glotaran.builtin.io.yml.utils import load_dict
    from glotaran.builtin.io.yml.yml import YmlProjectIo
    from glotaran.utils.sanitize import sanitize_yaml
    import copy

    tree = G.from_json(case["tree"])
    line_tree = enc_tree(tree)
    ck.case(("tree", line_tree))
    io = YmlProjectIo("yml")
    with scratch() as d:
        f = (d / "m.yml").as_posix()
        try:
            io.save_model(_FakeModel(copy.deepcopy(tree)), f)
            saved = True
        except (AttributeError, IndexError, TypeError) as e:
            saved = False
            ck.count("tree:save-raises-" + type(e).__name__)
        if not saved:
            batch.add(f"save {line_tree}", "none", "save-model-tree", "save_model on a python tree", case)
            return
        try:
            on_disk = plain(load_dict(f, True))
        except Exception as e:
            ck.disagree("yaml-transport", f"file written by save_model cannot be parsed: {e!r}", case)
            return
        batch.add(f"saveyaml {line_tree}", enc_tree(on_disk), "save-model-tree",
                  "save_model -> file -> parsed yaml (key rendering + transport assumption)", case)
        try:
            spec = plain(sanitize_yaml(load_dict(f, True)))
            impl = enc_tree(spec)
        except ValueError:
            impl = "none"
            ck.count("tree:load-raises-ValueError")
        batch.add(f"rt {line_tree}", impl, "model-tree-roundtrip", "save_model -> file -> sanitize_yaml", case, post=eval_sci)
        # oracle (statement): a clean tree comes back identical modulo tuple -> list
        if case.get("clean"):
            ck.oracle_evals += 1
            ck.count("tree:clean")
            if impl == "none" or not same_value(listify(tree), listify(plain(spec))):
                ck.violation("clean-tree-roundtrip", "a specification tree with word-label tuple keys and no string that is a "
                             "scientific-notation number in full does not come back from save_model -> sanitize_yaml", case)
        else:
            ck.count("tree:dirty")


def gen_tree(ck):
    rng = ck.rng
    for _ in range(ck.n(250, 3000)):
        clean = rng.random() < 0.5
        yield {"stream": "tree", "clean": clean, "tree": G.to_json(rand_model_tree(rng, clean))}


# ================================================================================================
# stream: interval
# ================================================================================================
IV_NUMS = [0, 1, 2, 20, 1.5, -1.0, 2.5, float("inf"), float("-inf"), 441.0, 560]


def rand_iv_field(rng, wellformed):
    def pair():
        return [rng.choice(IV_NUMS), rng.choice(IV_NUMS)]
    r = rng.random()
    if r < 0.08:
        return None
    if wellformed:
        if r < 0.4:
            return tuple(pair())
        if r < 0.55:
            return pair()
        n = rng.randint(1, 3)
        return [tuple(pair()) if rng.random() < 0.5 else pair() for _ in range(n)]
    kind = rng.choice(["empty-list", "empty-tuple", "one-num", "three-nums", "num-then-pair", "pair-then-num", "tuple-of-tuples",
                       "short-pair", "long-pair", "mixed"])
    if kind == "empty-list":
        return []
    if kind == "empty-tuple":
        return ()
    if kind == "one-num":
        return rng.choice([[1], (1,)])
    if kind == "three-nums":
        return rng.choice([[1, 5, 9], (3, 1, 0)])
    if kind == "num-then-pair":
        return [1, pair()]
    if kind == "pair-then-num":
        return [pair(), rng.choice(IV_NUMS)]
    if kind == "tuple-of-tuples":
        return (tuple(pair()), tuple(pair()))
    if kind == "short-pair":
        return [pair(), [1]]
    if kind == "long-pair":
        return [[1, 2, 3], (0, 5, 7)]
    return [tuple(pair()), pair(), tuple(pair())]


def iv_line(f):
    def elem(e):
        if isinstance(e, tuple):
            return "[t," + lst(erat(x) for x in e) + "]"
        if isinstance(e, list):
            return "[l," + lst(erat(x) for x in e) + "]"
        return "[n," + erat(e) + "]"
    if f is None:
        return "none"
    return ("[t," if isinstance(f, tuple) else "[l,") + lst(elem(e) for e in f) + "]"


def _applies(item, idx):
    try:
        return bool_(bool(item.applies(idx)))
    except (TypeError, IndexError):
        return "err"


def check_interval(ck, case, batch):
    from glotaran.model import ZeroConstraint

    f = G.from_json(case["field"])
    probes = [None if p is None else float(Fraction(p)) for p in case["probes"]]
    item = ZeroConstraint(target="s1", interval=f)
    loaded = ZeroConstraint(target="s1", interval=listify(f))       # what a yaml round trip hands to the item
    ck.case(("interval", iv_line(f), tuple(case["probes"])), nontrivial=f is not None)
    batch.add(f"ivyaml {iv_line(f)}", iv_line(listify(f)), "interval-yaml", "interval field after tuple -> list", case, internal=True)
    for p, pf in zip(case["probes"], probes):
        a = _applies(item, pf)
        b = _applies(loaded, pf)
        pl = "none" if p is None else rat(Fraction(p))
        batch.add(f"applies {iv_line(f)} {pl}", a, "interval-applies", f"IntervalItem.applies({pf}) with interval {f!r}", case)
        batch.add(f"applies {iv_line(listify(f))} {pl}", b, "interval-applies", f"IntervalItem.applies({pf}) with interval {listify(f)!r}", case)
        ck.count("interval:" + ("err" if a == "err" else "defined"))
        ck.oracle_evals += 1
        if a != b:
            ck.violation("interval-yaml-semantics", f"interval {f!r}: applies({pf}) = {a} but {b} after the tuple -> list change of a "
                         "yaml round trip", case)
        if case.get("wellformed") and f is not None and pf is not None:
            # the statement: inside one of the (unordered) intervals
            ivs = [f] if not isinstance(f[0], (list, tuple)) else f
            want = any(min(i[0], i[1]) <= pf <= max(i[0], i[1]) for i in ivs)
            if a != bool_(want):
                ck.violation("interval-applies-wrong", f"interval {f!r}: applies({pf}) = {a}, statement says {want}", case)


def gen_interval(ck):
    rng = ck.rng
    for _ in range(ck.n(400, 4000)):
        wf = rng.random() < 0.7
        f = rand_iv_field(rng, wf)
        probes = [rng.choice([None, "0", "1", "3/2", "2", "5/2", "3", "20", "21", "-5", "441", "500", "1000"]) for _ in range(3)]
        yield {"stream": "interval", "wellformed": wf, "field": G.to_json(f), "probes": probes}


# ================================================================================================
# stream: path
# ================================================================================================
PARTS = ["a", "b", "c", "out", "in", "..", ".", "", "x.yml", "r.v1"]


def rand_path(rng, root):
    n = rng.randint(0, 4)
    parts = [rng.choice(PARTS) for _ in range(n)]
    s = "/".join(parts)
    r = rng.random()
    if r < 0.3:
        s = root + ("/" + s if s else "")
    elif r < 0.38:
        s = "/zzq9/" + s
    elif r < 0.42:
        s = "/"
    if rng.random() < 0.1 and s != "/":
        s += "/"
    while s.startswith("//"):
        s = s[1:]
    return s


def check_path(ck, case, batch):
    from glotaran.utils.io import relative_posix_path

    with scratch(chdir=True) as root:
        cwd_rel = case["cwd"]
        cwd = root.joinpath(*cwd_rel) if cwd_rel else root
        cwd.mkdir(parents=True, exist_ok=True)
        os.chdir(cwd)
        cwd_parts = list(Path(os.getcwd()).parts[1:])

        def real(s):      # "$ROOT" stands for the scratch root in stored cases
            return s.replace("$ROOT", root.as_posix())

        src, base = real(case["source"]), None if case["base"] is None else real(case["base"])
        ck.case(("path", tuple(cwd_rel), case["source"], case["base"]), nontrivial=base is not None)
        try:
            impl = enc(relative_posix_path(src, base))
        except Exception as e:  # pragma: no cover
            impl = "raises:" + type(e).__name__
        batch.add(f"relpp {strs(cwd_parts)} {enc(src)} {'none' if base is None else enc(base)}", impl, "relative-posix-path",
                  f"relative_posix_path({case['source']!r}, {case['base']!r}) in cwd {cwd_rel}", case)
        p = Path(src)
        batch.add(f"parse {enc(src)}",
                  f"{bool_(p.is_absolute())} {strs([x for x in p.parts if x != '/'])} {enc(p.as_posix())} {enc(p.suffix)} {enc(p.parent.as_posix())}",
                  "pathlib", "Path normal form", case, internal=True)
        batch.add(f"resolve {strs(cwd_parts)} {enc(src)}", strs(list(p.resolve().parts[1:])), "pathlib", "Path.resolve", case, internal=True)
        if base is not None:
            batch.add(f"join {enc(base)} {enc(src)}", enc((Path(base) / src).as_posix()), "pathlib", "Path / ref", case, internal=True)
        # oracle (statement): a reference stored for `base` leads back to the file when it is resolved against `base`
        if base is not None and not impl.startswith("raises"):
            ck.oracle_evals += 1
            ref = relative_posix_path(src, base)
            back = (Path(base) / ref).resolve()
            rel_src = not Path(src).is_absolute()
            below = Path(base).resolve() in Path(src).resolve().parents
            ck.count("path:" + ("absolute" if not rel_src else ("below-base" if below else "relative-outside-base")))
            if back != Path(src).resolve():
                key = "ref-relative-outside-folder" if (rel_src and not below) else "ref-does-not-resolve"
                ck.violation(key, f"relative_posix_path({case['source']!r}, {case['base']!r}) = {ref!r} resolves against the base to "
                             f"{back.as_posix()!r}, not to the source", case)


def gen_path(ck):
    rng = ck.rng
    for _ in range(ck.n(500, 5000)):
        cwd = [rng.choice(["w", "a", "out"]) for _ in range(rng.randint(0, 2))]
        src = rand_path(rng, "$ROOT")
        base = None if rng.random() < 0.08 else rand_path(rng, "$ROOT")
        if rng.random() < 0.3 and base is not None:      # file below the base
            src = base.rstrip("/") + "/" + rng.choice(["f.csv", "sub/f.nc", "./f.yml", "a/../f.yml"]) if base not in ("", "/") else src
        yield {"stream": "path", "cwd": cwd, "source": src, "base": base}


# ================================================================================================
# stream: model  (real models: save_model -> load_model)
# ================================================================================================
def objective_vector(model, parameters, data, extra=None):
    from glotaran.optimization.optimizer import Optimizer
    from glotaran.project import Scheme

    kw = dict(extra or {})
    scheme = Scheme(model=model, parameters=parameters, data=data, maximum_number_function_evaluations=1, **kw)
    opt = Optimizer(scheme, verbose=False, raise_exception=True)
    labels, x0, _, _ = scheme.parameters.get_label_value_and_bounds_arrays(exclude_non_vary=True)
    opt._free_parameter_labels = labels
    return np.asarray(opt.objective_function(np.array(x0, dtype=float)), dtype=float).ravel()


def classify_exotic(tree):
    """which excluded input class a model dict belongs to (for the key of a violation), or None"""
    found = set()

    def walk(o):
        if isinstance(o, dict):
            for k, v in o.items():
                if isinstance(k, tuple):
                    if not all(isinstance(x, str) and x != "" and x.isascii() and all(c.isalnum() or c == "_" for c in x) for x in k):
                        found.add("tuple-key-nonword-label")
                elif isinstance(k, str) and TUPLE_WORD_RE.match(k):
                    found.add("str-key-looks-like-tuple")
                walk(v)
        elif isinstance(o, (list, tuple)):
            for x in o:
                walk(x)
        elif isinstance(o, str) and SCI_RE.fullmatch(o):
            found.add("label-looks-like-number")
    walk(tree)
    for k in EXOTIC_KEYS:
        if k in found:
            return k
    return None


def iter_interval_items(model):
    for name, items in model.iterate_items():
        seq = items.values() if isinstance(items, dict) else items
        for i, it in enumerate(seq):
            if hasattr(it, "applies") and hasattr(it, "interval"):
                yield f"{name}[{i}]", it


PROBES = [None, -5.0, 0.0, 1.0, 1.5, 2.0, 2.5, 3.0, 20.0, 21.0, 439.0, 440.0, 441.0, 442.0, 500.0, 559.5, 560.0, 563.0, 1000.0]


_PREV_MODEL: list = []     # (yaml text, as_dict after loading) of the previous model case


def check_model(ck, case, batch):
    from glotaran.io import load_model, save_model

    kind = case["kind"]
    extra = {}
    try:
        if kind == "builtin":
            model, parameters, data = G.build_builtin(case["spec"])
        else:
            gen_scheme.model_class()
            scheme, model, parameters, data = gen_scheme.build(case["spec"])
            extra = {"clp_link_tolerance": scheme.clp_link_tolerance, "clp_link_method": scheme.clp_link_method}
    except Exception as e:
        ck.case(("model", json.dumps(case, sort_keys=True, default=str)), nontrivial=False)
        ck.count("model:build-rejected-" + type(e).__name__)
        return
    before = model.as_dict()
    sig = enc_tree(before, sort=True)
    exotic = classify_exotic(before)
    try:
        o1 = objective_vector(model, parameters, data, extra)
        o1_err = None
    except Exception as e:
        o1, o1_err = None, type(e).__name__
    ck.case(("model", sig), nontrivial=True)
    ck.count(f"model:{kind}" + (":exotic-labels" if exotic else ""))
    ck.count("model:objective-" + ("evaluated" if o1 is not None else "raises-" + o1_err))
    for name in before:
        if before[name]:
            ck.count("model:has-" + name)
    with scratch() as d:
        f = d / case.get("file", "model.yml")
        try:
            save_model(model, f)
            loaded = load_model(f)
            after = loaded.as_dict()
        except Exception as e:
            batch.add(f"rt {enc_tree(before)}", "none", "model-roundtrip", "save_model -> load_model raises " + repr(e)[:120], case, post=eval_sci)
            ck.violation(exotic or "model-roundtrip-raises", f"save_model -> load_model raises {e!r}"[:400], case)
            return
        if model.source_path != Path(f).as_posix() or loaded.source_path != Path(f).as_posix():
            ck.violation("model-source-path", f"source_path after save/load: {model.source_path!r} / {loaded.source_path!r}, file {f}", case)
        # what a path loads is what the file at that path holds NOW: another model's file moved onto the same path from
        # outside the library (mv / cp -p / restoring a backup, so with an OLDER modification time) is what is loaded next
        # (round-2 seeded change C17-5: parsed yaml cached per path and refreshed only when the file is newer)
        text_now = f.read_text()
        if case.get("replaced_by") and not _PREV_MODEL:      # replay of a recorded case: rebuild the other model's file
            g = d / "other_model.yml"
            g.write_text(case["replaced_by"])
            _PREV_MODEL[:] = [(case["replaced_by"], plain(load_model(g).as_dict()))]
        if _PREV_MODEL:
            other_text, other_after = _PREV_MODEL[0]
            try:
                st = os.stat(f)
                f.write_text(other_text)
                os.utime(f, (st.st_atime - 1000, st.st_mtime - 1000))
                again = plain(load_model(f).as_dict())
                ck.oracle_evals += 1
                ck.count("model:file-replaced-by-older-file")
                if not same_value(listify(other_after), listify(again)):
                    ck.violation("model-stale-after-file-replaced", "load_model(path) after the file at that path was replaced (from outside, "
                                 "older mtime) by another model's file does not give that model", {**case, "replaced_by": other_text})
            except Exception as e:  # noqa: BLE001
                ck.violation("model-stale-after-file-replaced", f"load_model of a replaced file raises {e!r}"[:300], case)
        _PREV_MODEL[:] = [(text_now, plain(after))]
    # correspondence: the loaded model's as_dict is what the Lean model predicts from the saved one's
    if not sig.isascii() or "%C" in sig or "%E" in sig or "%D" in sig:
        ck.count("model:non-ascii-oracle-only")
    else:
        batch.add(f"rt {enc_tree(before)}", enc_tree(plain(after), sort=True), "model-roundtrip",
                  "Model.as_dict() after save_model -> load_model", case, post=lambda a: eval_sci(a, sort=True))
    # oracle 1: identical specification (tuples may come back as lists)
    ck.oracle_evals += 1
    if not same_value(listify(before), listify(plain(after))):
        diff = [k for k in before if not same_value(listify(before[k]), listify(plain(after.get(k))))]
        ck.violation(exotic or "model-spec-differs", f"as_dict() differs after save_model -> load_model in {diff}: "
                     f"{ {k: before[k] for k in diff} !r} vs { {k: after.get(k) for k in diff} !r}"[:700], case)
        return
    # oracle 2: interval semantics
    for (n1, i1), (n2, i2) in zip(iter_interval_items(model), iter_interval_items(loaded)):
        for p in PROBES:
            a, b = _applies(i1, p), _applies(i2, p)
            ck.oracle_evals += 1
            if a != b:
                ck.violation("interval-yaml-semantics", f"{n1} interval {i1.interval!r}: applies({p}) = {a} before and {b} after "
                             "save_model -> load_model", case)
                return
    # oracle 3: identical objective
    if o1 is not None:
        try:
            o2 = objective_vector(loaded, parameters, data, extra)
        except Exception as e:
            ck.violation("objective-raises-after-load", f"objective of the loaded model raises {e!r}"[:300], case)
            return
        ck.oracle_evals += 1
        if o1.shape != o2.shape or o1.tobytes() != o2.tobytes():
            ck.violation("objective-differs-after-load", f"objective vector differs after save_model -> load_model "
                         f"(sizes {o1.shape} / {o2.shape}, max abs diff "
                         f"{float(np.nanmax(np.abs(o1 - o2))) if o1.shape == o2.shape else 'n/a'})", case)
            return
        ck.count("model:objective-compared" + ("-nonfinite" if not np.all(np.isfinite(o1)) else ""))


def gen_model(ck):
    rng = ck.rng
    for i in range(ck.n(40, 500)):
        yield {"stream": "model", "kind": "builtin", "spec": G.rand_builtin(rng, exotic=False)}
    for i in range(ck.n(8, 120)):
        yield {"stream": "model", "kind": "builtin", "spec": G.rand_builtin(rng, exotic=True)}
    for i in range(ck.n(20, 300)):
        yield {"stream": "model", "kind": "verif", "spec": gen_scheme.rand_spec(rng)}


# ================================================================================================
# stream: result (histories of saves / loads / moves of a real Result)
# ================================================================================================
_RESULT_CACHE: dict = {}


def make_result(spec_case, P=None):
    """optimise once per base (cached per process) and hand out deep copies, so that the source_path state of one
    history does not leak into the next.  spec_case: {"kind": "verif"|"builtin", "spec": ..., "max_nfev": n}
    With "input_files": folder (and "input_abs": bool) the input data is first written to <folder>/measurement_<i>.nc, read
    back with load_dataset (the usual way data gets into a Scheme: the datasets know their file, attrs source_path/loader)
    and optimised in place (no cache, no copy: the Result is exactly what `optimize` returns for data that came from files)."""
    import copy
    from dataclasses import replace
    from glotaran.optimization.optimize import optimize
    from glotaran.project import Scheme
    inp = spec_case.get("input_files")
    key = json.dumps({k: v for k, v in spec_case.items() if k not in ("input_files", "input_abs")}, sort_keys=True, default=str)
    if inp is not None or key not in _RESULT_CACHE:
        if spec_case["kind"] == "verif":
            gen_scheme.model_class()
            spec = dict(spec_case["spec"])
            spec["max_nfev"] = spec_case.get("max_nfev", 3)
            scheme, model, parameters, data = gen_scheme.build(spec)
        else:
            model, parameters, data = G.build_builtin(spec_case["spec"])
            scheme = Scheme(model=model, parameters=parameters, data=data,
                            maximum_number_function_evaluations=spec_case.get("max_nfev", 3))
        if inp is not None:
            from glotaran.io import load_dataset, save_dataset
            folder = Path(P(inp, bool(spec_case.get("input_abs"))))
            folder.mkdir(parents=True, exist_ok=True)
            loaded = {}
            for i, (l, dset) in enumerate(scheme.data.items()):
                f = (folder / f"measurement_{i}.nc").as_posix()
                save_dataset(dset, f, allow_overwrite=True)
                loaded[l] = load_dataset(f)
            return optimize(replace(scheme, data=loaded), verbose=False, raise_exception=True)
        _RESULT_CACHE[key] = optimize(scheme, verbose=False, raise_exception=True)
    return clone_result(_RESULT_CACHE[key])


def clone_result(r):
    """an independent copy of a freshly optimised Result (same content, default source_path state,
    initial_parameters is scheme.parameters as `optimize` produces it)"""
    import copy
    from dataclasses import fields, replace
    from glotaran.optimization.optimization_history import OptimizationHistory
    from glotaran.parameter import ParameterHistory
    from glotaran.project import Result

    def ds_copy(v):
        c = v.copy(deep=True)
        c.attrs.pop("loader", None)
        return c
    params = r.scheme.parameters.copy()
    scheme = replace(r.scheme, model=type(r.scheme.model)(**r.scheme.model.as_dict()), parameters=params,
                     data={k: ds_copy(v) for k, v in r.scheme.data.items()})
    kwargs = {f.name: getattr(r, f.name) for f in fields(r) if f.init}
    kwargs.update(
        scheme=scheme, initial_parameters=params, optimized_parameters=r.optimized_parameters.copy(),
        parameter_history=ParameterHistory.from_dataframe(r.parameter_history.to_dataframe().copy()),
        optimization_history=OptimizationHistory(r.optimization_history.data.reset_index()),
        data={k: ds_copy(v) for k, v in r.data.items()},
        free_parameter_labels=list(r.free_parameter_labels))
    return Result(**kwargs)


def srcs_of(result):
    return {
        "scheme": str(result.scheme.source_path), "model": result.scheme.model.source_path,
        "params": str(result.scheme.parameters.source_path), "initParams": str(result.initial_parameters.source_path),
        "initShared": result.initial_parameters is result.scheme.parameters,
        "optParams": str(result.optimized_parameters.source_path), "paramHist": str(result.parameter_history.source_path),
        "optHist": str(result.optimization_history.source_path),
        "data": [[k, str(v.attrs.get("source_path"))] for k, v in result.data.items()],
    }


def srcs_line(s, root=None):
    def e(x):
        return enc("" if x is None else x)
    return lst([e(s["scheme"]), e(s["model"]), e(s["params"]), e(s["initParams"]), bool_(s["initShared"]), e(s["optParams"]),
                e(s["paramHist"]), e(s["optHist"]), lst(lst([enc(k), e(v)]) for k, v in s["data"])])


def pairs_line(pairs):
    return lst(lst([enc(a), enc(b)]) for a, b in pairs)


def flat_refs(d, fields):
    out = []
    for f in fields:
        v = d.get(f)
        if isinstance(v, dict):
            out += [[f"data:{k}", str(x)] for k, x in v.items()]
        else:
            out.append([f, str(v)])
    return out


def bits(a):
    a = np.asarray(a)
    if a.size == 0:
        return ("empty", a.shape)       # no values to preserve; the dtype of an empty array is not part of the statement
    if a.dtype.kind in "OUS":
        return ("str", a.shape, tuple(str(x) for x in a.ravel()))
    return (a.dtype.kind, a.dtype.itemsize, a.shape, np.ascontiguousarray(a).tobytes())


def dataset_diff(a, b, only=None):
    """None if bit-equal (variables, coordinates, dims, dtypes, attrs other than source_path/loader), else a description"""
    va = [v for v in a.variables if only is None or v in only or v in a.coords]
    if only is not None:
        a = a[list(only)]
        va = list(a.variables)
    vb = list(b.variables)
    if sorted(map(str, va)) != sorted(map(str, vb)):
        return f"variables {sorted(map(str, va))} vs {sorted(map(str, vb))}"
    for v in va:
        if a[v].dims != b[v].dims:
            return f"dims of {v}: {a[v].dims} vs {b[v].dims}"
        if bits(a[v].values) != bits(b[v].values):
            return f"values/dtype of {v}: {a[v].dtype} vs {b[v].dtype}"
    aa = {k: v for k, v in a.attrs.items() if k not in ("source_path", "loader")}
    bb = {k: v for k, v in b.attrs.items() if k not in ("source_path", "loader")}
    if sorted(aa) != sorted(bb):
        return f"attrs {sorted(aa)} vs {sorted(bb)}"
    for k in aa:
        if bits(aa[k]) != bits(bb[k]) and not (np.asarray(aa[k]).dtype.kind in "iufb" and np.array_equal(np.asarray(aa[k]), np.asarray(bb[k]))):
            return f"attr {k}: {aa[k]!r} vs {bb[k]!r}"
    return None


STAT_FIELDS = ["number_of_function_evaluations", "success", "termination_reason", "glotaran_version", "free_parameter_labels",
               "chi_square", "degrees_of_freedom", "number_of_clps", "number_of_residuals", "number_of_jacobian_evaluations",
               "number_of_free_parameters", "optimality", "reduced_chi_square", "root_mean_square_error"]
PARAM_ATTRS = ["value", "minimum", "maximum", "vary", "non_negative", "expression", "standard_error"]


def result_diff(ck, orig, loaded, data_filter, case):
    """oracle: the statement on a saved and a loaded Result; returns number of findings"""
    n = 0
    for f in STAT_FIELDS:
        a, b = getattr(orig, f), getattr(loaded, f)
        if isinstance(a, (list, tuple)):
            a, b = list(a), list(b)
        ok = (a == b) or (isinstance(a, float) and isinstance(b, float) and a != a and b != b)
        if isinstance(a, float) and isinstance(b, float) and ok and a == a:
            ok = struct.pack("d", a) == struct.pack("d", b)
        if not ok:
            ck.violation("result-statistic-differs", f"{f}: saved {a!r}, loaded {b!r}", case)
            n += 1
    for name in ("initial_parameters", "optimized_parameters"):
        pa, pb = getattr(orig, name), getattr(loaded, name)
        if list(pa.labels) != list(pb.labels):
            ck.violation("result-parameters-differ", f"{name}: labels {pa.labels} vs {pb.labels}", case)
            n += 1
            continue
        for l in pa.labels:
            for att in PARAM_ATTRS:
                u, v = getattr(pa.get(l), att), getattr(pb.get(l), att)
                if u is None or v is None or isinstance(u, (bool, str)):
                    same = (u == v)
                else:
                    same = struct.pack("d", float(u)) == struct.pack("d", float(v)) or (u != u and v != v)
                if not same:
                    small = (not isinstance(u, (bool, str))) and u is not None and v is not None and \
                        math.isfinite(float(u)) and abs(float(u) - float(v)) <= 1e-12 * abs(float(u))
                    fmt = case.get("pfmt_now", "csv")
                    key = "csv-float-roundtrip" if (small and fmt in ("csv", "tsv")) else "result-parameters-differ"
                    ck.violation(key, f"{name}.{l}.{att}: saved {u!r}, loaded {v!r} (parameter format {fmt})", case)
                    n += 1
    ha, hb = orig.parameter_history, loaded.parameter_history
    if list(ha.parameter_labels) != list(hb.parameter_labels) or bits(np.array(ha.parameters, dtype=float)) != bits(np.array(hb.parameters, dtype=float)):
        ck.violation("parameter-history-differs", "parameter history differs after save_result -> load_result", case)
        n += 1
    oa, ob = orig.optimization_history.data, loaded.optimization_history.data
    if list(oa.columns) != list(ob.columns) or list(oa.index) != list(ob.index) or \
            bits(oa.to_numpy(dtype=float)) != bits(ob.to_numpy(dtype=float)):
        ck.violation("optimization-history-differs", "optimization history differs after save_result -> load_result", case)
        n += 1
    if list(orig.data.keys()) != list(loaded.data.keys()):
        ck.violation("result-data-labels-differ", f"data labels {list(orig.data)} vs {list(loaded.data)}", case)
        n += 1
    else:
        for l in orig.data:
            dd = dataset_diff(orig.data[l], loaded.data[l], only=data_filter)
            if dd:
                ck.violation("result-dataset-differs", f"dataset {l!r} not bit-equal after save_result -> load_result: {dd}", case)
                n += 1
    # the scheme inside the result
    sa, sb = orig.scheme, loaded.scheme
    for f in ("clp_link_tolerance", "clp_link_method", "maximum_number_function_evaluations", "add_svd", "ftol", "gtol", "xtol",
              "optimization_method", "result_path"):
        if getattr(sa, f) != getattr(sb, f):
            ck.violation("result-scheme-differs", f"scheme.{f}: {getattr(sa, f)!r} vs {getattr(sb, f)!r}", case)
            n += 1
    if not same_value(listify(sa.model.as_dict()), listify(plain(sb.model.as_dict()))):
        ck.violation(classify_exotic(sa.model.as_dict()) or "result-model-differs", "scheme.model differs after save_result -> load_result", case)
        n += 1
    return n


def _presave(what, path, sch, current):
    from glotaran.io import save_dataset, save_model, save_parameters, save_scheme
    if what == "model":
        save_model(sch.model, path, allow_overwrite=True)
    elif what == "parameters":
        save_parameters(sch.parameters, path, allow_overwrite=True)
    elif what == "data":
        for l, dset in sch.data.items():
            save_dataset(dset, Path(path).parent / f"{l}_in.nc", allow_overwrite=True)
        for l, dset in current.data.items():
            save_dataset(dset, Path(path).parent / f"{l}_res.nc", allow_overwrite=True)
    elif what == "scheme":
        save_scheme(sch, path, allow_overwrite=True)


def check_result(ck, case, batch):
    """case: {"stream":"result","base":{kind,spec,...},"ops":[...]}   ops:
         ["presave", what, path]         save a component of the scheme before optimising  (what: model|parameters|scheme|data)
         ["save", path, {"filter": None|[...], "report": bool, "pfmt": "csv"|..., "abs": bool}]
         ["move", src, dst]              move a folder
         ["rm", folder]                  delete a folder (the input data of base["input_files"])
         ["load", path]                  load_result; the loaded Result becomes the current one
         ["chdir", path]"""
    from glotaran.io import (load_result, save_dataset, save_model, save_parameters, save_result, save_scheme, load_scheme)
    from glotaran.io import SavingOptions
    from ruamel.yaml import YAML

    ck.case(("result", json.dumps(case, sort_keys=True, default=str)))
    # dataset labels that are not plain file names (path separators; "." whose file "..nc" has no suffix): the recorded class
    # dataset-label-not-a-file-name (Lean: dataset_filenames_injective_partial / dataset_filenames_counterexample)
    spec = case["base"].get("spec") if case["base"].get("kind") == "verif" else None
    labels = [str(d.get("label")) for d in spec.get("datasets", []) if isinstance(d, dict)] if isinstance(spec, dict) else []
    if any("/" in l or l in (".", "") for l in labels):
        ck.count("result:dataset-label-not-a-file-name")
        report = ck.violation
        ck.violation = lambda key, what, payload: report("dataset-label-not-a-file-name", what, payload)
        try:
            return _check_result(ck, case, batch)
        finally:
            ck.violation = report
    return _check_result(ck, case, batch)


def _check_result(ck, case, batch):
    from glotaran.io import (load_result, save_dataset, save_model, save_parameters, save_result, save_scheme, load_scheme)
    from glotaran.io import SavingOptions
    from ruamel.yaml import YAML

    with scratch(chdir=True) as root:
        def P(p, absolute=False):
            p = p.replace("$ROOT", root.as_posix())
            return (Path(os.getcwd()) / p).as_posix() if absolute and not os.path.isabs(p) else p

        try:
            result = make_result(case["base"], P)
            if case["base"].get("input_files") is not None:
                ck.count("result:input-data-loaded-from-files")
                ck.count("result:input-files:datasets-" + str(min(len(result.data), 3)) + ("+" if len(result.data) > 3 else ""))
                if all("source_path" in d.attrs for d in result.data.values()):
                    ck.count("result:input-files:result-data-inherits-source_path")
        except Exception as e:
            ck.count("result:optimize-rejected-" + type(e).__name__)
            return
        if not result.success and not case["base"].get("allow_unsuccessful"):
            ck.count("result:unsuccessful")
        current = result
        reference = result          # the Result whose content every later load must reproduce
        last_filter = None
        for op in case["ops"]:
            kind = op[0]
            ck.count("result:op-" + kind)
            if kind == "chdir":
                Path(P(op[1])).mkdir(parents=True, exist_ok=True)
                os.chdir(P(op[1]))
            elif kind == "presave":
                what, path = op[1], P(op[2], op[3] if len(op) > 3 else False)
                Path(path).parent.mkdir(parents=True, exist_ok=True)
                sch = current.scheme
                try:
                    _presave(what, path, sch, current)
                except Exception as e:
                    ck.count("result:presave-rejected-" + type(e).__name__)
                continue
                if what == "model":
                    save_model(sch.model, path, allow_overwrite=True)
                elif what == "parameters":
                    save_parameters(sch.parameters, path, allow_overwrite=True)
                elif what == "data":
                    for l, dset in sch.data.items():
                        save_dataset(dset, Path(path).parent / f"{l}_in.nc", allow_overwrite=True)
                    for l, dset in current.data.items():
                        save_dataset(dset, Path(path).parent / f"{l}_res.nc", allow_overwrite=True)
                elif what == "scheme":
                    save_scheme(sch, path, allow_overwrite=True)
            elif kind == "move":
                Path(P(op[2])).parent.mkdir(parents=True, exist_ok=True)
                shutil.move(P(op[1]), P(op[2]))
            elif kind == "rm":              # the input data / an earlier copy is gone (a result folder must not need it)
                shutil.rmtree(P(op[1]), ignore_errors=True)
            elif kind == "load":
                try:
                    loaded = load_result(P(op[1]))
                except Exception as e:
                    ck.violation("load-result-raises", f"load_result({op[1]!r}) raises {e!r}"[:300], case)
                    return
                ck.oracle_evals += 1
                c2 = dict(case)
                result_diff(ck, reference, loaded, last_filter, c2)
                # correspondence: source_path state of the loaded Result
                try:
                    lf = Path(P(op[1]))
                    if lf.suffix not in (".yml", ".yaml"):
                        lf = lf / "result.yml"
                    yaml = YAML()
                    rd = plain(yaml.load(lf.read_text()))
                    sd = plain(yaml.load((lf.parent / rd["scheme"]).read_text()))
                    rr = flat_refs(rd, ["scheme", "initial_parameters", "optimized_parameters", "parameter_history", "optimization_history", "data"])
                    sr = flat_refs(sd, ["model", "parameters", "data"])
                    batch.add(f"loadsrcs {enc(Path(P(op[1])).as_posix())} {pairs_line(rr)} {pairs_line(sr)}", srcs_line(srcs_of(loaded)),
                              "load-result-srcs", f"source_path state after load_result({op[1]!r})", dict(case))
                except (OSError, KeyError):
                    pass
                if op[-1] == "adopt":
                    current = loaded
                    reference = loaded
                    last_filter = None
            elif kind == "save":
                path, o = op[1], op[2]
                target = P(path, o.get("abs", False))
                if o.get("filter") and any(v not in dset for dset in current.data.values() for v in o["filter"]):
                    o = dict(o, filter=None)      # a loaded, filtered result no longer has that variable
                    ck.count("result:filter-not-applicable")
                opts = SavingOptions(data_filter=o.get("filter"), report=o.get("report", True), parameter_format=o.get("pfmt", "csv"))
                case["pfmt_now"] = o.get("pfmt", "csv")
                before = srcs_of(current)
                cwd_parts = list(Path(os.getcwd()).parts[1:])
                try:
                    with warnings.catch_warnings():
                        warnings.simplefilter("ignore")
                        paths = save_result(current, target, allow_overwrite=True, saving_options=opts)
                except Exception as e:
                    ck.violation("save-result-raises", f"save_result(..., {path!r}, {o}) raises {e!r}"[:300], case)
                    return
                after = srcs_of(current)
                rf = Path(target)
                if rf.suffix not in (".yml", ".yaml"):
                    rf = rf / "result.yml"
                if not rf.is_file() or not (rf.parent / "scheme.yml").is_file() or rf.as_posix() not in [Path(p).as_posix() for p in paths]:
                    ck.violation("result-file-not-written", f"save_result(..., {path!r}) did not write {rf.as_posix()!r} and scheme.yml next to it "
                                 f"(returned paths: {sorted(paths)})"[:400], case)
                    return
                yaml = YAML()
                rdict = plain(yaml.load(rf.read_text()))
                sdict = plain(yaml.load((rf.parent / "scheme.yml").read_text()))
                rrefs = flat_refs(rdict, ["scheme", "initial_parameters", "optimized_parameters", "parameter_history", "optimization_history", "data"])
                srefs = flat_refs(sdict, ["model", "parameters", "data"])
                impl = f"{srcs_line(after)} {strs(sorted(paths))} {pairs_line(rrefs)} {pairs_line(srefs)}"

                def post(ans, _n=len(paths)):
                    t = core.parse_tree(ans)
                    if len(t) != 4:
                        return ans
                    files = sorted(core.dec(x[0]) for x in t[1])
                    return f"{ser(t[0])} {strs(files)} {ser(t[2])} {ser(t[3])}"
                batch.add(f"saveresult {strs(cwd_parts)} {enc(target)} {bool_(opts.report)} {bool_(opts.data_filter is not None)} "
                          f"{enc(opts.parameter_format)} {enc(opts.data_format)} {srcs_line(before)}", impl, "save-result-refs",
                          f"save_result to {path!r} with {o}: source_path state, files written, references in result.yml / scheme.yml",
                          dict(case), post=post)
                # oracle: every reference is relative, stays inside the folder and names a file written by this save
                ck.oracle_evals += 1
                written = {Path(p).resolve() for p in paths}
                for field, ref in rrefs + [["scheme." + f, r] for f, r in srefs]:
                    tgt = (rf.parent / ref)
                    bad = os.path.isabs(ref) or ".." in Path(ref).parts or tgt.resolve() not in written
                    if bad:
                        ck.violation("ref-not-inside-result-folder", f"{rf.name if field.count('.') == 0 else 'scheme.yml'} field {field}: reference {ref!r} "
                                     f"is not a file written into the result folder by this save_result", case)
                # correspondence: the whole result.yml against the field-table model (scheme / initial_parameters are the files of this save)
                from glotaran.project import Result as _Result
                batch.add("fields result", field_names_line(_Result), "result-field-table", "dataclasses.fields(Result) vs the regenerated table", dict(case))
                last_save = (strs(cwd_parts), (rf.parent / "scheme.yml").as_posix(), str(current.scheme.parameters.source_path), lst(fv_list(current)))
                batch.add(f"saveresult2 {last_save[0]} {enc(rf.parent.as_posix())} {enc(last_save[1])} {enc(last_save[2])} {last_save[3]}",
                          doc_text(rf.read_text()), "result-yml-document", "result.yml as written by save_result (keys, scalar texts, references)",
                          dict(case), cmp=doc_equiv)
                try:
                    reloaded = load_result(rf)
                except Exception as e:      # a result that cannot be loaded right after it was saved: the statement fails (not a crash)
                    ck.violation("load-result-raises", f"load_result({rf.name!r}) directly after save_result(..., {path!r}, {o}) raises {e!r}"[:400], case)
                    return
                batch.add(f"resultrt {last_save[0]} {enc(rf.parent.as_posix())} {enc(last_save[1])} {enc(last_save[2])} {last_save[3]}",
                          lst(fv_list(reloaded)), "result-loaded-instance", "field values of load_result(save_result(r))", dict(case),
                          post=loaded_post(rf.parent))
                for fname in STAT_FIELDS:
                    a = getattr(current, fname)
                    if a is not None and type(a) not in (int, float, bool, str, list) and not type(a).__module__.startswith("ruamel"):
                        ck.violation("result-field-not-a-yaml-type", f"result.{fname} holds {a!r} ({type(a).__name__})", dict(case))
                last_filter = o.get("filter")
                if current.source_path != Path(target).as_posix():
                    ck.violation("result-source-path", f"result.source_path {current.source_path!r} after saving to {target!r}", case)


FILTERS = [None, None, ["fitted_data", "residual"], ["data"]]


def rand_result_case(rng, base, inputs=False):
    """inputs=True: the class "input data loaded from files" (base["input_files"]): the result datasets inherit the source_path
    of the measurement files from `optimize`, are saved (more often with a data_filter than not), the measurement folder may be
    deleted before the result is loaded"""
    ops = []
    in_folder = None
    if inputs:
        in_folder = rng.choice(["measured", "data/raw", "$ROOT/abs_data"])
        base = dict(base, input_files=in_folder, input_abs=rng.random() < 0.4)
    if rng.random() < (0.2 if inputs else 0.45):
        names = {"model": "m.yml", "parameters": "p.csv", "data": "d.nc", "scheme": "myscheme.yml"}
        whats = rng.sample(["model", "parameters", "data"], rng.randint(0, 3)) + (["scheme"] if rng.random() < 0.7 else [])
        folder = rng.choice(["in/", "in/sub/", "", "$ROOT/abs_in/"])
        for what in whats:
            ops.append(["presave", what, (folder if rng.random() < 0.8 else "other/") + names[what], rng.random() < 0.3])
    deep = rng.random() < 0.25
    if deep:
        ops.append(["chdir", rng.choice(["work", "work/deep"])])
    folders = ["out", "out/run 1", "res.v1/x", ".", "a/../b", "out/result.yml", "out/res.yaml", "$ROOT/abs_out", "x/y/z/"]
    if deep:
        folders += ["../sibling", "..", ".."]
    for i in range(rng.choice([1, 1, 2, 3])):
        path = rng.choice(folders)
        o = {"filter": rng.choice(FILTERS[1:] + FILTERS[2:] if inputs else FILTERS), "report": rng.random() < 0.7,
             "pfmt": "csv", "abs": rng.random() < 0.25}
        ops.append(["save", path, o])
        is_file = path.endswith((".yml", ".yaml"))
        folder = str(Path(path).parent) if is_file else path
        r = rng.random()
        mode = "adopt" if rng.random() < 0.4 else "check"
        gone = [["rm", in_folder if in_folder.startswith("$ROOT") else "$ROOT/" + in_folder]] if inputs and rng.random() < 0.5 else []
        if r < 0.5 and folder not in (".", ".."):
            dst = rng.choice(["moved", "elsewhere/deep/m", "$ROOT/abs_moved"]) + str(i)
            ops.append(["move", folder, dst])
            ops += gone
            ops.append(["load", dst + ("/" + Path(path).name if is_file else ""), mode])
        elif r < 0.85 or inputs:
            ops += gone
            ops.append(["load", path, mode])
    return {"stream": "result", "base": base, "ops": ops}


def gen_result(ck):
    rng = ck.rng
    bases = []
    for _ in range(ck.n(5, 12)):
        # dataset labels name the files of a saved result: plain d1, d2, ... and labels that differ only after their last
        # dot / are prefixes of one another (seeded change C17-2: `with_suffix` made sample.470nm and sample.530nm share a file)
        dl = rng.choice([None, None, ["sample.470nm", "sample.530nm", "sample", "sample.470nm.b"], ["a", "a.b", "a.c", "ab"]])
        bases.append({"kind": "verif", "spec": gen_scheme.rand_spec(rng, allow_full=False, dataset_labels=dl, force={"n_datasets": rng.choice([2, 3, 4])} if dl else None),
                      "max_nfev": rng.choice([2, 3])})
    for _ in range(ck.n(2, 6)):
        bases.append({"kind": "builtin", "spec": G.rand_builtin(rng, min_items=rng.random() < 0.5), "max_nfev": 2, "raise": False})
    for b in bases:
        for _ in range(ck.n(4, 14)):
            yield rand_result_case(rng, b)
    # the usual way a Result comes about: the input data was loaded from files (the result datasets then carry the source_path
    # of the measurement before the first save_result; seeded change C17-8 left it in place for all but the last dataset of a
    # filtered save).  Not cached: one optimisation per case.
    for b in bases:
        for _ in range(ck.n(2, 4)):
            yield rand_result_case(rng, b, inputs=True)


# ================================================================================================
# stream: scheme (components saved anywhere, save_scheme -> load_scheme)
# ================================================================================================
def check_scheme(ck, case, batch):
    """case: {"stream":"scheme","base":{kind,spec},"cwd":[...],"where":{"model":path,"parameters":path,"data":folder},
              "scheme":path, "options":{...}}; paths may start with $ROOT (absolute)"""
    from glotaran.io import load_scheme, save_dataset, save_model, save_parameters, save_scheme
    from glotaran.project import Scheme
    from ruamel.yaml import YAML

    try:
        if case["base"]["kind"] == "verif":
            gen_scheme.model_class()
            _, model, parameters, data = gen_scheme.build(case["base"]["spec"])
        else:
            model, parameters, data = G.build_builtin(case["base"]["spec"])
    except Exception as e:
        ck.case(("scheme", json.dumps(case, sort_keys=True, default=str)), nontrivial=False)
        ck.count("scheme:build-rejected-" + type(e).__name__)
        return
    ck.case(("scheme", json.dumps(case, sort_keys=True, default=str)))
    with scratch(chdir=True) as root:
        cwd = root.joinpath(*case["cwd"]) if case["cwd"] else root
        cwd.mkdir(parents=True, exist_ok=True)
        os.chdir(cwd)
        cwd_parts = list(Path(os.getcwd()).parts[1:])

        def P(p):
            return p.replace("$ROOT", root.as_posix())
        w = case["where"]
        opts = dict(case.get("options", {}))
        scheme = Scheme(model=model, parameters=parameters, data=data, **opts)
        for p in (w["model"], w["parameters"], w["data"] + "/x", case["scheme"]):
            Path(P(p)).parent.mkdir(parents=True, exist_ok=True)
        save_model(scheme.model, P(w["model"]))
        save_parameters(scheme.parameters, P(w["parameters"]))
        for l, dset in scheme.data.items():
            save_dataset(dset, Path(P(w["data"])) / f"{l}.nc")
        srcs = {"model": scheme.model.source_path, "parameters": scheme.parameters.source_path,
                "data": [[k, v] for k, v in scheme.data.source_path.items()]}
        vs_before = fv_list(scheme)
        try:
            save_scheme(scheme, P(case["scheme"]))
        except Exception as e:
            ck.violation("save-scheme-raises", f"save_scheme raises {e!r}"[:300], case)
            return
        sdict = plain(YAML().load(Path(P(case["scheme"])).read_text()))
        refs = flat_refs(sdict, ["model", "parameters", "data"])
        batch.add(f"savescheme {strs(cwd_parts)} {enc(Path(P(case['scheme'])).as_posix())} {enc(srcs['model'])} {enc(srcs['parameters'])} "
                  f"{pairs_line(srcs['data'])}", pairs_line(refs), "save-scheme-refs", "references written by save_scheme", case)
        # correspondence: the whole scheme.yml (every field of the live class) and the loaded instance against the field-table model
        spath = Path(P(case["scheme"])).as_posix()
        batch.add("fields scheme", field_names_line(Scheme), "scheme-field-table", "dataclasses.fields(Scheme) vs the regenerated table", case)
        vs_line = lst(vs_before)
        batch.add(f"savescheme2 {strs(cwd_parts)} {enc(spath)} {vs_line}", doc_text(Path(P(case["scheme"])).read_text()), "scheme-yml-document",
                  "scheme.yml as written by save_scheme (keys, scalar texts, plain / quoted, references)", case, cmp=doc_equiv)
        if scheme.source_path != Path(P(case["scheme"])).as_posix():
            ck.violation("scheme-source-path", f"scheme.source_path {scheme.source_path!r} after save_scheme to {case['scheme']!r}", case)
        # oracle: the scheme comes back
        ck.oracle_evals += 1
        folder = Path(P(case["scheme"])).parent
        outside = [s for s in [srcs["model"], srcs["parameters"]] + [v for _, v in srcs["data"]]
                   if not os.path.isabs(s) and folder.resolve() not in Path(s).resolve().parents]
        ck.count("scheme:" + ("relative-component-outside-folder" if outside else "components-absolute-or-below"))
        try:
            loaded = load_scheme(P(case["scheme"]))
        except Exception as e:
            ck.violation("ref-relative-outside-folder" if outside else "load-scheme-raises", f"load_scheme raises {e!r}"[:300], case)
            return
        batch.add(f"schemert {strs(cwd_parts)} {enc(spath)} {vs_line}", lst(fv_list(loaded)), "scheme-loaded-instance",
                  "field values of load_scheme(save_scheme(s))", case, post=loaded_post(Path(spath).parent))
        import dataclasses as _dc
        # the options of the property statement, spelled out here (not read from the class under test), plus whatever else the live class persists
        spelled = ["clp_link_tolerance", "clp_link_method", "maximum_number_function_evaluations", "add_svd", "ftol", "gtol", "xtol",
                   "optimization_method", "result_path"]
        live = [x.name for x in _dc.fields(Scheme) if "file_loader" not in x.metadata and "exclude_from_dict" not in x.metadata]
        for f in spelled + [x for x in live if x not in spelled]:
            a, b = getattr(scheme, f), getattr(loaded, f)
            if type(a) is not type(b) and not (isinstance(a, float) and isinstance(b, float)) and not (isinstance(a, str) and isinstance(b, str)):
                ck.violation("scheme-option-type-differs", f"scheme.{f}: saved {a!r} ({type(a).__name__}), loaded {b!r} ({type(b).__name__})", case)
            if a != b or (isinstance(a, float) and struct.pack("d", a) != struct.pack("d", float(b))):
                ck.violation("scheme-option-differs", f"scheme.{f}: saved {a!r}, loaded {b!r}", case)
        if not same_value(listify(scheme.model.as_dict()), listify(plain(loaded.model.as_dict()))):
            ck.violation(classify_exotic(scheme.model.as_dict()) or "scheme-model-differs", "scheme.model differs after save_scheme -> load_scheme", case)
        pa, pb = scheme.parameters, loaded.parameters
        if list(pa.labels) != list(pb.labels):
            ck.violation("scheme-parameters-differ", f"labels {pa.labels} vs {pb.labels}", case)
        else:
            for l in pa.labels:
                for att in PARAM_ATTRS:
                    u, v = getattr(pa.get(l), att), getattr(pb.get(l), att)
                    same = (u == v) or (isinstance(u, float) and isinstance(v, float) and u != u and v != v)
                    if not same:
                        small = isinstance(u, float) and isinstance(v, float) and abs(u - v) <= 1e-12 * abs(u)
                        # xlsx: openpyxl writes numbers with 16 significant digits (recorded under C16 as xlsx-float-16-digits)
                        is_xlsx = str(case.get("where", {}).get("parameters", "")).endswith(".xlsx")
                        ck.violation("xlsx-float-16-digits" if (small and is_xlsx) else "scheme-parameters-differ",
                                     f"parameters.{l}.{att}: {u!r} vs {v!r}", case)
        if list(scheme.data.keys()) != list(loaded.data.keys()):
            ck.violation("scheme-data-differs", f"data labels {list(scheme.data)} vs {list(loaded.data)}", case)
        else:
            for l in scheme.data:
                dd = dataset_diff(scheme.data[l], loaded.data[l])
                if dd:
                    ck.violation("scheme-data-differs", f"dataset {l!r}: {dd}", case)


def gen_scheme_cases(ck):
    rng = ck.rng
    for _ in range(ck.n(16, 200)):
        if rng.random() < 0.6:
            base = {"kind": "verif", "spec": gen_scheme.rand_spec(rng)}
        else:
            base = {"kind": "builtin", "spec": G.rand_builtin(rng, min_items=rng.random() < 0.5)}
        cwd = [rng.choice(["w", "a"]) for _ in range(rng.randint(0, 2))]
        sfolder = rng.choice(["", "in/", "in/sub/", "$ROOT/abs_s/", "a/../in/"])
        layout = rng.choice(["same", "below", "absolute", "mixed", "outside"])

        def where(kind):
            if layout == "same":
                return sfolder
            if layout == "below":
                return sfolder + rng.choice(["", "parts/", "parts/deep/"])
            if layout == "absolute":
                return "$ROOT/elsewhere/" + rng.choice(["", "x/"])
            if layout == "mixed":
                return rng.choice([sfolder, sfolder + "sub2/", "$ROOT/elsewhere/"])
            return rng.choice(["other/", sfolder, "$ROOT/elsewhere/"])
        w = {"model": where("m") + "m.yml", "parameters": where("p") + rng.choice(["p.csv", "p.csv", "p.tsv", "p.xlsx"]), "data": (where("d") + "data").rstrip("/")}
        opts = {}
        if rng.random() < 0.6:
            tol = [1e-8, 1e-10, 0.001, 1.0, 1e-15, 2.5e-9, 1e20, 0.1, 1.5e-07]
            opts = {"clp_link_tolerance": rng.choice([0.0, 0.5, 1e-7, 1.0, 1e-08]), "maximum_number_function_evaluations": rng.choice([None, 0, 1, 25, 10**9]),
                    "add_svd": rng.random() < 0.5, "ftol": rng.choice(tol), "gtol": rng.choice(tol), "xtol": rng.choice(tol),
                    "optimization_method": rng.choice(["TrustRegionReflection", "Dogbox", "Levenberg-Marquardt"]),
                    "clp_link_method": rng.choice(["nearest", "backward", "forward"])}
            if rng.random() < 0.5:
                opts["result_path"] = rng.choice(["results/run", None, "1e3", "null", "5", "", "out dir/run 1", "true", "1e-08", "~"])
        yield {"stream": "scheme", "base": base, "cwd": cwd, "where": w, "scheme": sfolder + rng.choice(["scheme.yml", "my scheme.yaml"]), "options": opts}


# ================================================================================================
# stream: yaml  (scalars through write_dict / load_dict; ruamel's resolver) + dataclass instances as field values
# ================================================================================================
YAML_TAGS = {"tag:yaml.org,2002:bool": "bool", "tag:yaml.org,2002:float": "float", "tag:yaml.org,2002:int": "int",
             "tag:yaml.org,2002:null": "null"}
_RESOLVER: list = []


def yaml_kind(text):
    """the tag ruamel's own (1.2) resolver gives a plain scalar"""
    from ruamel.yaml import YAML
    from ruamel.yaml.nodes import ScalarNode
    if not _RESOLVER:
        _RESOLVER.append(YAML())          # the resolver only holds a weak reference to its YAML object
    return YAML_TAGS.get(str(_RESOLVER[0].resolver.resolve(ScalarNode, text, (True, False))), "rest")


def enc_pv(v):
    """python value of a plain field -> protocol text (PV of C17Scheme.lean)"""
    if v is None:
        return "none"
    if type(v) is bool:
        return f"[b,{bool_(v)}]"
    if type(v) is int or (isinstance(v, int) and type(v).__module__.startswith("ruamel")):
        return f"[i,{int(v)}]"
    if type(v) is float or (isinstance(v, float) and type(v).__module__.startswith("ruamel")):
        return f"[f,{enc(SC.float_yaml_text(float(v)))}]"
    if type(v) is str or (isinstance(v, str) and type(v).__module__.startswith("ruamel")):
        return f"[s,{enc(str(v))}]"
    if isinstance(v, (list, tuple)) and all(isinstance(x, str) for x in v) and not isinstance(v, tuple):
        return f"[l,{strs([str(x) for x in v])}]"
    return f"[o,{enc(type(v).__module__.split('.')[0] + '.' + type(v).__name__)}]"


def tok_of(node):
    return f"[{'p' if not node.style else 'q'},{enc(node.value)}]"


def node_text(node):
    from ruamel.yaml.nodes import MappingNode, ScalarNode, SequenceNode
    if isinstance(node, ScalarNode):
        return tok_of(node)
    if isinstance(node, SequenceNode) and all(isinstance(x, ScalarNode) for x in node.value):
        return "[seq," + lst(tok_of(x) for x in node.value) + "]"
    if isinstance(node, MappingNode) and all(isinstance(k, ScalarNode) and isinstance(v, ScalarNode) for k, v in node.value):
        return "[map," + lst(f"[{enc(k.value)},{tok_of(v)}]" for k, v in node.value) + "]"
    return "[unmodelled-node]"


def doc_text(yaml_text):
    """a written yml file -> the model's document syntax (keys, plain / quoted scalars, flat sequences and mappings)"""
    from ruamel.yaml import YAML
    root = YAML().compose(yaml_text)
    return lst(f"[{enc(k.value)},{node_text(v)}]" for k, v in root.value)


def doc_equiv(impl, model):
    """equal, except that a string the model writes plain may be quoted in the file (the emitter's syntactic reasons are not modelled)"""
    if impl == model:
        return True
    try:
        a, b = core.parse_tree(impl), core.parse_tree(model)
    except Exception:  # noqa: BLE001
        return False

    def eq(x, y):
        if isinstance(x, list) and isinstance(y, list):
            if len(x) == 2 and len(y) == 2 and x[0] == "q" and y[0] == "p":
                return x[1] == y[1]
            return len(x) == len(y) and all(eq(u, v) for u, v in zip(x, y))
        return x == y
    return eq(a, b)


def fv_list(obj, loaded_folder=None):
    """a Scheme / Result instance -> the model's list of field values (order of dataclasses.fields of the live class)"""
    import dataclasses
    from collections.abc import Mapping
    out = []
    for f in dataclasses.fields(obj):
        v = getattr(obj, f.name)
        if "file_loader" in f.metadata:
            sp = getattr(v, "source_path", None)
            if isinstance(sp, Mapping):
                out.append("[cs," + pairs_line([[k, str(x)] for k, x in sp.items()]) + "]")
            else:
                out.append("[c,none]" if sp is None else f"[c,{enc(str(sp))}]")
        elif "exclude_from_dict" in f.metadata:
            out.append("hidden")
        else:
            out.append(f"[v,{enc_pv(v)}]")
    return out


def loaded_post(folder):
    """model answer for a loaded instance -> comparable with fv_list(loaded): dataset references become the paths they are read from"""
    def post(ans):
        if ans in ("raises", "bad-op"):
            return ans
        t = core.parse_tree(ans)[0]
        for fv in t:
            if isinstance(fv, list) and fv and fv[0] == "cs":
                fv[1] = [[kv[0], enc((Path(folder) / core.dec(kv[1])).as_posix())] for kv in fv[1]]
        return ser(t)
    return post


def field_names_line(cls):
    import dataclasses
    return lst(enc(f.name) for f in dataclasses.fields(cls))


YAML_STRS = ["nearest", "TrustRegionReflection", "Levenberg-Marquardt", "results/run 1", "", " ", "a b", "null", "Null", "~", "true", "False",
             "yes", "1", "-5", "+7", "1_0", "0x1F", "0o17", "0b101", "017", "1.5", "1.", ".5", "1e3", "1e-08", "1E5", "1.e5", ".5e+3", ".5e3",
             "-.inf", ".INF", ".nan", "+.Inf", "x: y", "# c", "- a", "'q'", "é", "2020-01-01", "<<", "=", "k.1", "irf.center", "e5", "_1", "1__",
             "+", "-", ".", "0x", "1e", "1e+", "12e+5.5", "inf", "nan", "TRUE", "NULL", "0.0", "-0.0", "-0", "1.5e-07x"]
YAML_FLOATS = [0.0, -0.0, 1.0, 1e-8, 1e-08, 1.5e-7, 1e-10, 0.001, 1e20, 1e16, 1e22, 123456789.123, 8.674768301156866e-07, 5e-324,
               1.7976931348623157e308, 2.2250738585072014e-308, 0.1, 1 / 3, -2.5e-3, 1e15, 1e17, 12345678901234567890.0, float("inf"),
               float("-inf"), float("nan")]


def check_yaml(ck, case, batch):
    from glotaran.builtin.io.yml.utils import load_dict, write_dict

    kind, raw = case["kind"], case["v"]
    ck.case(("yaml", kind, json.dumps(raw)))
    if kind == "text":
        # a text as a plain scalar: the model's resolver against ruamel's own
        if raw.isascii() and "\n" not in raw:
            batch.add(f"ykind {enc(raw)}", yaml_kind(raw), "yaml-resolver", f"tag of the plain scalar {raw!r} (ruamel's resolver)", case)
            ck.count("yaml:text-" + yaml_kind(raw))
        v = raw
    elif kind == "float":
        v = float(G.from_json(raw)) if isinstance(raw, dict) else float(Fraction(raw))
        batch.add(f"pyfloat {enc(SC.float_yaml_text(v))}", "T", "float-text", f"the text written for the float {v!r} is of the modelled form", case, internal=True)
    elif kind == "int":
        v = int(raw)
    elif kind == "numpy":
        v = getattr(np, raw[0])(raw[1])
    elif kind == "strs":
        v = list(raw)
    else:
        v = {"none": None, "true": True, "false": False}[raw]
    # correspondence: what write_dict writes for {"k": v}
    try:
        text = write_dict({"k": v})
        impl = doc_text(text)
    except Exception as e:  # noqa: BLE001
        text, impl = None, "raises"
        ck.count("yaml:write-raises-" + type(e).__name__)
    if (isinstance(v, str) and not v.isascii()) or (isinstance(v, list) and not all(x.isascii() for x in v)):
        ck.count("yaml:non-ascii-oracle-only")
    else:
        batch.add(f"emitpv {enc_pv(v)}", impl, "yaml-emit", f"write_dict of the value {v!r}", case, cmp=doc_equiv,
                  post=lambda a: a if a == "raises" else lst([f"[{enc('k')},{a}]"]))
    if text is None:
        if kind != "numpy":
            ck.violation("yaml-value-not-writable", f"write_dict raises for the value {v!r} of a type the scheme / result fields declare", case)
        return
    # correspondence + oracle (statement): the value comes back with the same type and the same bits
    back = load_dict(text, False)["k"]
    ck.oracle_evals += 1
    if isinstance(v, (bool, int, float, str)) or v is None:
        tok = core.parse_tree(impl)[0][0][1]
        if isinstance(tok, list) and tok[0] in ("p", "q") and core.dec(tok[1]).isascii():
            batch.add(f"resolve [{tok[0]},{tok[1]}]", enc_pv(back), "yaml-resolve", f"load_dict of the scalar written for {v!r}", case)
    same = (type(back) is type(v) or (isinstance(v, float) and isinstance(back, float) and not isinstance(back, bool))
            or (isinstance(v, list) and isinstance(back, list)))
    if isinstance(v, float):
        same = same and (struct.pack("d", float(back)) == struct.pack("d", v) or (v != v and back != back))
    elif isinstance(v, list):
        same = same and [str(x) for x in back] == v and all(isinstance(x, str) for x in back)
    else:
        same = same and back == v
    if not same:
        ck.violation("yaml-scalar-roundtrip", f"write_dict -> load_dict turns {v!r} ({type(v).__name__}) into {back!r} ({type(back).__name__})", case)


def gen_yaml(ck):
    rng = ck.rng
    for s in YAML_STRS:
        yield {"stream": "yaml", "kind": "text", "v": s}
    for x in YAML_FLOATS:
        yield {"stream": "yaml", "kind": "float", "v": G.to_json(x) if (x != x or abs(x) == float("inf")) else str(Fraction(x))}
    for v in ("none", "true", "false"):
        yield {"stream": "yaml", "kind": "const", "v": v}
    for v in (["float64", 1e-8], ["int64", 3], ["bool_", True], ["float32", 0.5]):
        yield {"stream": "yaml", "kind": "numpy", "v": v}
    yield {"stream": "yaml", "kind": "strs", "v": []}
    for _ in range(ck.n(250, 4000)):
        r = rng.random()
        if r < 0.3:
            x = rng.choice([rng.uniform(-1, 1) * 10.0 ** rng.randint(-320, 308), float(rng.randint(-10**6, 10**6)),
                            rng.choice([1, 2, 5]) * 10.0 ** rng.randint(-30, 30), rng.random()])
            yield {"stream": "yaml", "kind": "float", "v": str(Fraction(x))}
        elif r < 0.45:
            yield {"stream": "yaml", "kind": "int", "v": str(rng.choice([0, 1, -1, rng.randint(-10**6, 10**6), rng.randint(-10**30, 10**30)]))}
        elif r < 0.55:
            yield {"stream": "yaml", "kind": "strs", "v": [rng.choice(YAML_STRS) for _ in range(rng.randint(0, 3))]}
        else:
            n = rng.randint(0, 7)
            yield {"stream": "yaml", "kind": "text", "v": "".join(rng.choice("01.eE+-_xb~ntf.5ul:") for _ in range(n))}
    if not ck.quick:
        for n in range(0, 6):
            for t in itertools.product("1.e+_", repeat=n):
                yield {"stream": "yaml", "kind": "text", "v": "".join(t)}
        ck.extra["exhaustive_yaml"] = "all strings of length <= 5 over '1.e+_' through the resolver and write_dict / load_dict"


# ================================================================================================
# stream: netcdf
# ================================================================================================
SPECIAL = [0.0, -0.0, 1.0, -1.5, float("nan"), float("inf"), float("-inf"), 5e-324, 2.2250738585072014e-308, 1.7976931348623157e308,
           0.1, 1 / 3, 1e-10, 123456.789]


def build_dataset(spec):
    import xarray as xr
    rs = np.random.RandomState(spec["seed"])
    coords, dims = {}, []
    for d in spec["dims"]:
        n = d["n"]
        if d["kind"] == "float":
            vals = np.array([d["start"] + d["step"] * i for i in range(n)], dtype=float)
            if d.get("shuffle"):
                rs.shuffle(vals)
        elif d["kind"] == "int":
            vals = np.arange(n, dtype=np.int64) * d["step"] + int(d["start"])
        elif d["kind"] == "str":
            vals = np.array([f"{d.get('prefix', 'clp')}_{i}" for i in range(n)], dtype=object if d.get("object") else str)
        else:
            vals = None
        dims.append(d["name"])
        if vals is not None:
            coords[d["name"]] = vals
    ds = xr.Dataset(coords=coords)
    for v in spec["vars"]:
        shape = tuple(next(d["n"] for d in spec["dims"] if d["name"] == x) for x in v["dims"])
        size = int(np.prod(shape)) if shape else 1
        if v["dtype"] == "special":
            arr = np.array([SPECIAL[rs.randint(len(SPECIAL))] for _ in range(size)], dtype=float).reshape(shape)
        elif v["dtype"] == "float32":
            arr = rs.standard_normal(size).astype(np.float32).reshape(shape)
        elif v["dtype"] == "int":
            arr = rs.randint(-1000, 1000, size=size).astype(np.int64).reshape(shape)
        elif v["dtype"] == "bool":
            arr = (rs.randint(0, 2, size=size) > 0).reshape(shape)
        else:
            arr = (rs.standard_normal(size) * 10.0 ** rs.randint(-12, 12)).reshape(shape)
        ds[v["name"]] = (tuple(v["dims"]), arr)
    for k, v in spec.get("attrs", {}).items():
        ds.attrs[k] = np.array(v) if isinstance(v, list) else v
    return ds


def rand_dataset_spec(rng):
    names = rng.sample(["time", "spectral", "clp_label", "species", "left_singular_value_index", "x"], rng.randint(1, 3))
    dims = []
    for n in names:
        kind = "str" if n in ("clp_label", "species") else rng.choice(["float", "float", "int", "none"])
        dims.append({"name": n, "n": rng.choice([0, 1, 1, 2, 3, 5, 8]), "kind": kind, "start": rng.choice([0.0, -1.0, 400.0, 0.25, 1e-9]),
                     "step": rng.choice([1.0, 0.5, 0.1, 10.0, -1.0]), "shuffle": rng.random() < 0.2, "object": rng.random() < 0.5,
                     "prefix": rng.choice(["clp", "s", "é", "a b"])})
    vars_ = []
    for i in range(rng.randint(1, 4)):
        vd = rng.sample(names, rng.randint(0 if i else 1, len(names)))
        vars_.append({"name": rng.choice(["data", "fitted_data", "residual", "clp", "weight", "matrix"]) + (str(i) if i else ""),
                      "dims": vd, "dtype": rng.choice(["float", "float", "special", "float32", "int", "bool"])})
    attrs = {}
    if rng.random() < 0.6:
        attrs["root_mean_square_error"] = rng.choice([0.1, 1e-20, float("nan")])
    if rng.random() < 0.4:
        attrs["model_dimension"] = "time"
    if rng.random() < 0.3:
        attrs["dataset_scale"] = rng.choice([1, 2.5])
    if rng.random() < 0.2:
        attrs["vec"] = [1.0, 2.5]
    return {"dims": dims, "vars": vars_, "attrs": attrs, "seed": rng.randint(0, 10**6)}


def check_netcdf(ck, case, batch):
    from glotaran.io import load_dataset, save_dataset

    try:
        ds = build_dataset(case["spec"])
    except Exception as e:
        ck.case(("netcdf", json.dumps(case, sort_keys=True)), nontrivial=False)
        ck.count("netcdf:build-rejected-" + type(e).__name__)
        return
    ck.case(("netcdf", json.dumps(case, sort_keys=True)))
    with scratch(chdir=True) as root:
        target = case.get("file", "d.nc").replace("$ROOT", root.as_posix())
        Path(target).parent.mkdir(parents=True, exist_ok=True)
        try:
            save_dataset(ds, target)
            loaded = load_dataset(target)
        except Exception as e:
            ck.violation("netcdf-roundtrip-raises", f"save_dataset -> load_dataset raises {e!r}"[:300], case)
            return
        ck.oracle_evals += 1
        ck.count("netcdf:vars-" + str(len(ds.data_vars)))
        for d in case["spec"]["dims"]:
            ck.count(f"netcdf:dim-{d['kind']}-n{min(d['n'], 2)}{'+' if d['n'] > 2 else ''}")
        dd = dataset_diff(ds, loaded)
        if dd:
            ck.violation("netcdf-not-bit-equal", f"dataset differs after save_dataset -> load_dataset: {dd}", case)
        if ds.attrs.get("source_path") != Path(target).as_posix() or loaded.attrs.get("source_path") != Path(target).as_posix():
            ck.violation("dataset-source-path", f"source_path attrs {ds.attrs.get('source_path')!r} / {loaded.attrs.get('source_path')!r} for file {target!r}", case)


def gen_netcdf(ck):
    rng = ck.rng
    for _ in range(ck.n(80, 1200)):
        c = {"stream": "netcdf", "spec": rand_dataset_spec(rng)}
        if rng.random() < 0.3:
            c["file"] = rng.choice(["sub/dir/x.nc", "$ROOT/abs/y.nc", "name with blank.nc"])
        yield c


# ================================================================================================
# stream: ascii
# ================================================================================================
def check_ascii(ck, case, batch):
    import xarray as xr
    from glotaran.builtin.io.ascii.wavelength_time_explicit_file import DataFileType
    from glotaran.io import load_dataset, save_dataset

    times = [float(Fraction(x)) for x in case["times"]]
    spectral = [float(Fraction(x)) for x in case["spectral"]]
    vals = np.array([[float(Fraction(x)) for x in row] for row in case["values"]], dtype=float)   # time x spectral
    tf = case["time_first"]
    fmt = case["format"]
    ck.case(("ascii", json.dumps(case, sort_keys=True)))
    ck.count(f"ascii:{fmt}:{'time-first' if tf else 'spectral-first'}:{'square' if len(times) == len(spectral) else 'non-square'}")
    if case.get("int_axis"):
        tarr, sarr = np.array(times).astype(np.int64), np.array(spectral).astype(np.int64)
    else:
        tarr, sarr = np.array(times), np.array(spectral)
    if tf:
        da = xr.DataArray(vals, coords=[("time", tarr), ("spectral", sarr)])
    else:
        da = xr.DataArray(vals.T.copy(), coords=[("spectral", sarr), ("time", tarr)])
    with scratch() as d:
        f = d / "x.ascii"
        try:
            save_dataset(da, f, file_format=DataFileType.time_explicit if fmt == "time" else DataFileType.wavelength_explicit)
            loaded = load_dataset(f, prepare=False)
            text = f.read_text().splitlines()
        except Exception as e:
            ck.violation("ascii-roundtrip-raises", f"save_dataset/load_dataset (ascii, {fmt}-explicit, dims "
                         f"{'(time, spectral)' if tf else '(spectral, time)'}, shape {vals.shape}) raises {e!r}"[:300], case)
            return
    if hasattr(loaded, "data_vars"):
        loaded = loaded.data
    rnd = lambda x: float("%.10e" % x)

    def close(a, b):
        a, b = float(a), float(b)
        return a == b or abs(a - b) <= 1e-10 * abs(a)

    # correspondence 1: the file (explicit axis line + rows) is what the model writes
    try:
        header = [float(x) for x in text[4].split("\t")]
        rows = [[float(x) for x in l.split("\t")] for l in text[5:]]
        impl_file = f"{rats(header)} " + lst(rats(r) for r in rows)
    except ValueError:
        impl_file = "unparsable:" + text[4][:60]
    mat = lst(rats(r) for r in (vals if tf else vals.T).tolist())

    def post_file(ans):
        t = core.parse_tree(ans)
        if len(t) != 2:
            return ans
        hdr = [float(Fraction(x)) for x in t[0]]
        rws = [[rnd(float(Fraction(x))) for x in r] for r in t[1]]
        return f"{rats(hdr)} " + lst(rats(r) for r in rws)
    batch.add(f"asciiw {fmt} {bool_(tf)} {rats(times)} {rats(spectral)} {mat}", impl_file, "ascii-file", f"{fmt}-explicit file content", case, post=post_file)
    # correspondence 2: what comes back
    if loaded.dims != ("time", "spectral"):
        ck.violation("ascii-dims", f"loaded dims {loaded.dims}", case)
        return
    try:
        impl_rt = f"{rats(loaded.time.values.tolist())} {rats(loaded.spectral.values.tolist())} " + lst(rats(r) for r in loaded.values.tolist())
    except (TypeError, ValueError):
        impl_rt = "non-numeric-axis:" + repr(loaded.time.values.tolist()[:2]) + repr(loaded.spectral.values.tolist()[:2])

    def post_rt(ans):
        t = core.parse_tree(ans)
        if len(t) != 3:
            return ans
        tt = [float(Fraction(x)) for x in t[0]]
        ss = [float(Fraction(x)) for x in t[1]]
        if fmt == "time":
            ss = [rnd(x) for x in ss]
        else:
            tt = [rnd(x) for x in tt]
        return f"{rats(tt)} {rats(ss)} " + lst(rats([rnd(float(Fraction(x))) for x in r]) for r in t[2])
    batch.add(f"asciirt {fmt} {bool_(tf)} {rats(times)} {rats(spectral)} {mat}", impl_rt, "ascii-roundtrip",
              f"load_dataset(save_dataset(d)) for a {fmt}-explicit file", case, post=post_rt)
    # oracle (statement): values to the written precision, both axes, right orientation
    ck.oracle_evals += 1
    ok_shape = loaded.shape == vals.shape
    try:
        lt, ls = [float(x) for x in loaded.time.values], [float(x) for x in loaded.spectral.values]
    except (TypeError, ValueError):
        ck.violation("ascii-axis-not-numeric", f"axes come back as {loaded.time.values.tolist()[:3]!r} / {loaded.spectral.values.tolist()[:3]!r}", case)
        return
    if not ok_shape or not all(close(a, b) for a, b in zip(times, lt)) or not all(close(a, b) for a, b in zip(spectral, ls)) \
            or len(lt) != len(times) or len(ls) != len(spectral):
        ck.violation("ascii-axes-differ", f"axes differ: time {times} -> {lt}, spectral {spectral} -> {ls}", case)
        return
    explicit_exact = (lt == times) if fmt == "time" else (ls == spectral)
    if not explicit_exact:
        ck.violation("ascii-explicit-axis-inexact", "the explicit axis (written with repr) does not come back exactly", case)
    if not all(close(vals[i, j], loaded.values[i, j]) for i in range(vals.shape[0]) for j in range(vals.shape[1])):
        ck.violation("ascii-values-differ", f"values differ beyond the written precision (or are transposed): {vals.tolist()} -> {loaded.values.tolist()}"[:400], case)


def rand_ascii_case(rng, shape=None):
    nt, ns = shape or (rng.randint(1, 5), rng.randint(1, 5))
    int_axis = rng.random() < 0.2
    t0 = rng.choice([-1.0, 0.0, 0.5, -0.25]) if not int_axis else rng.choice([0, -2, 5])
    dt = rng.choice([0.5, 0.25, 1.0, 0.1, 1e-3]) if not int_axis else rng.choice([1, 2])
    times = [t0 + dt * i for i in range(nt)]
    s0 = rng.choice([400.0, 512.5, 1e-7, 6.5e4]) if not int_axis else rng.choice([400, 500])
    dsx = rng.choice([10.0, 0.5, -5.0, 1 / 3]) if not int_axis else rng.choice([10, -5])
    spectral = [s0 + dsx * i for i in range(ns)]
    if rng.random() < 0.15 and not int_axis:
        rng.shuffle(times)

    def val():
        r = rng.random()
        if r < 0.1:
            return 0.0
        if r < 0.2:
            return float(rng.randint(-9, 9))
        return rng.uniform(-1, 1) * 10.0 ** rng.randint(-15, 15)
    values = [[val() for _ in range(ns)] for _ in range(nt)]
    fr = lambda x: str(Fraction(float(x)))
    return {"stream": "ascii", "format": rng.choice(["time", "wavelength"]), "time_first": rng.random() < 0.5, "int_axis": int_axis,
            "times": [fr(x) for x in times], "spectral": [fr(x) for x in spectral], "values": [[fr(x) for x in r] for r in values]}


def gen_ascii(ck):
    rng = ck.rng
    for _ in range(ck.n(100, 600)):
        yield rand_ascii_case(rng)
    if not ck.quick:
        for nt in range(1, 5):
            for ns in range(1, 5):
                for fmt in ("time", "wavelength"):
                    for tf in (True, False):
                        c = rand_ascii_case(rng, (nt, ns))
                        c["format"], c["time_first"] = fmt, tf
                        yield c
        ck.extra["exhaustive_ascii"] = "every shape 1..4 x 1..4 x both formats x both dimension orders"


# ================================================================================================
# driver of the check
# ================================================================================================
CHECKERS = {"yaml": check_yaml, "text": check_text, "tree": check_tree, "interval": check_interval, "path": check_path, "model": check_model,
            "result": check_result, "scheme": check_scheme, "netcdf": check_netcdf, "ascii": check_ascii}
GENERATORS = [("text", gen_text), ("yaml", gen_yaml), ("tree", gen_tree), ("interval", gen_interval), ("path", gen_path), ("ascii", gen_ascii),
              ("netcdf", gen_netcdf), ("model", gen_model), ("scheme", gen_scheme_cases), ("result", gen_result)]


def run_case(ck, case, batch):
    import copy
    with warnings.catch_warnings():
        warnings.simplefilter("ignore")
        CHECKERS[case["stream"]](ck, copy.deepcopy(case), batch)


def run(ck):
    batch = Batch()
    for c in core.load_corpus(PROP):
        run_case(ck, c["case"] if "case" in c and "stream" not in c else c, batch)
        ck.count("stream:corpus")
    batch.flush(ck)
    sampled = set()
    for name, gen in GENERATORS:
        for case in gen(ck):
            run_case(ck, case, batch)
            ck.count("stream:" + name)
            if name not in sampled and name in ("tree", "path", "model", "result", "scheme", "ascii", "interval"):
                sampled.add(name)
                ck.sample(_short(case), limit=8)
            if len(batch.items) >= 3000:
                batch.flush(ck)
        batch.flush(ck)


def _short(case):
    s = json.dumps(case, default=str)
    return case if len(s) < 1500 else {"stream": case["stream"], "abridged": s[:1500]}


def search(ck):
    """widened sweep through the oracles on the real code (time-boxed; only violations matter here)"""
    import time
    batch = Batch()
    wide = core.Check(PROP, "thorough", ck.seed + 1000)
    wide.rng = ck.rng
    t0 = time.time()
    budget = 60 if ck.quick else 400
    # the API-level streams first (a broken table / shape theorem is most likely witnessed by a scheme or a result)
    first = ("scheme", "result", "yaml", "model")
    for name, gen in sorted(GENERATORS, key=lambda g: first.index(g[0]) if g[0] in first else len(first)):
        t1 = time.time()
        share = budget / len(GENERATORS)
        for case in gen(wide):
            run_case(ck, case, batch)
            batch.items.clear()
            if ck.violations or time.time() - t1 > share:
                break
        if ck.violations or time.time() - t0 > budget:
            return


def replay(ck, case):
    cases = []
    if "case" in case and isinstance(case["case"], dict) and "stream" in case["case"]:
        cases.append(case["case"])
    elif "stream" in case:
        cases.append(case)
    for d in case.get("disagreements", []):
        cases.append(d["case"])
    batch = Batch()
    for c in cases:
        run_case(ck, c, batch)
    batch.flush(ck)
    for d in ck.disagreements:
        print("DISAGREEMENT", d["what"])
