"""C15 helper: the fault-injecting test megacomplex (imported lazily by c15.py after glotaran has been located).

No `from __future__ import annotations` here: glotaran's `@item` resolves the annotations of the class at
definition time, so the names must be real module-level objects.
"""
import numpy as np

from glotaran.model import DatasetModel
from glotaran.model import Megacomplex
from glotaran.model import Model
from glotaran.model import ParameterType
from glotaran.model import item
from glotaran.model import megacomplex

#: set by c15.py — object with `on_call(array) -> None | float` (may raise)
INJECTOR = None


@item
class VerifFaultDatasetModel(DatasetModel):
    kinetic: list[ParameterType]


@megacomplex(dataset_model_type=VerifFaultDatasetModel)
class VerifFaultMegacomplex(Megacomplex):
    type: str = "verif-c15-fault-mc"
    dimension: str = "model"
    is_index_dependent: bool

    def calculate_matrix(self, dataset_model, global_axis, model_axis, **kwargs):
        kin = -1.0 * np.asarray(dataset_model.kinetic)
        compartments = [f"s{i + 1}" for i in range(len(kin))]
        array = np.exp(np.outer(model_axis, kin))
        bad = INJECTOR.on_call(array)
        if bad is not None:
            array = np.full_like(array, bad)
        if self.is_index_dependent:
            array = np.array([array] * global_axis.size)
        return compartments, array

    def finalize_data(self, dataset_model, dataset, is_full_model=False, as_global=False):
        pass


FaultModel = Model.create_class_from_megacomplexes([VerifFaultMegacomplex])
