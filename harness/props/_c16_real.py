"""C16 — adapters to the real code, canonicalisers, protocol encoders (no generators, no verdicts)."""
from __future__ import annotations

import csv as _csv
import io
import math
import shutil
import tempfile
import warnings
from fractions import Fraction
from pathlib import Path

from harness import core
from harness.core import enc

FIELDS = ["label", "value", "standard_error", "expression", "maximum", "minimum", "non_negative", "vary"]
FORMATS = ["csv", "tsv", "xlsx", "ods"]


# ------------------------------------------------------------------------------------------
# numbers
# ------------------------------------------------------------------------------------------
def flt(x) -> str:
    """canonical text of a Python number as the model prints a `Flt`"""
    xf = float(x)
    if math.isnan(xf):
        return "nan"
    if xf == math.inf:
        return "inf"
    if xf == -math.inf:
        return "-inf"
    if isinstance(x, int) and not isinstance(x, bool):
        return str(x)
    return core.rat(xf)


def unflt(s: str) -> float:
    if s == "nan":
        return math.nan
    if s == "inf":
        return math.inf
    if s == "-inf":
        return -math.inf
    return float(Fraction(s))


def same_float(a, b) -> bool:
    """equal as numbers, NaN equal to NaN (the sign of zero is not part of the comparison)"""
    a, b = float(a), float(b)
    return (math.isnan(a) and math.isnan(b)) or a == b


def xlsx_image(x: float) -> float:
    """what openpyxl's writer ("%.16g") and reader make of a double"""
    if math.isnan(x) or math.isinf(x):
        return x
    return float("%.16g" % x)


# ------------------------------------------------------------------------------------------
# canonical form of parameters
# ------------------------------------------------------------------------------------------
def param_tuple(p) -> tuple:
    """the attributes the property names, read from the object itself (as_dict is what the code under test uses)"""
    return (str(p.label), p.value, p.standard_error, p.expression, p.maximum, p.minimum, p.non_negative, p.vary)


def supported_tuple(t) -> bool:
    num = lambda v: isinstance(v, (int, float)) and not isinstance(v, bool)
    import numpy as np
    num2 = lambda v: num(v) or isinstance(v, (np.floating, np.integer))
    return (isinstance(t[0], str) and num2(t[1]) and num2(t[2]) and (t[3] is None or isinstance(t[3], str))
            and num2(t[4]) and num2(t[5]) and isinstance(t[6], (bool, np.bool_)) and isinstance(t[7], (bool, np.bool_)))


def enc_param(t) -> str:
    return core.lst([enc(t[0]), flt(t[1]), flt(t[2]), "none" if t[3] is None else enc(t[3]), flt(t[4]), flt(t[5]),
                     core.bool_(bool(t[6])), core.bool_(bool(t[7]))])


def enc_params(ts) -> str:
    return core.lst(enc_param(t) for t in ts)


def canon(parameters) -> str:
    return "ok " + enc_params([param_tuple(p) for p in parameters.all()])


def tuples_of(parameters):
    return [param_tuple(p) for p in parameters.all()]


def tuple_json(t):
    return {"label": t[0], "value": float(t[1]), "standard_error": float(t[2]), "expression": t[3],
            "maximum": t[4] if isinstance(t[4], int) and not isinstance(t[4], bool) else float(t[4]),
            "minimum": t[5] if isinstance(t[5], int) and not isinstance(t[5], bool) else float(t[5]),
            "non_negative": bool(t[6]), "vary": bool(t[7])}


def parse_model_params(ans: str):
    """`ok [[label,value,…],…]` -> list of tuples (floats as canonical text)"""
    assert ans.startswith("ok ")
    tree = core.parse_tree(ans[3:])[0]
    out = []
    for p in tree:
        out.append((core.dec(p[0]), p[1], p[2], None if p[3] == "none" else core.dec(p[3]), p[4], p[5], p[6] == "T", p[7] == "T"))
    return out


def classify_exception(e: BaseException) -> str:
    import re
    msg = str(e)
    if isinstance(e, ValueError):
        m = re.search(r"Missing required column '([^']*)'", msg)
        if m:
            return f"err missing {enc(m.group(1))}"
        m = re.search(r"Column '([^']*)' in .* has non numeric values", msg)
        if m:
            return f"err nonnumeric {enc(m.group(1))}"
        m = re.search(r"Column '([^']*)' in .* has non boolean values", msg)
        if m:
            return f"err nonboolean {enc(m.group(1))}"
        m = re.search(r"^'(.*)' is not a valid parameter label\.$", msg, re.S)
        if m:
            return f"err label {enc(m.group(1))}"
        m = re.search(r"could not convert string to float: '(.*)'$", msg, re.S)
        if m:
            return f"err float {enc(m.group(1))}"
        if msg.startswith("Expression "):
            return "err expression"
        return f"err other ValueError {enc(msg[:80])}"
    if isinstance(e, TypeError):
        return "err type"
    return f"err other {type(e).__name__} {enc(msg[:80])}"


# ------------------------------------------------------------------------------------------
# real code: construction, save / load
# ------------------------------------------------------------------------------------------
class Scratch:
    def __enter__(self):
        self.dir = Path(tempfile.mkdtemp(prefix="c16_"))
        self.n = 0
        return self

    def __exit__(self, *a):
        shutil.rmtree(self.dir, ignore_errors=True)

    def path(self, ext: str) -> Path:
        self.n += 1
        return self.dir / f"p{self.n}.{ext}"


def build(dicts):
    from glotaran.parameter import Parameters
    return Parameters.from_parameter_dict_list([dict(d) for d in dicts])


def save(parameters, path: Path, fmt: str, sep=None, replace_inf=None, explicit_format=False):
    """glotaran.io.save_parameters; the format is inferred from the extension unless `explicit_format`"""
    from glotaran.io import save_parameters
    kw = {}
    if fmt in ("csv", "tsv") and replace_inf is not None:
        kw["replace_infinfinity"] = replace_inf
    if fmt == "csv" and sep is not None:
        kw["sep"] = sep
    if explicit_format:
        kw["format_name"] = fmt
    with warnings.catch_warnings():
        warnings.simplefilter("ignore")
        save_parameters(parameters, path, allow_overwrite=True, **kw)


def load(path: Path, fmt: str, sep=None, explicit_format=False):
    from glotaran.io import load_parameters
    kw = {}
    if fmt == "csv" and sep is not None:
        kw["sep"] = sep
    if explicit_format:
        kw["format_name"] = fmt
    with warnings.catch_warnings():
        warnings.simplefilter("ignore")
        return load_parameters(path, **kw)


def raw_cells(path: Path, fmt: str, sep=None):
    """the table in the file, read without pandas' inference: (header, rows of raw cells)"""
    if fmt in ("csv", "tsv"):
        d = "\t" if fmt == "tsv" else (sep or ",")
        with open(path, newline="") as fh:
            rows = list(_csv.reader(fh, delimiter=d))
        rows = [r for r in rows if r != []]
        return (rows[0] if rows else []), rows[1:]
    if fmt == "xlsx":
        import openpyxl
        wb = openpyxl.load_workbook(path, read_only=True)
        rows = [["" if c is None else c for c in r] for r in wb.active.iter_rows(values_only=True)]
        wb.close()
        rows = [r for r in rows if r != []]
    else:
        import pandas as pd
        df = pd.read_excel(path, header=None, dtype=object, keep_default_na=False, na_filter=False)
        rows = df.values.tolist()
    return ([str(c) for c in rows[0]] if rows else []), rows[1:]


def cell_matches(model_cell, raw, fmt: str) -> bool:
    """does the raw file cell hold what the model's frame cell says (writer conventions of the format)"""
    k = model_cell[0]
    text = fmt in ("csv", "tsv")
    if k == "z" or (k == "f" and model_cell[1] == "nan"):
        return raw == "None"
    if k == "s":
        s = core.dec(model_cell[1])
        if not text and s == "":
            return raw == "" or (isinstance(raw, float) and math.isnan(raw))
        return raw == s
    if k == "b":
        return (raw == ("True" if model_cell[1] == "T" else "False")) if text else (raw is (model_cell[1] == "T") or raw == (model_cell[1] == "T") and isinstance(raw, bool))
    if k in ("f", "i"):
        want = unflt(model_cell[1])
        if text:
            try:
                got = float(raw)
            except ValueError:
                return False
            return same_float(got, want)
        if isinstance(raw, str):
            # to_excel(inf_rep="inf") writes infinities as text
            return raw in ("inf", "-inf") and float(raw) == want
        if isinstance(raw, bool) or not isinstance(raw, (int, float)):
            return False
        return same_float(raw, want) or (fmt == "xlsx" and same_float(raw, xlsx_image(want)))
    return False


# ------------------------------------------------------------------------------------------
# hand-written tables
# ------------------------------------------------------------------------------------------
def enc_cell(c) -> str:
    k = c[0]
    if k == "z":
        return "[z]"
    if k == "s":
        return f"[s,{enc(c[1])}]"
    if k == "i":
        return f"[i,{int(c[1])}]"
    if k == "f":
        return f"[f,{flt(float(c[1]))}]"
    if k == "b":
        return f"[b,{core.bool_(c[1])}]"
    raise AssertionError(c)


def enc_frame(columns, rows) -> str:
    return core.strs(columns) + " " + core.lst(core.lst(enc_cell(c) for c in r) for r in rows)


def cell_py(c):
    k = c[0]
    if k == "z":
        return None
    if k == "s":
        return c[1]
    if k == "i":
        return int(c[1])
    if k == "f":
        return float(c[1])
    if k == "b":
        return bool(c[1])
    raise AssertionError(c)


def cell_text(c, rng=None) -> str:
    k = c[0]
    if k == "z":
        return rng.choice(["None", "none", ""]) if rng else "None"
    if k == "s":
        return c[1]
    if k == "i":
        return str(int(c[1]))
    if k == "f":
        x = float(c[1])
        return "None" if math.isnan(x) else repr(x)
    if k == "b":
        return "True" if c[1] else "False"
    raise AssertionError(c)


def write_text_table(path: Path, header, rows, sep: str, spaces, rng):
    """csv text written by hand (quoting as the csv module does), optional blanks after the separator"""
    buf = io.StringIO()
    w = _csv.writer(buf, delimiter=sep, lineterminator="\n")
    w.writerow(header)
    for r in rows:
        w.writerow([cell_text(c, rng) for c in r])
    text = buf.getvalue()
    if spaces:
        out = []
        for line in text.split("\n"):
            if '"' in line:
                out.append(line)
            else:
                out.append((sep + " ").join(line.split(sep)) if sep != "\t" else line)
        text = "\n".join(out)
    path.write_text(text)
    return text


def write_excel_table(path: Path, header, rows):
    import pandas as pd
    cols = {h: pd.Series([cell_py(r[i]) for r in rows], dtype=object) for i, h in enumerate(header)}
    df = pd.DataFrame(cols, columns=list(header))
    with warnings.catch_warnings():
        warnings.simplefilter("ignore")
        df.to_excel(str(path), index=False)


def frame_df(columns, rows, as_object: bool):
    import pandas as pd
    if as_object:
        return pd.DataFrame({c: pd.Series([cell_py(r[i]) for r in rows], dtype=object) for i, c in enumerate(columns)},
                            columns=list(columns))
    return pd.DataFrame({c: [cell_py(r[i]) for r in rows] for i, c in enumerate(columns)}, columns=list(columns))


# ------------------------------------------------------------------------------------------
# specifications
# ------------------------------------------------------------------------------------------
class D:
    """an ordered dict with arbitrary key types, JSON-able as {"$dict": [[k, v], …]}"""

    def __init__(self, pairs):
        self.pairs = [(k, v) for k, v in pairs]

    def to_py(self):
        return {k: to_py(v) for k, v in self.pairs}


def to_py(x):
    if isinstance(x, D):
        return x.to_py()
    if isinstance(x, list):
        return [to_py(v) for v in x]
    return x


def to_json(x):
    if isinstance(x, D):
        return {"$dict": [[k, to_json(v)] for k, v in x.pairs]}
    if isinstance(x, list):
        return [to_json(v) for v in x]
    if isinstance(x, float) and (math.isnan(x) or math.isinf(x)):
        return {"$float": repr(x)}
    return x


def from_json(x):
    if isinstance(x, dict) and "$dict" in x:
        return D([(k, from_json(v)) for k, v in x["$dict"]])
    if isinstance(x, dict) and "$float" in x:
        return float(x["$float"])
    if isinstance(x, list):
        return [from_json(v) for v in x]
    return x


def py_cell(v) -> str:
    if v is None:
        return "[z]"
    if isinstance(v, bool):
        return f"[b,{core.bool_(v)}]"
    if isinstance(v, int):
        return f"[i,{v}]"
    if isinstance(v, float):
        return f"[f,{flt(v)}]"
    if isinstance(v, str):
        return f"[s,{enc(v)}]"
    raise Unrepresentable(repr(v))


class Unrepresentable(Exception):
    pass


def enc_opts(d: D) -> str:
    return "[d," + core.lst(core.lst([enc(fmt_key(k)), py_cell(v)]) for k, v in d.pairs) + "]"


def enc_atom(a) -> str:
    if isinstance(a, D):
        return enc_opts(a)
    if isinstance(a, list):
        raise Unrepresentable("nested list")
    return py_cell(a)


def enc_item(it) -> str:
    if isinstance(it, list):
        return "[l," + core.lst(enc_atom(a) for a in it) + "]"
    return enc_atom(it)


def fmt_key(k) -> str:
    return f"{k}"


def enc_node(n) -> str:
    if isinstance(n, D):
        return "[group," + enc_kids(n) + "]"
    if isinstance(n, list):
        return "[items," + core.lst(enc_item(i) for i in n) + "]"
    return "[other]"


def enc_kids(d: D) -> str:
    return core.lst(core.lst([enc(fmt_key(k)), enc_node(v)]) for k, v in d.pairs)


def strings_of(x, acc):
    if isinstance(x, D):
        for _, v in x.pairs:
            strings_of(v, acc)
    elif isinstance(x, list):
        for v in x:
            strings_of(v, acc)
    elif isinstance(x, str):
        acc.add(x)
    return acc


def float_lines(strings):
    out = []
    for s in sorted(strings):
        try:
            v = float(s)
            out.append(f"float {enc(s)} {flt(v)}")
        except ValueError:
            out.append(f"float {enc(s)} raises")
    return out


def yaml_dump(spec_py) -> str:
    from glotaran.builtin.io.yml.utils import write_dict
    return write_dict(spec_py)


def yaml_scalar(v) -> str:
    """flow-style YAML 1.2 scalar, hand-rendered as in the documentation examples"""
    import re
    if v is None:
        return "null"
    if isinstance(v, bool):
        return "true" if v else "false"
    if isinstance(v, int):
        return str(v)
    if isinstance(v, float):
        if math.isnan(v):
            return ".nan"
        if math.isinf(v):
            return ".inf" if v > 0 else "-.inf"
        return repr(v)
    s = str(v)
    plain = re.fullmatch(r"[A-Za-z_][A-Za-z0-9_]*(\.[A-Za-z_][A-Za-z0-9_]*)*", s) is not None
    if plain and s not in ("null", "Null", "NULL", "true", "True", "TRUE", "false", "False", "FALSE", "nan", "inf",
                           "yes", "no", "on", "off", "y", "n", "Yes", "No", "On", "Off", "NaN", "Inf", "NAN", "INF"):
        return s
    return '"' + s.replace("\\", "\\\\").replace('"', '\\"') + '"'


def yaml_flow(x) -> str:
    if isinstance(x, D):
        return "{" + ", ".join(f"{yaml_scalar(k)}: {yaml_flow(v)}" for k, v in x.pairs) + "}"
    if isinstance(x, list):
        return "[" + ", ".join(yaml_flow(v) for v in x) + "]"
    return yaml_scalar(x)


def yaml_text(spec, indent=0, bare_int_keys=True) -> str:
    """block style for groups and parameter lists, flow style for definitions and option blocks"""
    pad = "  " * indent
    if isinstance(spec, D):
        lines = []
        for k, v in spec.pairs:
            key = yaml_scalar(k) if isinstance(k, str) else str(k)
            if isinstance(k, str) and bare_int_keys and k == str(int(k)) if k.isdigit() else False:
                key = k          # YAML reads it as an int; the f-string formats it back
            if isinstance(v, (D, list)) and (isinstance(v, D) or v):
                lines.append(f"{pad}{key}:")
                lines.append(yaml_text(v, indent + 1, bare_int_keys))
            else:
                lines.append(f"{pad}{key}: {yaml_flow(v)}")
        return "\n".join(lines)
    if isinstance(spec, list):
        return "\n".join(f"{pad}- {yaml_flow(v)}" for v in spec)
    return pad + yaml_flow(spec)


def df_cells(df):
    """the cells of a DataFrame as `from_dataframe` sees them (iteration over a Series boxes to Python scalars)"""
    import numpy as np
    cols = [list(df[c]) for c in df.columns]
    rows = []
    for i in range(len(df)):
        row = []
        for col in cols:
            v = col[i]
            if v is None:
                row.append(["z"])
            elif isinstance(v, (bool, np.bool_)):
                row.append(["b", bool(v)])
            elif isinstance(v, (int, np.integer)):
                row.append(["i", int(v)])
            elif isinstance(v, (float, np.floating)):
                row.append(["f", float(v)])
            elif isinstance(v, str):
                row.append(["s", v])
            else:
                raise Unrepresentable(repr(v))
        rows.append(row)
    return rows
