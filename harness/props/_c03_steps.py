"""C03 — translator of the result-assembly source text into the vocabulary of lean/GlotaranModel/C03Steps.lean.

    glotaran/optimization/estimation_provider.py : EstimationProviderUnlinked.get_result  -> Generated.unlinkedTable
                                                   EstimationProviderLinked.get_result    -> Generated.linkedTable
    glotaran/optimization/optimization_group.py  : OptimizationGroup.add_weight_to_result_data -> Generated.addWeightStmts
                                                   OptimizationGroup.create_result_data        -> Generated.createStmts
    glotaran/optimization/optimizer.py           : Optimizer.create_result (data loop)         -> Generated.createResultTable

Pure `ast` work on the source text (nothing is executed).  Locals that are bound once to a side-effect free expression are
inlined, so renaming a local or splitting / merging such assignments does not change the tables; lists filled in the loop of
the linked provider get canonical names (k0.. for integer lists, v0.. for lists of arrays).  Whatever is not understood
becomes an `untranslatable "<text>"` node — never a default — on which the Lean interpreter is stuck, so the
`generated_*_eq_model` theorems stop building and the check takes its broken-obligation path.  The translator never raises.
"""
from __future__ import annotations

import ast


def lean_str(s: str) -> str:
    out = []
    for ch in s:
        if ch == "\\":
            out.append("\\\\")
        elif ch == '"':
            out.append('\\"')
        elif ch == "\n":
            out.append("\\n")
        elif ord(ch) < 32 or ord(ch) > 126:
            out.append("?")
        else:
            out.append(ch)
    return '"' + "".join(out) + '"'


def _txt(node) -> str:
    try:
        return ast.unparse(node)[:100]
    except Exception:
        return type(node).__name__


def unt(why) -> str:
    return f"(.untranslatable {lean_str(str(why))})"


class U(Exception):
    pass


def chain(node):
    """dotted name of a Name / Attribute chain, e.g. self._data_provider.get_weight"""
    parts = []
    while isinstance(node, ast.Attribute):
        parts.append(node.attr)
        node = node.value
    if isinstance(node, ast.Name):
        return ".".join([node.id] + parts[::-1])
    return None


def find_method(tree, cls, fn):
    for node in tree.body:
        if isinstance(node, ast.ClassDef) and node.name == cls:
            for sub in node.body:
                if isinstance(sub, ast.FunctionDef) and sub.name == fn:
                    return sub
    return None


def strip_doc(body):
    return [s for s in body if not (isinstance(s, ast.Expr) and isinstance(s.value, ast.Constant) and isinstance(s.value.value, str))]


def is_name(node, name):
    return isinstance(node, ast.Name) and node.id == name


# ------------------------------------------------------------------------------------------------------------------------
# estimation providers: shared symbolic values
# ------------------------------------------------------------------------------------------------------------------------
DP = "self._data_provider"
MP = "self._matrix_provider"


class Sym:
    """symbolic value of a local: kind in dim / coord / ae / size / other tokens"""

    def __init__(self, kind, val):
        self.kind, self.val = kind, val


class EstTranslator:
    def __init__(self, label_var):
        self.label = label_var
        self.env = {}

    def call_on_label(self, node, fn):
        return (isinstance(node, ast.Call) and chain(node.func) == fn and len(node.args) == 1 and not node.keywords
                and is_name(node.args[0], self.label))

    def sym(self, node):
        if isinstance(node, ast.Name) and node.id in self.env:
            return self.env[node.id]
        if isinstance(node, ast.Constant) and node.value == "clp_label":
            return Sym("dim", ".clpLabel")
        if isinstance(node, ast.Constant) and node.value == "global_clp_label":
            return Sym("dim", ".globalClpLabel")
        if self.call_on_label(node, DP + ".get_model_dimension"):
            return Sym("dim", ".model")
        if self.call_on_label(node, DP + ".get_global_dimension"):
            return Sym("dim", ".global")
        if self.call_on_label(node, DP + ".get_model_axis"):
            return Sym("coord", ".modelAxis")
        if self.call_on_label(node, DP + ".get_global_axis"):
            return Sym("coord", ".globalAxis")
        if isinstance(node, ast.Attribute) and node.attr == "clp_labels":
            if self.call_on_label(node.value, MP + ".get_matrix_container"):
                return Sym("coord", ".clpLabels")
            if self.call_on_label(node.value, MP + ".get_global_matrix_container"):
                return Sym("coord", ".globalClpLabels")
        if isinstance(node, ast.Attribute) and node.attr == "size":
            s = self.sym(node.value)
            if s.kind == "coord" and s.val in (".modelAxis", ".globalAxis"):
                return Sym("size", ".modelSize" if s.val == ".modelAxis" else ".globalSize")
        if isinstance(node, ast.Call) and is_name(node.func, "len") and len(node.args) == 1 and not node.keywords:
            s = self.sym(node.args[0])
            if s.kind == "coord" and s.val in (".clpLabels", ".globalClpLabels"):
                return Sym("size", ".nClpLabels" if s.val == ".clpLabels" else ".nGlobalClpLabels")
        ae = self.ae(node)
        if ae is not None:
            return Sym("ae", ae)
        return Sym("unknown", _txt(node))

    def ae(self, node):
        """numpy level expression or None"""
        if isinstance(node, ast.Name) and node.id in self.env and self.env[node.id].kind == "ae":
            return self.env[node.id].val
        if isinstance(node, ast.Subscript) and is_name(node.slice, self.label):
            c = chain(node.value)
            if c == "self._residuals":
                return ".ownResiduals"
            if c == "self._clps":
                return ".ownClps"
        if isinstance(node, ast.Call):
            c = chain(node.func)
            if c in ("np.array", "np.asarray", "numpy.array", "numpy.asarray") and len(node.args) == 1 and not node.keywords:
                inner = self.ae(node.args[0])
                return None if inner is None else f"(.npArray {inner})"
            if c in ("np.transpose", "numpy.transpose") and len(node.args) == 1 and not node.keywords:
                inner = self.ae(node.args[0])
                return None if inner is None else f"(.T {inner})"
            if isinstance(node.func, ast.Attribute) and node.func.attr == "transpose" and not node.args and not node.keywords:
                inner = self.ae(node.func.value)
                return None if inner is None else f"(.T {inner})"
            if isinstance(node.func, ast.Attribute) and node.func.attr == "reshape" and not node.keywords:
                inner = self.ae(node.func.value)
                args = node.args
                if len(args) == 1 and isinstance(args[0], ast.Tuple):
                    args = args[0].elts
                if inner is None or len(args) != 2:
                    return None
                return f"(.reshape {inner} {self.size(args[0])} {self.size(args[1])})"
        if isinstance(node, ast.Attribute) and node.attr == "T":
            inner = self.ae(node.value)
            return None if inner is None else f"(.T {inner})"
        return None

    def size(self, node):
        s = self.sym(node)
        return s.val if s.kind == "size" else unt("size " + _txt(node))

    def dim(self, node):
        s = self.sym(node)
        return s.val if s.kind == "dim" else unt("dim " + _txt(node))

    def coord(self, node):
        s = self.sym(node)
        return s.val if s.kind == "coord" else unt("coord " + _txt(node))

    def data_array(self, node):
        """xr.DataArray(value, coords=…, dims=…) -> Lean ArrayOut term"""
        if not (isinstance(node, ast.Call) and chain(node.func) in ("xr.DataArray", "xarray.DataArray")):
            raise U("not a DataArray: " + _txt(node))
        args = list(node.args)
        kw = {k.arg: k.value for k in node.keywords}
        if None in kw or set(kw) - {"coords", "dims"} or len(args) < 1 or len(args) > 3:
            raise U("DataArray arguments: " + _txt(node))
        if len(args) >= 2:
            if "coords" in kw:
                raise U("coords given twice")
            kw["coords"] = args[1]
        if len(args) == 3:
            if "dims" in kw:
                raise U("dims given twice")
            kw["dims"] = args[2]
        value = self.ae(args[0])
        value = unt("array " + _txt(args[0])) if value is None else value
        coords, order = [], None
        c = kw.get("coords")
        if isinstance(c, ast.Dict):
            for k, v in zip(c.keys, c.values):
                if k is None:
                    raise U("coords " + _txt(c))
                coords.append((self.dim(k), self.coord(v)))
        elif isinstance(c, (ast.Tuple, ast.List)):
            order = []
            for e in c.elts:
                if not (isinstance(e, ast.Tuple) and len(e.elts) == 2):
                    raise U("coords " + _txt(c))
                coords.append((self.dim(e.elts[0]), self.coord(e.elts[1])))
                order.append(coords[-1][0])
        else:
            raise U("coords " + (_txt(c) if c is not None else "missing"))
        d = kw.get("dims")
        if isinstance(d, (ast.List, ast.Tuple)):
            dims = [self.dim(e) for e in d.elts]
        elif d is None and order is not None:
            dims = order
        else:
            raise U("dims " + (_txt(d) if d is not None else "missing with mapping coords"))
        return ("{ value := " + value + ", dims := [" + ", ".join(dims) + "], coords := ["
                + ", ".join(f"({a}, {b})" for a, b in coords) + "] }")

    def bind(self, stmt):
        """a local bound to a side-effect free expression"""
        t = stmt.targets[0]
        if isinstance(t, ast.Name):
            self.env[t.id] = self.sym(stmt.value)
            return True
        return False


BAD_OUT = "{ value := %s, dims := [], coords := [] }"


def unlinked_table(fn) -> str:
    fields = {"fullResidual": None, "fullClp": None, "residual": None, "clp": None}
    problems = []
    try:
        if fn is None:
            raise U("EstimationProviderUnlinked.get_result not found")
        body = strip_doc(fn.body)
        dicts = {}
        loop = None
        for s in body:
            if isinstance(s, ast.Assign) and len(s.targets) == 1:
                t, v = s.targets[0], s.value
                if isinstance(t, ast.Tuple) and isinstance(v, ast.Tuple) and len(t.elts) == len(v.elts) \
                        and all(isinstance(e, ast.Name) for e in t.elts) and all(isinstance(e, ast.Dict) and not e.keys for e in v.elts):
                    for e in t.elts:
                        dicts[e.id] = True
                    continue
                if isinstance(t, ast.Name) and isinstance(v, ast.Dict) and not v.keys:
                    dicts[t.id] = True
                    continue
                raise U("statement " + _txt(s))
            if isinstance(s, ast.AnnAssign) and isinstance(s.target, ast.Name) and isinstance(s.value, ast.Dict) and not s.value.keys:
                dicts[s.target.id] = True
                continue
            if isinstance(s, ast.For) and loop is None:
                loop = s
                continue
            if isinstance(s, ast.Return):
                if not (isinstance(s.value, ast.Tuple) and len(s.value.elts) == 2 and all(isinstance(e, ast.Name) for e in s.value.elts)):
                    raise U("return " + _txt(s))
                ret = [e.id for e in s.value.elts]
                continue
            raise U("statement " + _txt(s))
        if loop is None or loop.orelse:
            raise U("no loop over the dataset models")
        if not (isinstance(loop.target, ast.Tuple) and len(loop.target.elts) == 2 and all(isinstance(e, ast.Name) for e in loop.target.elts)
                and isinstance(loop.iter, ast.Call) and chain(loop.iter.func) == "self.group.dataset_models.items" and not loop.iter.args):
            raise U("loop header " + _txt(loop.target) + " in " + _txt(loop.iter))
        label, dm = loop.target.elts[0].id, loop.target.elts[1].id
        clps_name, res_name = ret
        tr = EstTranslator(label)

        def block(stmts, tr, full):
            for s in stmts:
                if isinstance(s, ast.Assign) and len(s.targets) == 1:
                    t = s.targets[0]
                    if isinstance(t, ast.Subscript) and isinstance(t.value, ast.Name) and is_name(t.slice, label) and t.value.id in (clps_name, res_name):
                        key = ("fullClp" if full else "clp") if t.value.id == clps_name else ("fullResidual" if full else "residual")
                        if fields[key] is not None:
                            raise U("written twice: " + _txt(t))
                        try:
                            fields[key] = tr.data_array(s.value)
                        except U as e:
                            fields[key] = BAD_OUT % unt(e)
                        continue
                    if tr.bind(s):
                        continue
                raise U("statement " + _txt(s))

        branch = None
        for s in loop.body:
            if isinstance(s, ast.If):
                if branch is not None:
                    raise U("second branch " + _txt(s.test))
                if not (isinstance(s.test, ast.Call) and chain(s.test.func) == "has_dataset_model_global_model"
                        and len(s.test.args) == 1 and is_name(s.test.args[0], dm)):
                    raise U("branch condition " + _txt(s.test))
                branch = s
                t_full, t_plain = EstTranslator(label), EstTranslator(label)
                t_full.env, t_plain.env = dict(tr.env), dict(tr.env)
                block(s.body, t_full, True)
                block(s.orelse, t_plain, False)
                continue
            if branch is None and isinstance(s, ast.Assign) and len(s.targets) == 1 and tr.bind(s):
                continue
            raise U("statement " + _txt(s))
    except U as e:
        problems.append(str(e))
    except Exception as e:      # an ast shape this code did not foresee
        problems.append("translator: " + type(e).__name__ + ": " + str(e)[:80])
    for k in fields:
        if fields[k] is None or problems:
            fields[k] = BAD_OUT % unt(problems[0] if problems else k + " is not written")
    return ("{ fullResidual := " + fields["fullResidual"] + ",\n    fullClp := " + fields["fullClp"]
            + ",\n    residual := " + fields["residual"] + ",\n    clp := " + fields["clp"] + " }")


# ------------------------------------------------------------------------------------------------------------------------
# the linked provider
# ------------------------------------------------------------------------------------------------------------------------
def linked_table(fn) -> str:
    skip = False
    key_lists, vec_lists, reorder = [], [], []
    names = {}                 # source list name -> canonical name
    clps_out = "{ parts := \"\", dim := %s, coord := %s }" % (unt("clps not written"), unt("clps not written"))
    res_out = BAD_OUT % unt("residuals not written")
    problems = []
    try:
        if fn is None:
            raise U("EstimationProviderLinked.get_result not found")
        body = strip_doc(fn.body)
        outer = [s for s in body if isinstance(s, ast.For)]
        ret = [s for s in body if isinstance(s, ast.Return)]
        for s in body:
            if isinstance(s, (ast.For, ast.Return)):
                continue
            if isinstance(s, (ast.Assign, ast.AnnAssign)) and isinstance(s.value, ast.Dict) and not s.value.keys:
                continue
            raise U("statement " + _txt(s))
        if len(outer) != 1 or len(ret) != 1 or not (isinstance(ret[0].value, ast.Tuple) and len(ret[0].value.elts) == 2
                                                    and all(isinstance(e, ast.Name) for e in ret[0].value.elts)):
            raise U("shape of get_result")
        clps_name, res_name = [e.id for e in ret[0].value.elts]
        loop = outer[0]
        if not (isinstance(loop.target, ast.Name) and chain(loop.iter) == "self.group.dataset_models") or loop.orelse:
            raise U("outer loop " + _txt(loop.iter))
        label = loop.target.id
        lists = set()
        inner = None
        est = EstTranslator(label)
        order_env = {}            # local -> key list name whose argsort it is
        pending_coord = None
        for s in loop.body:
            # list initialisations
            if isinstance(s, ast.Assign) and len(s.targets) == 1:
                t, v = s.targets[0], s.value
                if isinstance(t, ast.Tuple) and isinstance(v, ast.Tuple) and len(t.elts) == len(v.elts) and inner is None \
                        and all(isinstance(e, ast.Name) for e in t.elts) and all(isinstance(e, ast.List) and not e.elts for e in v.elts):
                    lists.update(e.id for e in t.elts)
                    continue
                if isinstance(t, ast.Name) and isinstance(v, ast.List) and not v.elts and inner is None:
                    lists.add(t.id)
                    continue
                # order = np.argsort(keys)
                if isinstance(t, ast.Name) and isinstance(v, ast.Call) and chain(v.func) in ("np.argsort", "numpy.argsort") \
                        and len(v.args) == 1 and not v.keywords and isinstance(v.args[0], ast.Name) and names.get(v.args[0].id, "").startswith("k"):
                    order_env[t.id] = names[v.args[0].id]
                    continue
                # xs = [xs[i] for i in order]
                if isinstance(t, ast.Name) and t.id in names and names[t.id].startswith("v") and isinstance(v, ast.ListComp):
                    g = v.generators
                    ok = (len(g) == 1 and not g[0].ifs and isinstance(g[0].target, ast.Name) and isinstance(g[0].iter, ast.Name)
                          and g[0].iter.id in order_env and isinstance(v.elt, ast.Subscript) and is_name(v.elt.value, t.id)
                          and is_name(v.elt.slice, g[0].target.id))
                    reorder.append((names[t.id], f"(.byArgsort {lean_str(order_env[g[0].iter.id])})" if ok else unt(_txt(s))))
                    continue
                # clps[label] = xr.concat(parts, dim=…)
                if isinstance(t, ast.Subscript) and is_name(t.value, clps_name) and is_name(t.slice, label):
                    if isinstance(v, ast.Call) and chain(v.func) in ("xr.concat", "xarray.concat") and len(v.args) == 1 \
                            and isinstance(v.args[0], ast.Name) and len(v.keywords) == 1 and v.keywords[0].arg == "dim":
                        pending_coord = (names.get(v.args[0].id, "?" + v.args[0].id), est.dim(v.keywords[0].value))
                        continue
                    raise U("clps: " + _txt(v))
                # clps[label].coords[dim] = axis
                if isinstance(t, ast.Subscript) and isinstance(t.value, ast.Attribute) and t.value.attr == "coords" \
                        and isinstance(t.value.value, ast.Subscript) and is_name(t.value.value.value, clps_name) \
                        and is_name(t.value.value.slice, label) and pending_coord is not None:
                    d = est.dim(t.slice)
                    if d != pending_coord[1]:
                        d = unt("coordinate written on another dimension than the concatenation")
                    clps_out = "{ parts := %s, dim := %s, coord := %s }" % (lean_str(pending_coord[0]), d, est.coord(v))
                    continue
                if isinstance(t, ast.Subscript) and is_name(t.value, res_name) and is_name(t.slice, label):
                    sub = EstTranslator(label)
                    sub.env = dict(est.env)
                    for src, canon in names.items():
                        if canon.startswith("v"):
                            sub.env[src] = Sym("ae", f"(.parts {lean_str(canon)})")
                    try:
                        res_out = sub.data_array(v)
                    except U as e:
                        res_out = BAD_OUT % unt(e)
                    continue
                if est.bind(s):
                    continue
                raise U("statement " + _txt(s))
            if isinstance(s, ast.For) and inner is None:
                inner = s
                if not (isinstance(s.target, ast.Name) and isinstance(s.iter, ast.Call) and is_name(s.iter.func, "range")
                        and len(s.iter.args) == 1 and chain(s.iter.args[0]) == DP + ".aligned_global_axis.size") or s.orelse:
                    raise U("inner loop " + _txt(s.iter))
                skip = inner_loop(s, label, lists, names, key_lists, vec_lists)
                continue
            raise U("statement " + _txt(s))
        if inner is None:
            raise U("no loop over the aligned axis")
    except U as e:
        problems.append(str(e))
    except Exception as e:
        problems.append("translator: " + type(e).__name__ + ": " + str(e)[:80])
    if problems:
        res_out = BAD_OUT % unt(problems[0])
    return ("{ skipNonMembers := " + ("true" if skip else "false") + ",\n    keyLists := ["
            + ", ".join(f"({lean_str(n)}, {e})" for n, e in key_lists) + "],\n    vecLists := ["
            + ",\n      ".join(f"({lean_str(n)}, {e})" for n, e in vec_lists) + "],\n    reorder := ["
            + ",\n      ".join(f"({lean_str(n)}, {e})" for n, e in reorder) + "],\n    clps := " + clps_out
            + ",\n    residuals := " + res_out + " }")


def inner_loop(loop, label, lists, names, key_lists, vec_lists) -> bool:
    index = loop.target.id
    env = {}
    skip = False
    appended = False

    def tok(node):
        if isinstance(node, ast.Name) and node.id in env:
            return env[node.id]
        if isinstance(node, ast.Call) and chain(node.func) == DP + ".get_aligned_group_label" and len(node.args) == 1 \
                and is_name(node.args[0], index) and not node.keywords:
            return ("groupLabel",)
        if isinstance(node, ast.Subscript) and chain(node.value) == DP + ".group_definitions" and tok(node.slice) == ("groupLabel",):
            return ("members",)
        if isinstance(node, ast.Call) and isinstance(node.func, ast.Attribute) and node.func.attr == "index" and len(node.args) == 1 \
                and not node.keywords and tok(node.func.value) == ("members",) and is_name(node.args[0], label):
            return ("memberIndex",)
        if isinstance(node, ast.Subscript) and isinstance(node.value, ast.Call) and chain(node.value.func) == DP + ".get_aligned_dataset_indices" \
                and len(node.value.args) == 1 and is_name(node.value.args[0], index) and tok(node.slice) == ("memberIndex",):
            return ("key", ".thisOwnIndex")
        if isinstance(node, ast.Attribute) and node.attr == "clp_labels" and isinstance(node.value, ast.Call) \
                and chain(node.value.func) == MP + ".get_matrix_container" and len(node.value.args) == 1 and is_name(node.value.args[0], label):
            return ("ownClpLabels",)
        # sum(get_model_axis(l).size for l in members[:memberIndex])
        if isinstance(node, ast.Call) and is_name(node.func, "sum") and len(node.args) == 1 and not node.keywords \
                and isinstance(node.args[0], (ast.GeneratorExp, ast.ListComp)):
            ge = node.args[0]
            g = ge.generators
            if len(g) == 1 and not g[0].ifs and isinstance(g[0].target, ast.Name) and isinstance(g[0].iter, ast.Subscript) \
                    and tok(g[0].iter.value) == ("members",) and isinstance(g[0].iter.slice, ast.Slice) and g[0].iter.slice.lower is None \
                    and g[0].iter.slice.step is None and g[0].iter.slice.upper is not None and tok(g[0].iter.slice.upper) == ("memberIndex",) \
                    and isinstance(ge.elt, ast.Attribute) and ge.elt.attr == "size" and isinstance(ge.elt.value, ast.Call) \
                    and chain(ge.elt.value.func) == DP + ".get_model_axis" and len(ge.elt.value.args) == 1 \
                    and is_name(ge.elt.value.args[0], g[0].target.id):
                return ("off", ".sumModelSizesBefore")
        # off + get_model_axis(dataset_label).size
        if isinstance(node, ast.BinOp) and isinstance(node.op, ast.Add):
            for a, b in ((node.left, node.right), (node.right, node.left)):
                ta = tok(a)
                if ta[0] == "off" and isinstance(b, ast.Attribute) and b.attr == "size" and isinstance(b.value, ast.Call) \
                        and chain(b.value.func) == DP + ".get_model_axis" and len(b.value.args) == 1 and is_name(b.value.args[0], label):
                    return ("off", f"(.plusOwnModelSize {ta[1]})")
        # self._residuals[index][a:b]
        if isinstance(node, ast.Subscript) and isinstance(node.slice, ast.Slice) and node.slice.step is None \
                and isinstance(node.value, ast.Subscript) and chain(node.value.value) == "self._residuals" and is_name(node.value.slice, index) \
                and node.slice.lower is not None and node.slice.upper is not None:
            a, b = tok(node.slice.lower), tok(node.slice.upper)
            ta = a[1] if a[0] == "off" else unt("offset " + _txt(node.slice.lower))
            tb = b[1] if b[0] == "off" else unt("offset " + _txt(node.slice.upper))
            return ("vec", f"(.residualSlice {ta} {tb})")
        # xr.DataArray([self._clps[index][aligned_full_clp_labels[index].index(l)] for l in own], coords={"clp_label": own})
        if isinstance(node, ast.Call) and chain(node.func) in ("xr.DataArray", "xarray.DataArray") and len(node.args) == 1 \
                and isinstance(node.args[0], ast.ListComp) and len(node.keywords) == 1 and node.keywords[0].arg == "coords":
            lc, co = node.args[0], node.keywords[0].value
            g = lc.generators
            ok = (len(g) == 1 and not g[0].ifs and isinstance(g[0].target, ast.Name) and tok(g[0].iter) == ("ownClpLabels",)
                  and isinstance(co, ast.Dict) and len(co.keys) == 1 and isinstance(co.keys[0], ast.Constant) and co.keys[0].value == "clp_label"
                  and tok(co.values[0]) == ("ownClpLabels",))
            e = lc.elt
            ok = ok and isinstance(e, ast.Subscript) and isinstance(e.value, ast.Subscript) and chain(e.value.value) == "self._clps" \
                and is_name(e.value.slice, index) and isinstance(e.slice, ast.Call) and isinstance(e.slice.func, ast.Attribute) \
                and e.slice.func.attr == "index" and len(e.slice.args) == 1 and is_name(e.slice.args[0], g[0].target.id) \
                and isinstance(e.slice.func.value, ast.Subscript) and chain(e.slice.func.value.value) == MP + ".aligned_full_clp_labels" \
                and is_name(e.slice.func.value.slice, index)
            if ok:
                return ("vec", ".clpsByLabel")
        return ("unknown", _txt(node))

    for s in loop.body:
        if isinstance(s, ast.If) and not s.orelse and len(s.body) == 1 and isinstance(s.body[0], ast.Continue):
            t = s.test
            if isinstance(t, ast.Compare) and len(t.ops) == 1 and isinstance(t.ops[0], ast.NotIn) and is_name(t.left, label) \
                    and tok(t.comparators[0]) == ("members",) and not appended:
                skip = True
                continue
            raise U("guard " + _txt(t))
        if isinstance(s, ast.Assign) and len(s.targets) == 1 and isinstance(s.targets[0], ast.Name):
            env[s.targets[0].id] = tok(s.value)
            continue
        if isinstance(s, ast.Expr) and isinstance(s.value, ast.Call) and isinstance(s.value.func, ast.Attribute) and s.value.func.attr == "append" \
                and isinstance(s.value.func.value, ast.Name) and s.value.func.value.id in lists and len(s.value.args) == 1 and not s.value.keywords:
            src = s.value.func.value.id
            if src in names:
                raise U("appended twice: " + src)
            v = tok(s.value.args[0])
            appended = True
            if v[0] == "key":
                names[src] = f"k{len(key_lists)}"
                key_lists.append((names[src], v[1]))
            elif v[0] == "vec":
                names[src] = f"v{len(vec_lists)}"
                vec_lists.append((names[src], v[1]))
            else:
                names[src] = f"v{len(vec_lists)}"
                vec_lists.append((names[src], unt(v[1] if len(v) > 1 else v[0])))
            continue
        raise U("statement " + _txt(s))
    return skip


# ------------------------------------------------------------------------------------------------------------------------
# optimization group
# ------------------------------------------------------------------------------------------------------------------------
PURE_CALLS = {"sqrt", "sum", "get_model_dimension", "get_global_dimension", "mean"}


class DsTranslator:
    def __init__(self, ds_var, label_var, dm_var=None, dicts=None):
        self.ds, self.label, self.dm = ds_var, label_var, dm_var
        self.dicts = dicts or {}
        self.env = {}
        self.out = []

    def pure(self, node) -> bool:
        for n in ast.walk(node):
            if isinstance(n, ast.Call):
                f = n.func
                if isinstance(f, ast.Attribute) and f.attr in PURE_CALLS:
                    continue
                if isinstance(f, ast.Name) and f.id in ("len", "float", "int"):
                    continue
                return False
            if isinstance(n, (ast.NamedExpr, ast.Yield, ast.Await, ast.Lambda)):
                return False
        return True

    def ds_var(self, node):
        """result_dataset["x"] / result_dataset.x -> x"""
        if isinstance(node, ast.Subscript) and is_name(node.value, self.ds) and isinstance(node.slice, ast.Constant) and isinstance(node.slice.value, str):
            return node.slice.value
        if isinstance(node, ast.Attribute) and is_name(node.value, self.ds) and node.attr not in ("attrs", "coords", "dims", "data_vars"):
            return node.attr
        return None

    def is_data_dims(self, node):
        return isinstance(node, ast.Attribute) and node.attr == "dims" and self.ds_var(node.value) == "data"

    def de(self, node) -> str:
        if isinstance(node, ast.Name) and node.id in self.env:
            return self.env[node.id]
        v = self.ds_var(node)
        if v is not None:
            return f"(.dsVar {lean_str(v)})"
        if isinstance(node, ast.Subscript) and isinstance(node.value, ast.Name) and node.value.id in self.dicts and is_name(node.slice, self.label):
            return f"(.fromResult {lean_str(self.dicts[node.value.id])})"
        if isinstance(node, ast.Call) and chain(node.func) == DP + ".get_weight" and len(node.args) == 1 and is_name(node.args[0], self.label) and not node.keywords:
            return ".weight"
        if isinstance(node, ast.Attribute) and node.attr == "T":
            return f"(.T {self.de(node.value)})"
        if isinstance(node, ast.BinOp) and type(node.op) in (ast.Div, ast.Sub, ast.Mult):
            op = {ast.Div: "div", ast.Sub: "sub", ast.Mult: "mul"}[type(node.op)]
            return f"(.{op} {self.de(node.left)} {self.de(node.right)})"
        if isinstance(node, ast.Tuple) and len(node.elts) == 2 and self.is_data_dims(node.elts[0]):
            return f"(.withDataDims {self.de(node.elts[1])})"
        if self.dm is not None and isinstance(node, ast.IfExp) and isinstance(node.body, ast.Constant) and node.body.value == 1 \
                and isinstance(node.body.value, int) and isinstance(node.test, ast.Compare) and len(node.test.ops) == 1 \
                and isinstance(node.test.ops[0], ast.Is) and chain(node.test.left) == self.dm + ".scale" \
                and isinstance(node.test.comparators[0], ast.Constant) and node.test.comparators[0].value is None \
                and chain(node.orelse) == self.dm + ".scale.value":
            return ".scaleOr1"
        return unt(_txt(node))

    def attr_value(self, name, node) -> str:
        if name == "dataset_scale":
            return self.de(node)
        return ".opaque" if self.pure(node) else unt("attribute " + name + " = " + _txt(node))

    def emit(self, guards, act):
        self.out.append("{ guards := [" + ", ".join(guards) + "], act := " + act + " }")

    def guard(self, test):
        if isinstance(test, ast.Compare) and len(test.ops) == 1 and isinstance(test.left, ast.Constant) and isinstance(test.left.value, str) \
                and is_name(test.comparators[0], self.ds):
            if isinstance(test.ops[0], ast.NotIn):
                return f"(.varMissing {lean_str(test.left.value)})"
            if isinstance(test.ops[0], ast.In):
                return f"(.varPresent {lean_str(test.left.value)})"
        if isinstance(test, ast.Compare) and len(test.ops) == 1 and isinstance(test.ops[0], ast.In) and is_name(test.left, self.label) \
                and isinstance(test.comparators[0], ast.Name) and test.comparators[0].id in self.dicts:
            return f"(.inResult {lean_str(self.dicts[test.comparators[0].id])})"
        if chain(test) == "self._add_svd":
            return ".addSvd"
        return unt("condition " + _txt(test))

    def is_dim0_not_model(self, test):
        return (isinstance(test, ast.Compare) and len(test.ops) == 1 and isinstance(test.ops[0], ast.NotEq)
                and isinstance(test.left, ast.Subscript) and self.is_data_dims(test.left.value)
                and isinstance(test.left.slice, ast.Constant) and test.left.slice.value == 0
                and isinstance(test.comparators[0], ast.Call) and chain(test.comparators[0].func) == DP + ".get_model_dimension"
                and len(test.comparators[0].args) == 1 and is_name(test.comparators[0].args[0], self.label))

    def stmts(self, body, guards):
        for s in body:
            self.stmt(s, guards)

    def stmt(self, s, guards):
        if isinstance(s, ast.Expr) and isinstance(s.value, ast.Constant):
            return
        if isinstance(s, ast.Assign) and len(s.targets) == 1:
            t = s.targets[0]
            if isinstance(t, ast.Name):
                if is_name(s.value, self.ds):
                    self.emit(guards, ".untranslatable " + lean_str("alias of the result dataset: " + _txt(s)))
                    return
                if isinstance(s.value, ast.Subscript) and chain(s.value.value) == "result_datasets" and is_name(s.value.slice, self.label):
                    self.ds = t.id
                    return
                d = self.de(s.value)
                if ".untranslatable" in d and self.pure(s.value):
                    d = ".opaque"
                self.env[t.id] = d
                return
            v = self.ds_var(t) if isinstance(t, ast.Subscript) else None
            if v is not None:
                self.emit(guards, f".setVar {lean_str(v)} {self.de(s.value)}")
                return
            if isinstance(t, ast.Subscript) and chain(t.value) == self.ds + ".attrs" and isinstance(t.slice, ast.Constant) and isinstance(t.slice.value, str):
                self.emit(guards, f".setAttr {lean_str(t.slice.value)} {self.attr_value(t.slice.value, s.value)}")
                return
        if isinstance(s, ast.If) and not s.orelse:
            t = s.test
            if isinstance(t, ast.Compare) and len(t.ops) == 1 and isinstance(t.ops[0], ast.Is) and isinstance(t.left, ast.Name) \
                    and self.env.get(t.left.id) == ".weight" and isinstance(t.comparators[0], ast.Constant) and t.comparators[0].value is None \
                    and len(s.body) == 1 and isinstance(s.body[0], ast.Return) and s.body[0].value is None:
                self.emit(guards, ".returnIfWeightNone")
                return
            if self.is_dim0_not_model(t) and all(isinstance(b, ast.Assign) and len(b.targets) == 1 and isinstance(b.targets[0], ast.Name)
                                                 and b.targets[0].id in self.env for b in s.body):
                for b in s.body:
                    n = b.targets[0].id
                    old = self.env[n]
                    self.env[n] = f"(.ifDim0NotModel {self.de(b.value)} {old})"
                return
            self.stmts(s.body, guards + [self.guard(t)])
            return
        if isinstance(s, ast.Expr) and isinstance(s.value, ast.Call):
            c = s.value
            f = chain(c.func)
            if f == "self.add_weight_to_result_data" and len(c.args) == 2 and is_name(c.args[0], self.label) and is_name(c.args[1], self.ds) and not c.keywords:
                self.emit(guards, ".callAddWeight")
                return
            if f == "self.add_svd_data" and len(c.args) >= 2 and isinstance(c.args[0], ast.Constant) and isinstance(c.args[0].value, str) \
                    and is_name(c.args[1], self.ds):
                self.emit(guards, f".addSvdData {lean_str(c.args[0].value)}")
                return
            if f == "finalize_dataset_model" and len(c.args) == 2 and is_name(c.args[1], self.ds) and not c.keywords:
                self.emit(guards, ".finalize")
                return
        self.emit(guards, ".untranslatable " + lean_str(_txt(s)))


def stmts_term(lines) -> str:
    return "[\n  " + ",\n  ".join(lines) + "]"


def add_weight_stmts(fn) -> str:
    try:
        if fn is None:
            raise U("OptimizationGroup.add_weight_to_result_data not found")
        a = fn.args
        if a.vararg or a.kwarg or a.kwonlyargs or a.defaults or len(a.args) != 3:
            raise U("signature of add_weight_to_result_data")
        tr = DsTranslator(a.args[2].arg, a.args[1].arg)
        tr.stmts(strip_doc(fn.body), [])
        return stmts_term(tr.out)
    except U as e:
        return stmts_term(["{ guards := [], act := .untranslatable " + lean_str(str(e)) + " }"])
    except Exception as e:
        return stmts_term(["{ guards := [], act := .untranslatable " + lean_str("translator: " + type(e).__name__ + ": " + str(e)[:80]) + " }"])


def create_stmts(fn) -> str:
    try:
        if fn is None:
            raise U("OptimizationGroup.create_result_data not found")
        body = strip_doc(fn.body)
        dicts = {}
        loop = None
        copied = False
        for s in body:
            if isinstance(s, ast.Assign) and len(s.targets) == 1 and is_name(s.targets[0], "result_datasets") and isinstance(s.value, ast.DictComp) and loop is None:
                dc = s.value
                g = dc.generators
                ok = (len(g) == 1 and isinstance(g[0].target, ast.Tuple) and len(g[0].target.elts) == 2 and all(isinstance(e, ast.Name) for e in g[0].target.elts)
                      and isinstance(g[0].iter, ast.Call) and chain(g[0].iter.func) == "self._data.items" and len(g[0].ifs) == 1)
                if ok:
                    lab, dat = g[0].target.elts[0].id, g[0].target.elts[1].id
                    cond = g[0].ifs[0]
                    ok = (is_name(dc.key, lab) and isinstance(dc.value, ast.Call) and chain(dc.value.func) == dat + ".copy" and not dc.value.args
                          and isinstance(cond, ast.Compare) and len(cond.ops) == 1 and isinstance(cond.ops[0], ast.In) and is_name(cond.left, lab)
                          and (chain(cond.comparators[0]) == "self._dataset_group.dataset_models"
                               or (isinstance(cond.comparators[0], ast.Call) and chain(cond.comparators[0].func) == "self._dataset_group.dataset_models.keys")))
                if not ok:
                    raise U("result_datasets = " + _txt(s.value))
                copied = True
                continue
            if isinstance(s, ast.Assign) and len(s.targets) == 1 and isinstance(s.targets[0], ast.Tuple) and len(s.targets[0].elts) == 2 \
                    and all(isinstance(e, ast.Name) for e in s.targets[0].elts) and isinstance(s.value, ast.Call) and not s.value.args and loop is None:
                f = chain(s.value.func)
                a, b = [e.id for e in s.targets[0].elts]
                if f == MP + ".get_result":
                    dicts[a], dicts[b] = "global_matrices", "matrices"
                    continue
                if f == "self._estimation_provider.get_result":
                    dicts[a], dicts[b] = "clps", "residuals"
                    continue
            if isinstance(s, ast.For) and loop is None and copied:
                loop = s
                continue
            if isinstance(s, ast.Return) and is_name(s.value, "result_datasets") and loop is not None:
                continue
            raise U("statement " + _txt(s))
        if loop is None or loop.orelse:
            raise U("no loop over the dataset models")
        if not (isinstance(loop.target, ast.Tuple) and len(loop.target.elts) == 2 and all(isinstance(e, ast.Name) for e in loop.target.elts)
                and isinstance(loop.iter, ast.Call) and chain(loop.iter.func) == "self._dataset_group.dataset_models.items" and not loop.iter.args):
            raise U("loop header " + _txt(loop.iter))
        label, dm = loop.target.elts[0].id, loop.target.elts[1].id
        tr = DsTranslator("result_datasets[" + label + "]", label, dm, dicts)
        tr.stmts(loop.body, [])
        return stmts_term(tr.out)
    except U as e:
        return stmts_term(["{ guards := [], act := .untranslatable " + lean_str(str(e)) + " }"])
    except Exception as e:
        return stmts_term(["{ guards := [], act := .untranslatable " + lean_str("translator: " + type(e).__name__ + ": " + str(e)[:80]) + " }"])


def create_result_table(fn) -> str:
    over = calc = upd = False
    try:
        for node in ast.walk(fn) if fn is not None else []:
            if isinstance(node, ast.For) and isinstance(node.target, ast.Name) and chain(node.iter) == "self._optimization_groups" and not node.orelse:
                g = node.target.id
                calls = [s.value for s in node.body if isinstance(s, ast.Expr) and isinstance(s.value, ast.Call)]
                if len(calls) != len(node.body) or len(calls) != 2:
                    continue
                c0, c1 = calls
                if chain(c1.func) == "result_args['data'].update" or (isinstance(c1.func, ast.Attribute) and c1.func.attr == "update"
                                                                       and isinstance(c1.func.value, ast.Subscript) and is_name(c1.func.value.value, "result_args")
                                                                       and isinstance(c1.func.value.slice, ast.Constant) and c1.func.value.slice.value == "data"):
                    over = True
                    calc = chain(c0.func) == g + ".calculate" and len(c0.args) == 1 and chain(c0.args[0]) == "self._parameters" and not c0.keywords
                    upd = (len(c1.args) == 1 and isinstance(c1.args[0], ast.Call) and chain(c1.args[0].func) == g + ".create_result_data"
                           and not c1.args[0].args and not c1.keywords)
    except Exception:
        over = calc = upd = False
    b = lambda x: "true" if x else "false"
    return f"{{ overGroupsInOrder := {b(over)}, calculatesWithCurrentParameters := {b(calc)}, updatesDataWithGroupResult := {b(upd)} }}"


HEADER = """/- GENERATED by harness/props/c03.py (harness/props/_c03_steps.py) from the source text of
   glotaran/optimization/estimation_provider.py, glotaran/optimization/optimization_group.py and
   glotaran/optimization/optimizer.py. Do not edit. -/
import GlotaranModel.C03Steps
namespace Glotaran.C03.Generated
open Glotaran.C03.Steps

"""


def parse(src):
    try:
        return ast.parse(src)
    except Exception:
        return ast.parse("")


def translate(est_src: str, grp_src: str, opt_src: str) -> str:
    """text of lean/GlotaranModel/Generated/C03Steps.lean; never raises"""
    est, grp, opt = parse(est_src), parse(grp_src), parse(opt_src)
    parts = [
        "/-- `EstimationProviderUnlinked.get_result` -/\ndef unlinkedTable : UnlinkedTable :=\n  "
        + unlinked_table(find_method(est, "EstimationProviderUnlinked", "get_result")),
        "/-- `EstimationProviderLinked.get_result` -/\ndef linkedTable : LinkedTable :=\n  "
        + linked_table(find_method(est, "EstimationProviderLinked", "get_result")),
        "/-- `OptimizationGroup.add_weight_to_result_data` -/\ndef addWeightStmts : List Stmt := "
        + add_weight_stmts(find_method(grp, "OptimizationGroup", "add_weight_to_result_data")),
        "/-- `OptimizationGroup.create_result_data`, body of the loop over the dataset models -/\ndef createStmts : List Stmt := "
        + create_stmts(find_method(grp, "OptimizationGroup", "create_result_data")),
        "/-- `Optimizer.create_result`: the loop filling `result_args[\"data\"]` -/\ndef createResultTable : CreateResultTable :=\n  "
        + create_result_table(find_method(opt, "Optimizer", "create_result")),
        "def tables : Tables := ⟨unlinkedTable, linkedTable, createStmts, addWeightStmts, createResultTable⟩",
    ]
    return HEADER + "\n\n".join(parts) + "\n\nend Glotaran.C03.Generated\n"
