"""C07 — oscillation, artifact and spectral basis functions obey their definitions.

Correspondence: `calculate_matrix` of the real DampedOscillation / PFID / CoherentArtifact / Spectral
megacomplexes (built from real Model / Parameters objects, filled with `fill_item`) against
lean/GlotaranModel/C07.lean.  The model prints, per clp label and global index, one *term* in the
coordinate `t` (which rate, frequency, centre, width, shift, scale, window, branch, column); the term is
evaluated on the model axis with numpy/scipy doubles — the elementary functions the code itself calls —
and compared with the real matrix entry by entry, by label (regime S of DESIGN §4); an mpmath evaluation of
the same terms shadows the numpy one.
Oracle (independent of the model): the definitions in the property statement evaluated with mpmath —
cos/sin quadratures, closed form of (causal / anti-causal complex exponential) * (Gaussian IRF at the decay
model's effective position centre - shift + dispersion) with one fitted constant per matrix (the closed form
itself is checked against mpmath quadrature of the convolution integral on samples), the real decay
megacomplex of the same dataset as the reference for the IRF position, the Gaussian and its numerical first
and second derivatives, amplitude / half maximum / FWHM bisection / continuity in the skewness on the real code; sum of the documented
formulae per compartment for datasets with several spectral megacomplexes; reversed axis = reversed rows.
Translator: `generate` rewrites lean/GlotaranModel/Generated/C07Fns.lean from the source text (harness/props/_c07_translate.py); the theorems
`generated_*_eq_model` of Props/C07.lean tie every translated formula to the model definition (a broken one is a broken proof obligation:
widened search, then `no-failing-input-found`).
"""
from __future__ import annotations

import copy
import json
import math
import os

# the numba kernels of the megacomplexes are `parallel=True`; on a loaded machine 16 spinning worker threads
# cost ~1 s per call.  Two threads change nothing observable (thread count is not part of any result).
os.environ.setdefault("NUMBA_NUM_THREADS", "2")

import numpy as np

from harness import core
from harness.props import _c07_real as R
from harness.props import _c07_translate as TR

PROP = "C07"
REQUIRED_THEOREMS = [
    "osc_noirf_quadratures_partial", "osc_noirf_quadratures_counterexample", "osc_noirf_columns_by_label",
    "artifact_is_irf_gaussian_and_derivatives", "artifact_centre_is_decay_centre",
    "gaussian_amplitude", "gaussian_half_max", "skewed_amplitude", "skewed_zero_outside", "skewed_half_max",
    "skewed_formula_tendsto_gaussian", "skewed_switch_is_gaussian",
    "osc_irf_same_centre_as_decay", "osc_irf_vanishes_before_pulse", "osc_irf_normalised_sum",
    "osc_irf_kernel_ode_partial", "pfid_is_minus_anticausal_osc", "pfid_frequency_relative_to_probe",
    "irf_parameter_index_plumbing", "dispersion_poly_spec", "osc_matrix_slice_i_uses_parameters_i",
    "pfid_matrix_slice_i_uses_parameters_i", "artifact_matrix_slice_i_uses_parameters_i",
    "anticausal_vanishes_after_pulse", "spectral_columns_by_label",
    # translator (Generated/C07Fns.lean is regenerated from the source text on every run)
    "generated_gaussian_eq_model", "generated_skewed_eq_model", "generated_shape_dispatch_eq_model",
    "generated_artifact_eq_model", "generated_noirf_kernel_eq_model", "generated_noirf_kernel_covers_all_columns",
    "generated_conversions_eq_model",
    "generated_osc_irf_kernel_eq_model", "generated_pfid_kernel_eq_model",
    "generated_osc_irf_on_index_eq_model", "generated_pfid_on_index_eq_model", "generated_artifact_centre_eq_model",
    # the error function defined (Lemmas/C07Erf.lean) and the convolution clause as an integral identity (Lemmas/C07Conv.lean)
    "spectral_axis_conversion_spec", "spectral_shapes_add_per_compartment",
    "erfC_is_error_function", "osc_irf_kernel_ode", "osc_irf_is_convolution", "osc_irf_gauss_is_windowed_convolution",
]
GEN_FILE = core.LEAN / "GlotaranModel" / "Generated" / "C07Fns.lean"


def generate(ck):
    """regenerate lean/GlotaranModel/Generated/C07Fns.lean from the source text of VERIF_REPO (written only when changed)"""
    return TR.generate(core.REPO, GEN_FILE)

TRUSTED = [
    "hand-written model lean/GlotaranModel/C07.lean of damped_oscillation_megacomplex.py (calculate_matrix, both "
    "kernels), pfid_megacomplex.py (calculate_matrix, kernel), coherent_artifact_megacomplex.py (calculate_matrix, "
    "get_irf_parameter, kernel), spectral/shape.py, spectral_megacomplex.py (calculate_matrix) and decay/irf.py "
    "(parameter of both IRF classes, is_index_dependent), tied by differential execution only",
    "numpy / scipy.special.erf (complex) in IEEE doubles as evaluator of the model's terms; mpmath (exp, cos, sin, "
    "log, complex erf/erfc, quad, diff) as independent evaluator and as the oracle's evaluator",
    "`erf` is a parameter of the model; the theorems about the convolution instantiate it with the entire error function erfC "
    "defined and differentiated in Lemmas/C07Erf.lean; that scipy.special.erf computes erfC is observed numerically (mpmath), not proved",
    "the translator harness/props/_c07_translate.py (ast -> Lean over the model's number class, Generated/C07Fns.lean): its reading of the "
    "numpy subset (one element per array, decimal literals as the rationals they spell, np.log(2) / np.sqrt(2) / np.pi as symbols, numpy's "
    "default allclose atol) is trusted; its output is proved equal to the hand-written model (generated_*_eq_model) and the model is "
    "cross-checked against the running code by the correspondence",
]
ASSUMPTIONS = [
    "theorems are over the reals / complex numbers; floating-point rounding, overflow and cancellation of the "
    "compiled kernels are observed, not proved (two recorded findings: non-finite output for omega*width >~ 37.6, "
    "loss of the rising edge for rate*width >~ 6)",
    "main stream of generated inputs: |rate|*width <= 3, omega*width <= 25, frequencies below the code's wrap "
    "threshold 1/(0.06*min dt); outside of it separate streams re-derive the recorded findings",
    "the decay model's effective IRF position per index is centre - shift (+ dispersion): checked on every run "
    "against the real decay megacomplex of the same dataset",
    "the +-5 sigma windows of the IRF kernels set entries to 0 whose exact value is below 5.8e-7 of the signal "
    "scale; the oracle allows this absolute difference",
    "IRF scales positive in the main stream",
]
RULE = (
    "cases = one megacomplex + one dataset model each: damped oscillation (1-3 oscillations, frequencies 0..2000 "
    "cm^-1, rates of either sign and 0; no IRF / gaussian / multi-gaussian (1-3 Gaussians, every broadcasting "
    "pattern, scale lists of equal and unequal length) / spectral (multi-)gaussian with centre and width dispersion "
    "up to order 3 in wavelength or wavenumber; per-index shifts, distinct per index; in ~30 % of the IRF cases the "
    "spectral axis holds whole numbers and is handed to the library as an int64 / int32 array - same values for the "
    "model and the oracle, non-integer IRF centres / widths / shifts), PFID (negative rates, "
    "probe axis around the resonance, inverted/scaled spectral axis, unsupported non-negative rates), coherent "
    "artifact (orders 0-4, own or IRF width; ~6 % with width dispersion only, i.e. indices sharing the IRF position but "
    "not the width), spectral shapes (gaussian / skewed incl. skewness 0, +-1e-9, +-1e-8, "
    "+-2e-8, up to +-2, axis points at the location, at +-FWHM/2 and where the logarithm's argument changes "
    "sign; one / zero; inverted and scaled axes), datasets of 2-3 spectral megacomplexes sharing compartments (dataset matrix), the "
    "enumeration shape type x axis mode x axis order. Model axes of 2-14 points around the pulse incl. exact window "
    "boundaries centre - shift +- 5 sigma (dyadic), unsorted / reversed / duplicate points, < 2 points. Error "
    "stream: centre/width length mismatch, missing shift, missing IRF, order out of range, unequal zip. "
    "non-trivial = the case has an IRF with shift or dispersion, or >= 2 oscillations / shapes / orders; "
    "distinct = distinct protocol lines"
)

EPS = 2.0 ** -52


# ------------------------------------------------------------------------------------------
# generators
# ------------------------------------------------------------------------------------------
def _logu(rng, lo, hi):
    return math.exp(rng.uniform(math.log(lo), math.log(hi)))


def _r(rng, lo, hi, digits=None):
    v = rng.uniform(lo, hi)
    return round(v, digits) if digits is not None else v


def gen_irf(rng, n_idx, *, dyadic=False, allow_none=False, force_shift=None, positive_scales=True):
    """a Gaussian IRF item with filled numbers; widths 1e-3..5"""
    if allow_none and rng.random() < 0.12:
        return None
    typ = rng.choice(["gaussian", "multi-gaussian", "multi-gaussian", "spectral-gaussian", "spectral-multi-gaussian"])
    single = typ in R.SINGLE_TYPES
    if dyadic:
        w0 = rng.choice([0.125, 0.25, 0.5, 1.0])
        c0 = rng.randrange(-8, 17) / 8
    else:
        w0 = _logu(rng, 1e-3, 5.0)
        c0 = rng.uniform(-2, 5) if rng.random() < 0.8 else 0.0
    if single:
        centers, widths = [c0], [w0]
    else:
        pat = rng.choice(["1-1", "n-n", "1-n", "n-1"])
        n = rng.choice([2, 3])
        nc = 1 if pat in ("1-1", "1-n") else n
        nw = 1 if pat in ("1-1", "n-1") else n
        centers = [c0] + [c0 + (rng.randrange(1, 9) / 8 if dyadic else rng.uniform(0.2, 2.5) * w0) for _ in range(nc - 1)]
        widths = [w0] + [w0 * (rng.choice([2.0, 0.5]) if dyadic else rng.uniform(0.5, 2.0)) for _ in range(nw - 1)]
    irf = {"type": typ, "center": centers, "width": widths, "scale": None, "shift": None}
    n_g = max(len(centers), len(widths))
    if rng.random() < 0.5:
        sc = [rng.choice([1.0, 0.5, 2.0, 0.25]) if dyadic else rng.uniform(0.2, 3.0) for _ in range(n_g)]
        if not positive_scales and rng.random() < 0.3:
            sc[-1] = -sc[-1] * 0.3
        irf["scale"] = sc
    shift = force_shift if force_shift is not None else (rng.random() < 0.5)
    if shift:
        irf["shift"] = [(rng.randrange(-8, 9) / 8 if dyadic else rng.uniform(-1.5, 1.5) * max(w0, 0.05)) for _ in range(n_idx)]
        if n_idx > 1 and len(set(irf["shift"])) == 1:
            irf["shift"][0] += 0.375
    if typ in R.SPECTRAL_TYPES:
        irf["dispersion_center"] = rng.choice([500.0, 550.0, 1500.0]) if dyadic else rng.uniform(450, 650)
        irf["model_dispersion_with_wavenumber"] = rng.random() < 0.3
        nd = rng.choice([0, 1, 2, 3])
        sc = 0.25 if dyadic else max(w0, 0.02)
        irf["center_dispersion_coefficients"] = [rng.choice([-1, 1]) * (rng.randrange(1, 5) / 4 if dyadic else rng.uniform(0.1, 0.8)) * sc / (j + 1) for j in range(nd)]
        nwd = rng.choice([0, 0, 1, 2])
        irf["width_dispersion_coefficients"] = [(rng.randrange(1, 3) / 16 if dyadic else rng.uniform(0.01, 0.08)) * w0 / (j + 1) for j in range(nwd)]
    return irf


def gen_global_axis(rng, irf, n_idx, around=None):
    if around is not None:
        xs = sorted({around + rng.choice([-1, 1]) * rng.uniform(0, 25) for _ in range(n_idx)})
        while len(xs) < n_idx:
            xs.append(xs[-1] + rng.uniform(1, 5))
        return [round(x, 3) for x in xs]
    base = irf["dispersion_center"] if irf and irf.get("dispersion_center") else 550.0
    xs = sorted({round(base + rng.uniform(-120, 120), 1) for _ in range(n_idx)})
    while len(xs) < n_idx:
        xs.append(round(xs[-1] + rng.uniform(5, 40), 1))
    if rng.random() < 0.2:
        xs[rng.randrange(len(xs))] = float(base)   # dist = 0 at one index
    if rng.random() < 0.15:
        rng.shuffle(xs)
    return xs


def gen_axis_storage(rng, case):
    """how the spectral axis *array* is stored: in ~30 % of the cases with an IRF the axis values are whole numbers handed
    over as an integer array (`np.arange(400, 700, 10)`, pixel numbers, integer wavelengths of a file) - the same values
    for the model and the oracle; the IRF centres / widths / shifts / dispersion stay non-integer.  Call before the time
    axis is generated (the pulse positions depend on the axis values)."""
    if case.get("irf") is None or rng.random() >= 0.3:
        return
    case["global_axis"] = [float(round(x)) for x in case["global_axis"]]
    case["global_axis_dtype"] = rng.choice(["int64", "int64", "int32"])


def irf_positions(irf, i, x):
    """independent reading of the IRF item: [(position, width, scale)] of the Gaussians at global index i —
    position = centre - shift (the decay model's convention) + dispersion"""
    c, w = list(irf["center"]), list(irf["width"])
    if len(c) != len(w):
        if len(c) == 1:
            c = c * len(w)
        elif len(w) == 1:
            w = w * len(c)
        else:
            raise ValueError("irf lengths")
    s = list(irf["scale"]) if irf.get("scale") is not None else [1.0] * len(c)
    shift = irf["shift"][i] if irf.get("shift") is not None else 0.0
    if irf["type"] in R.SPECTRAL_TYPES:
        d = irf["dispersion_center"]
        dist = (1e3 / x - 1e3 / d) if irf.get("model_dispersion_with_wavenumber") else (x - d) / 100
        c = [ci + sum(cf * dist ** (j + 1) for j, cf in enumerate(irf.get("center_dispersion_coefficients", []))) for ci in c]
        w = [wi + sum(cf * dist ** (j + 1) for j, cf in enumerate(irf.get("width_dispersion_coefficients", []))) for wi in w]
    return [(ci - shift, wi, si) for ci, wi, si in zip(c, w, s)]


def gen_time_axis(rng, irf, n_idx, gax, rate_scale, *, dyadic=False, exotic=True):
    """points around every pulse position; exact +-5 sigma boundaries in dyadic mode"""
    pts = set()
    if irf is None:
        n = rng.randrange(3, 13)
        step = _logu(rng, 0.002, 0.5)
        t0 = rng.choice([0.0, -1.0, rng.uniform(-3, 1)])
        pts = {t0 + k * step * rng.choice([1, 1, 1, 2]) for k in range(n)}
    else:
        pos = []
        for i in range(n_idx):
            try:
                pos += irf_positions(irf, i, gax[i])
            except Exception:
                pos.append((irf["center"][0], irf["width"][0], 1.0))
        for (p, w, _s) in pos:
            w = abs(w) or 0.1
            for _ in range(rng.randrange(2, 5)):
                pts.add(p + w * rng.uniform(-7, 7))
            if dyadic:
                pts.update([p - 5 * w, p + 5 * w, p - 5 * w - 1 / 64, p - 5 * w + 1 / 64, p + 5 * w - 1 / 64,
                            p + 5 * w + 1 / 64, p])
            else:
                pts.add(p + w * rng.choice([-5.2, -4.8, 4.8, 5.2, -6.5, 0.0]))
        p0, w0 = pos[0][0], abs(pos[0][1]) or 0.1
        tail = min(3.0 / max(rate_scale, 1e-3), 50 * w0 + 5)
        pts.update([p0 + rng.uniform(0, tail), p0 - rng.uniform(0, tail)])
    pts = sorted(pts)
    while len(pts) > 14:
        pts.pop(rng.randrange(len(pts)))
    if not dyadic:
        pts = [round(p, 6) for p in pts]
    if exotic:
        u = rng.random()
        if u < 0.06:
            pts = pts[::-1]
        elif u < 0.12:
            rng.shuffle(pts)
        elif u < 0.16 and len(pts) >= 2:
            pts[1] = pts[0]            # duplicate point: delta_min = 0
    return [float(p) for p in pts]


def angular(nu):
    return nu * 0.03 * 2 * math.pi


def fmax_of(axis):
    d = [abs(b - a) for a, b in zip(axis, axis[1:])]
    m = min(d) if d else None
    return (1 / (0.06 * m)) if m else math.inf


def gen_osc_case(rng, *, stream="main"):
    dy = rng.random() < 0.25
    n_idx = rng.choice([1, 2, 3])
    irf = gen_irf(rng, n_idx, dyadic=dy, allow_none=True)
    if stream == "noirf":
        irf = None
    n = rng.choice([1, 2, 2, 3])
    wmax = max(abs(w) for w in irf["width"]) * 1.6 if irf else None
    oscs = []
    for j in range(n):
        if irf is None:
            nu = rng.choice([0.0, 2000.0, _logu(rng, 1, 2000), rng.uniform(0, 2000)])
            g = rng.choice([-1, 1, 1]) * _logu(rng, 1e-3, 5) if rng.random() < 0.9 else 0.0
        else:
            numax = min(2000.0, 25 / (0.06 * math.pi * wmax))
            nu = rng.choice([0.0, numax, _logu(rng, min(1, numax / 2), numax), rng.uniform(0, numax)])
            g = rng.choice([-1, 1, 1]) * _logu(rng, 1e-3, 3 / wmax) if rng.random() < 0.9 else 0.0
        if dy:
            nu, g = float(round(nu)), round(g * 8) / 8
        oscs.append([f"osc{j + 1}", float(nu), float(g)])
    if n >= 2 and rng.random() < 0.3:
        oscs[1][0] = oscs[0][0] + "x"      # prefix label
    case = {"kind": "osc", "oscs": oscs, "irf": irf, "global_axis": gen_global_axis(rng, irf, n_idx)}
    gen_axis_storage(rng, case)
    gax = case["global_axis"]
    rs = max([abs(o[2]) for o in oscs] + [1e-3])
    tax = gen_time_axis(rng, irf, n_idx, gax, rs, dyadic=dy)
    case["model_axis"] = tax
    if stream != "wrap":
        # keep the main stream below the code's wrap threshold (note N1): thin the frequencies, not the axis
        fm = fmax_of(tax)
        for o in case["oscs"]:
            if angular(o[1]) >= fm:
                o[1] = float(rng.uniform(0, 0.95) * fm / (0.06 * math.pi))
    return case


def gen_wrap_case(rng):
    """under-sampled axis: at least one frequency at or above 1/(0.06 * min dt) rad/ps (note N1)"""
    c = gen_osc_case(rng, stream="wrap")
    c["irf"] = None if rng.random() < 0.7 else c["irf"]
    step = rng.choice([0.05, 0.1, 0.5, 1.0])
    if c["irf"] is None:
        c["model_axis"] = [k * step for k in range(rng.randrange(3, 9))]
    fm = fmax_of(c["model_axis"])
    if math.isfinite(fm):
        nu_min = fm / (0.06 * math.pi)
        if nu_min < 2000:
            c["oscs"][0][1] = float(rng.uniform(nu_min, min(2000.0, 3 * nu_min)))
    return c


def gen_pfid_case(rng):
    dy = rng.random() < 0.25
    n_idx = rng.choice([1, 2, 3])
    irf = gen_irf(rng, n_idx, dyadic=dy, allow_none=rng.random() < 0.3)
    wmax = max(abs(w) for w in irf["width"]) * 1.6 if irf else 0.1
    n = rng.choice([1, 1, 2, 3])
    res = rng.uniform(1200, 1900)
    span = min(25.0, 25 / (0.06 * math.pi * wmax))
    inverted = rng.random() < 0.25
    scale = 1.0 if not inverted and rng.random() < 0.6 else rng.choice([1e7, 2.0, 0.5]) if not inverted else 1e7
    oscs = []
    for j in range(n):
        nu = res + rng.uniform(-span, span) / 2
        g = -_logu(rng, 1e-2, 3 / wmax)
        if rng.random() < 0.06:
            g = abs(g) if rng.random() < 0.7 else 0.0       # unsupported: non-negative rate
        if dy:
            nu, g = float(round(nu)), (round(g * 8) / 8 or -0.125)
        # the parameter is given in the units of the spectral axis option
        par = (scale / nu) if inverted else (nu / scale)
        oscs.append([f"p{j + 1}", float(par), float(g)])
    gax = gen_global_axis(rng, irf, n_idx, around=res)
    if irf and irf.get("dispersion_center"):
        irf["dispersion_center"] = float(round(res + rng.uniform(-20, 20), 1))
        for key in ("center_dispersion_coefficients", "width_dispersion_coefficients"):
            irf[key] = [c * 3 for c in irf[key]]
    rs = max(abs(o[2]) for o in oscs)
    case = {"kind": "pfid", "oscs": oscs, "irf": irf, "global_axis": gax, "inverted": inverted, "scale": float(scale)}
    gen_axis_storage(rng, case)
    case["model_axis"] = gen_time_axis(rng, irf, n_idx, case["global_axis"], rs, dyadic=dy)
    return case


def gen_artifact_case(rng):
    dy = rng.random() < 0.25
    n_idx = rng.choice([1, 2, 3])
    irf = gen_irf(rng, n_idx, dyadic=dy, allow_none=rng.random() < 0.3)
    order = rng.choice([1, 2, 3, 3, 3, 0, 4]) if rng.random() < 0.15 else rng.choice([1, 2, 3, 3])
    own = None
    if rng.random() < 0.4:
        own = rng.choice([0.125, 0.5, 2.0]) if dy else _logu(rng, 1e-3, 5)
    if irf is not None and irf["type"] in R.SPECTRAL_TYPES and n_idx >= 2 and rng.random() < 0.25:
        # indices that share the IRF position but not the IRF width: width dispersion only (a response is a function of
        # position AND width; by chance this class came up about once per quick run)
        irf["center_dispersion_coefficients"], irf["shift"], own = [], None, None
        if not irf["width_dispersion_coefficients"]:
            irf["width_dispersion_coefficients"] = [(0.125 if dy else rng.uniform(0.05, 0.3)) * irf["width"][0]]
    case = {"kind": "artifact", "irf": irf, "global_axis": gen_global_axis(rng, irf, n_idx)}
    gen_axis_storage(rng, case)
    gax = case["global_axis"]
    tax = gen_time_axis(rng, irf, n_idx, gax, 1.0, dyadic=dy) if irf else [0.0, 1.0, 2.0]
    if own is not None and irf is not None:
        p = irf_positions(irf, 0, gax[0])[0][0] if len(irf["center"]) == len(irf["width"]) or 1 in (len(irf["center"]), len(irf["width"])) else 0.0
        tax = sorted(set(tax + [p + own * u for u in (-2.0, -1.0, 0.5, 1.0, 3.0)]))[:16]
    case.update({"order": order, "width": own, "model_axis": [float(t) for t in tax],
                 "label": rng.choice(["ca", "m", "artifact_1"])})
    return case


SKEWS = [0.0, 1e-15, -1e-12, 1e-9, -1e-9, 1e-8, -1e-8, 1.0000001e-8, 2e-8, -2e-8, 1e-6, 1e-3, -1e-3, 0.1, -0.1, 0.5, -0.7, 1.0, 2.0, -2.0]


def gen_spectral_case(rng):
    dy = rng.random() < 0.4
    n = rng.choice([1, 2, 3, 4])
    inverted = rng.random() < 0.25
    scale = 1e7 if inverted else rng.choice([1.0, 1.0, 2.0, 0.5, 1e-3])
    shapes, pts = [], set()
    for j in range(n):
        typ = rng.choice(["gaussian", "gaussian", "skewed", "skewed", "skewed", "one", "zero"])
        if dy:
            x0 = float(rng.randrange(8, 41)) * (500.0 if inverted else 1.0)
            width = float(rng.choice([1, 2, 4, 8])) * (250.0 if inverted else 1.0)
        else:
            x0 = rng.uniform(12000, 25000) if inverted else rng.uniform(10, 40)
            width = (rng.uniform(300, 3000) if inverted else _logu(rng, 0.3, 12)) * rng.choice([1, 1, 1, -1])
        amp = None if rng.random() < 0.3 else (rng.choice([1.0, 2.0, -3.0, 0.5]) if dy else rng.uniform(-3, 3) or 1.0)
        b = rng.choice(SKEWS) if rng.random() < 0.7 else rng.uniform(-2, 2)
        shapes.append([f"s{j + 1}" if rng.random() < 0.8 else f"s{j + 1}_x", typ, amp, x0, width, b])
        if typ in ("gaussian", "skewed"):
            cand = [x0, x0 + width / 2, x0 - width / 2, x0 + width * rng.uniform(-1.5, 1.5), x0 + width * rng.uniform(-1.5, 1.5)]
            if typ == "skewed" and abs(b) > 1e-7:
                z = x0 - width / (2 * b)                 # log argument = 0
                cand += [z, z - abs(width) * 0.01, z + abs(width) * 0.01, z - abs(width), z + abs(width)]
            pts.update(cand)
    pts.update(rng.uniform(8, 42) * (500.0 if inverted else 1.0) for _ in range(2))
    conv = sorted(p for p in pts if p != 0)
    # `conv` are points on the converted axis; the spectral axis of the data is what converts to them
    if inverted:
        axis = [scale / p for p in conv]
    else:
        axis = [p / scale for p in conv]
    if len(axis) > 16:
        axis = axis[:16]
    if rng.random() < 0.2:
        axis = axis[::-1]
    return {"kind": "spectral", "shapes": shapes, "inverted": inverted, "scale": float(scale),
            "global_axis": [0.0], "model_axis": [float(a) for a in axis]}


def gen_error_case(rng):
    """the malformed stream"""
    k = rng.choice(["irf-length", "no-shift", "short-axis", "zip", "order", "no-irf"])
    if k == "irf-length":
        c = rng.choice([gen_osc_case, gen_pfid_case, gen_artifact_case])(rng)
        c["irf"] = {"type": "multi-gaussian", "center": [0.0, 1.0], "width": [0.1, 0.2, 0.3], "scale": None, "shift": None}
        if c["kind"] == "osc":
            c["model_axis"] = [0.0, 0.01, 0.02]
    elif k == "no-shift":
        c = rng.choice([gen_osc_case, gen_pfid_case, gen_artifact_case])(rng)
        irf = gen_irf(rng, 1, force_shift=True, allow_none=False)
        c["irf"] = irf
        c["global_axis"] = [500.0, 510.0, 520.0][: rng.choice([2, 3])]
        if c["kind"] == "osc":
            c["model_axis"] = [0.0, 0.01, 0.02]
            for o in c["oscs"]:
                o[1] = min(o[1], 100.0)
    elif k == "short-axis":
        c = gen_osc_case(rng)
        c["model_axis"] = c["model_axis"][: rng.choice([0, 1])]
    elif k == "zip":
        c = rng.choice([gen_osc_case, gen_pfid_case])(rng)
        irf = {"type": "multi-gaussian", "center": [0.0, 0.5], "width": [0.25, 0.5], "scale": [1.0, 0.5, 2.0][: rng.choice([1, 3])], "shift": None}
        c["irf"] = irf
        c["model_axis"] = [-1.0, -0.5, 0.0, 0.25, 0.5, 1.0, 2.0]
        for o in c["oscs"]:
            o[1] = min(o[1], 300.0) if c["kind"] == "osc" else o[1]
            o[2] = max(min(o[2], 4.0), -4.0)
    elif k == "order":
        c = gen_artifact_case(rng)
        c["order"] = rng.choice([0, 4, 7])
    else:
        c = rng.choice([gen_pfid_case, gen_artifact_case])(rng)
        c["irf"] = None
    return c


def nontrivial(case):
    irf = case.get("irf")
    if irf and (irf.get("shift") or irf["type"] in R.SPECTRAL_TYPES):
        return True
    if case["kind"] in ("osc", "pfid"):
        return len(case["oscs"]) >= 2
    if case["kind"] == "artifact":
        return case["order"] >= 2
    if case["kind"] == "spectralds":
        return True
    return len(case["shapes"]) >= 2


# ------------------------------------------------------------------------------------------
# correspondence
# ------------------------------------------------------------------------------------------
def expected_error_classes(kind, err):
    name = err.split(":")[0]
    if name == "noIrf":
        return {"ValueError"} if kind == "pfid" else {"ModelError", "IndexError"}
    if name == "noShift":
        return {"ModelError"}
    return {R.ERR_CLASS.get(name)}


def model_matrix(ne, tree, axis):
    """answer tree -> (labels, ndarray like the real matrix, rounding-error bound of every entry)"""
    labels = [core.dec(a) for a in tree[1]]
    t = np.asarray(axis, dtype=np.float64)

    def block(cols):
        if not cols:
            return np.zeros((t.size, 0)), np.zeros((t.size, 0))
        ve = [ne.column(c, t) for c in cols]
        return np.stack([v for v, _ in ve], axis=1), np.stack([e for _, e in ve], axis=1)

    if tree[2] == "flat":
        return (labels,) + block(tree[3])
    sl = [block(s_) for s_ in tree[3]]
    if not sl:
        z = np.zeros((0, t.size, len(labels)))
        return labels, z, z
    return labels, np.stack([v for v, _ in sl], axis=0), np.stack([e for _, e in sl], axis=0)


def same_entries(real, model, kind, err=None):
    """-> (ok, worst index, detail): doubles agree to 1e-9 of the local signal modulus (+ 1e-11 of the column
    maximum) plus 16 x the forward rounding-error bound of the model term (cancellation in the expression)"""
    if real.shape != model.shape:
        return False, None, f"shape {real.shape} vs {model.shape}"
    if real.size == 0:
        return True, None, ""
    fin_r, fin_m = np.isfinite(real), np.isfinite(model)
    nonfin_same = np.array_equal(np.isnan(real), np.isnan(model)) and np.array_equal(
        np.where(fin_r, 0, np.sign(np.nan_to_num(real, nan=0.0))), np.where(fin_m, 0, np.sign(np.nan_to_num(model, nan=0.0))))
    if not nonfin_same:
        idx = tuple(int(v) for v in np.argwhere(fin_r != fin_m)[0]) if (fin_r != fin_m).any() else None
        return False, idx, "non-finite pattern differs"
    r, m = np.where(fin_r, real, 0.0), np.where(fin_m, model, 0.0)
    if kind in ("osc", "pfid"):
        n = m.shape[-1] // 2
        mod = np.hypot(m[..., :n], m[..., n:])
        mod = np.concatenate([mod, mod], axis=-1)
    else:
        mod = np.abs(m)
    colmax = mod.max(axis=-2, keepdims=True) if mod.ndim >= 2 else mod.max()
    tol = 1e-9 * mod + 1e-11 * colmax + 1e-300
    if err is not None:
        tol = tol + 16 * np.where(np.isfinite(err), err, 0.0)
    bad = np.abs(r - m) > tol
    if bad.any():
        idx = tuple(int(v) for v in np.unravel_index(np.argmax(np.abs(r - m) - tol), r.shape))
        return False, idx, f"real {real[idx]!r} model {model[idx]!r} at {idx} (allowed {float(np.broadcast_to(tol, r.shape)[idx]):.3g})"
    return True, None, ""


def correspond(ck, cases, ne, reals=None):
    """run the model on all cases, the real code on all cases, compare; returns list of real results"""
    lines = [R.case_line(c) for c in cases]
    answers = core.lean_driver(PROP, lines)
    out = []
    me = R.MpEval(30)
    for ci, (case, line, ans) in enumerate(zip(cases, lines, answers)):
        real = reals[ci] if reals is not None else R.run_real(case)
        out.append(real)
        kind = case["kind"]
        ck.case(line, nontrivial(case))
        ck.count(f"kind:{kind}")
        irf = case.get("irf")
        ck.count("irf:" + (irf["type"] if irf else "none"))
        if irf:
            ck.count(f"irf-lengths:{len(irf['center'])}c{len(irf['width'])}w" + ("+scale" + str(len(irf["scale"])) if irf.get("scale") else ""))
            if irf.get("shift"):
                ck.count("irf:shifted")
            if kind == "artifact" and case.get("width") is None and well_formed_irf(irf):
                try:
                    pw = [irf_positions(irf, i, x)[0][:2] for i, x in enumerate(case["global_axis"])]
                    if len({p for p, _ in pw}) < len(set(pw)):
                        ck.count("artifact:indices-with-same-position-different-width")
                except Exception:  # noqa: BLE001 - malformed IRF of the error stream
                    pass
            ck.count(f"global-axis-dtype:{kind}:{case.get('global_axis_dtype') or 'float64'}"
                     + (":index-dependent" if irf.get("shift") or irf["type"] in R.SPECTRAL_TYPES else ""))
        tree = R.parse_answer(ans)
        if ans == "bad-op" or not tree:
            raise core.HarnessError(f"model refused line {line[:200]}")
        if tree[0] == "err":
            ck.count(f"model-error:{tree[1].split(':')[0]}")
            if tree[1] == "unsupported":
                ck.count("unsupported:" + ("raises:" + real[1] if real[0] == "err" else "returns"))
                continue
            if real[0] != "err":
                ck.disagree(f"error-missing:{kind}", f"model: error {tree[1]}, implementation returns a matrix", {"case": case})
            elif real[1] not in expected_error_classes(kind, tree[1]):
                ck.disagree(f"error-class:{kind}", f"model: error {tree[1]}, implementation raises {real[1]}: {real[2]}", {"case": case})
            continue
        if real[0] == "err":
            ck.disagree(f"error-extra:{kind}", f"implementation raises {real[1]}: {real[2]}; model returns a matrix", {"case": case})
            continue
        labels, mm, me_ = model_matrix(ne, tree, case["model_axis"])
        ck.count("matrix:" + ("3d" if tree[2] == "indexed" else "2d"))
        if labels != real[1]:
            ck.disagree(f"labels:{kind}", f"clp labels differ: real {real[1]} model {labels}", {"case": case})
            continue
        # compare by label (here: same label order, so by position)
        ok, idx, detail = same_entries(real[2], mm, kind, me_)
        if not ok:
            col = labels[idx[-1]] if idx else "?"
            ck.disagree(f"matrix:{kind}", f"matrix entry differs (column {col}): {detail}", {"case": case})
            continue
        # mpmath shadow evaluation of a few entries (independent evaluator of exp/erf/cos/log)
        if ci % 7 == 0 and mm.size and np.isfinite(mm).all():
            slices = tree[3] if tree[2] == "indexed" else [tree[3]]
            si = ci % len(slices)
            if slices[si]:
                cj = (ci // 7) % len(slices[si])
                ti = (ci // 3) % len(case["model_axis"])
                v = me.value(slices[si][cj], case["model_axis"][ti])
                if v is None:
                    continue
                got = mm[si, ti, cj] if tree[2] == "indexed" else mm[ti, cj]
                colmax = float(np.abs(mm[..., cj]).max()) or 1.0
                rel = abs(float(v) - got) / colmax
                ck.extra.setdefault("term_evaluation", {"max_diff_numpy_vs_mpmath_rel_to_column_max": 0.0, "n": 0})
                te = ck.extra["term_evaluation"]
                te["n"] += 1
                te["max_diff_numpy_vs_mpmath_rel_to_column_max"] = max(te["max_diff_numpy_vs_mpmath_rel_to_column_max"], rel)
                if rel > 1e-5 and in_benign_domain(case):
                    ck.diagnostic("numpy and mpmath evaluation of a model term differ", {"case": case, "rel": rel})
    return out


# ------------------------------------------------------------------------------------------
# oracle (independent of the model)
# ------------------------------------------------------------------------------------------
_MP = None


def mp():
    global _MP
    if _MP is None:
        import mpmath
        mpmath.mp.dps = 40
        _MP = mpmath
    return _MP


def conv_truth(k, w, tau, causal):
    """(exp(-k s) theta(+-s)) convolved with the unit-area Gaussian of width w, at tau — closed form"""
    m = mp()
    z = (k * w * w - tau) / (m.sqrt(2) * w)
    return m.exp(-k * tau + k * k * w * w / 2) * m.erfc(z if causal else -z) / 2


def conv_quad(k, w, tau, causal):
    """the same by numerical quadrature of the convolution integral (definition)"""
    m = mp()
    g = lambda u: m.exp(-u * u / (2 * w * w)) / (w * m.sqrt(2 * m.pi))
    f = lambda s: m.exp(-k * s) * g(tau - s)
    lo, hi = (0, max(tau, 0) + 12 * w) if causal else (min(tau, 0) - 12 * w, 0)
    pts = sorted({lo, hi, min(max(tau, lo), hi)})
    n = max(2, int(abs(m.im(k)) * (hi - lo) / 6) + 2)
    grid = [lo + (hi - lo) * j / n for j in range(n + 1)]
    pts = sorted(set(pts + grid))
    return m.quad(f, pts)


def well_formed_irf(irf):
    """scale list (if any) as long as the list of Gaussians"""
    if irf is None or irf.get("scale") is None:
        return True
    return len(irf["scale"]) == max(len(irf["center"]), len(irf["width"]))


def in_benign_domain(case):
    irf = case.get("irf")
    if not well_formed_irf(irf):
        return False
    if irf is None or case["kind"] not in ("osc", "pfid"):
        return True
    try:
        ws = [abs(p[1]) for i, x in enumerate(case["global_axis"]) for p in irf_positions(irf, i, x)]
    except Exception:
        return True
    wmax = max(ws) if ws else 0.0
    for i, o in enumerate(case["oscs"]):
        if abs(o[2]) * wmax > 3.2:
            return False
        for x in case["global_axis"]:
            if abs(kernel_omega(case, o, x)) * wmax > 27:
                return False
    if irf.get("scale") and min(irf["scale"]) <= 0:
        return False
    return True


def kernel_omega(case, o, x):
    """angular frequency of the definition: 0.06 pi nu (osc) / 0.06 pi (x_probe - nu) (pfid)"""
    if case["kind"] == "osc":
        return angular(o[1])
    nu = o[1]
    if case.get("inverted"):
        nu = case["scale"] / nu
    elif case.get("scale", 1) != 1:
        nu = nu * case["scale"]
    return (x - nu) * 0.03 * 2 * math.pi


def stress_class(case):
    """input class of the two recorded numerical findings, or None"""
    irf = case.get("irf")
    if irf is None or case["kind"] not in ("osc", "pfid"):
        return None
    try:
        ws = [abs(p[1]) for i, x in enumerate(case["global_axis"]) for p in irf_positions(irf, i, x)]
    except Exception:
        return None
    wmax = max(ws) if ws else 0.0
    om = max(abs(kernel_omega(case, o, x)) for o in case["oscs"] for x in case["global_axis"])
    g = max(abs(o[2]) for o in case["oscs"])
    if om * wmax >= 30:
        return "irf-kernel-nonfinite-large-frequency-times-width"
    if g * wmax >= 3.5:
        return "irf-kernel-cancellation-large-rate-times-width"
    return None


def oracle(ck, case, real):
    if real[0] != "ok":
        return
    kind = case["kind"]
    ck.oracle_evals += 1
    if kind == "osc" and case.get("irf") is None:
        oracle_noirf(ck, case, real)
    elif kind in ("osc", "pfid"):
        oracle_irf(ck, case, real)
    elif kind == "artifact":
        oracle_artifact(ck, case, real)
    elif kind == "spectralds":
        oracle_spectralds(ck, case, real)
    else:
        oracle_spectral(ck, case, real)


def oracle_noirf(ck, case, real):
    m = mp()
    labels, M = real[1], real[2]
    t = case["model_axis"]
    fm = fmax_of(t)
    for (lab, nu, g) in case["oscs"]:
        om = m.mpf(nu) * m.mpf(3) / 100 * 2 * m.pi
        wrapped = angular(nu) >= fm
        for suffix, fn in (("_cos", lambda a: m.cos(a)), ("_sin", lambda a: -m.sin(a))):
            if labels.count(lab + suffix) != 1:
                ck.violation("osc-label-missing", f"clp label {lab + suffix} occurs {labels.count(lab + suffix)} times", {"case": case})
                return
            col = M[:, labels.index(lab + suffix)]
            for ti, tv in enumerate(t):
                env = m.exp(-m.mpf(g) * m.mpf(tv))
                want = float(env * fn(om * m.mpf(tv)))
                tol = (1e-10 + 8 * EPS * abs(angular(nu) * tv)) * float(env) + 1e-300
                if not abs(col[ti] - want) <= tol:
                    key = "frequency-wrap-undersampled-axis" if wrapped else "noirf-osc-not-the-quadrature"
                    ck.violation(key, f"damped oscillation without IRF: column {lab + suffix} at t={tv!r} is {col[ti]!r}, "
                                 f"definition exp(-{g!r} t){'cos' if suffix == '_cos' else '(-sin)'}(0.06 pi {nu!r} t) = {want!r}"
                                 + (f" (frequency {angular(nu):.6g} rad/ps >= wrap threshold {fm:.6g})" if wrapped else ""),
                                 {"case": case})
                    return


def truth_irf_matrix(case):
    """T[i][t][osc] complex: sum_g scale_g conv(exp(-(gamma + i omega) s) theta(+-s), N(P_g,i, w_g,i)) / sum_g scale_g"""
    m = mp()
    irf = case["irf"]
    out = []
    for i, x in enumerate(case["global_axis"]):
        gs = irf_positions(irf, i, x)
        ssum = sum(m.mpf(s) for _, _, s in gs)
        rows = []
        for tv in case["model_axis"]:
            row = []
            for o in case["oscs"]:
                k = m.mpc(o[2], kernel_omega_mp(case, o, x))
                causal = (o[2] >= 0) if case["kind"] == "osc" else False
                v = sum(m.mpf(s) * conv_truth(k, m.mpf(abs(w)), m.mpf(tv) - m.mpf(p), causal) for p, w, s in gs) / ssum
                row.append(v)
            rows.append(row)
        out.append(rows)
    return out


def kernel_omega_mp(case, o, x):
    m = mp()
    if case["kind"] == "osc":
        return m.mpf(o[1]) * m.mpf(3) / 100 * 2 * m.pi
    nu = m.mpf(o[1])
    if case.get("inverted"):
        nu = m.mpf(case["scale"]) / nu
    elif case.get("scale", 1) != 1:
        nu = nu * m.mpf(case["scale"])
    return (m.mpf(x) - nu) * m.mpf(3) / 100 * 2 * m.pi


def oracle_irf(ck, case, real):
    irf = case["irf"]
    labels, M = real[1], real[2]
    kind = case["kind"]
    if kind == "pfid" and any(o[2] >= 0 for o in case["oscs"]):
        return                                     # unsupported configuration ("where supported")
    gax, tax = case["global_axis"], case["model_axis"]
    indexed = M.ndim == 3
    if not indexed:
        M = M[None, ...]
        gax = gax[:1]
        if irf.get("shift") is not None or irf["type"] in R.SPECTRAL_TYPES:
            ck.violation("irf-index-dependence-lost", "index-dependent IRF but a 2-d matrix", {"case": case})
            return
    sub = dict(case, global_axis=gax)
    sclass = stress_class(case)
    wrapped = kind == "osc" and any(angular(o[1]) >= fmax_of(tax) for o in case["oscs"])
    if not np.isfinite(M).all():
        key = sclass or "irf-kernel-nonfinite"
        ck.violation(key, f"{kind} with Gaussian IRF: matrix contains non-finite entries "
                     f"(first at {tuple(int(v) for v in np.argwhere(~np.isfinite(M))[0])})", {"case": case})
        return
    T = truth_irf_matrix(sub)
    n = len(case["oscs"])
    want = np.zeros_like(M)
    for i in range(len(gax)):
        for ti in range(len(tax)):
            for j, o in enumerate(case["oscs"]):
                if labels.count(o[0] + "_cos") != 1 or labels.count(o[0] + "_sin") != 1:
                    ck.violation("osc-label-missing", f"clp labels of {o[0]} not unique/present", {"case": case})
                    return
                want[i, ti, labels.index(o[0] + "_cos")] = float(T[i][ti][j].real)
                want[i, ti, labels.index(o[0] + "_sin")] = float(T[i][ti][j].imag)
    tmax = float(np.abs(want).max())
    if tmax < 1e-12:
        ck.count("oracle:irf-signal-out-of-axis")
        if np.abs(M).max() > 1e-6:
            ck.violation("irf-kernel-nonzero-without-signal", f"{kind}: the convolution vanishes on the whole axis but the matrix does not "
                         f"(max |entry| {np.abs(M).max()!r})", {"case": case})
        return
    c = float((M * want).sum() / (want * want).sum())
    scales = irf.get("scale") or [1.0]
    spread = sum(abs(s) for s in scales) / abs(sum(scales)) if sum(scales) else 1.0
    tol = 2e-6 * max(abs(c), 1.0) / 2 * spread + 1e-8 * abs(c) * tmax
    err = np.abs(M - c * want)
    ck.extra.setdefault("fitted_constants", {}).setdefault(kind, [])
    if err.max() <= tol and abs(c) > 1e-6:
        consts = ck.extra["fitted_constants"][kind]
        if in_benign_domain(case) and tmax > 1e-3:
            consts.append((round(c, 7), case))
        return
    # classify the failing input
    idx = tuple(int(v) for v in np.unravel_index(np.argmax(err), err.shape))
    what = (f"{kind} with Gaussian IRF is not proportional to the convolution of the "
            f"{'causal/anti-causal' if kind == 'osc' else 'anti-causal'} oscillation with the IRF at the decay model's position: "
            f"best constant {c:.6g}, entry [index {idx[0]}, t={tax[idx[1]]!r}, {labels[idx[2]]}] = {M[idx]!r}, "
            f"constant*convolution = {c * want[idx]!r}, allowed {tol:.3g}")
    key = "irf-kernel-not-the-convolution"
    if wrapped:
        key = "frequency-wrap-undersampled-axis"
    elif sclass:
        key = sclass
    else:
        # which simple alternative explains the matrix? (only to name the class of the failing input)
        if irf.get("shift") is not None:
            alt = copy.deepcopy(sub)
            alt["irf"]["shift"] = [-s for s in irf["shift"]]
            Ta = truth_irf_matrix(alt)
            wa = np.zeros_like(M)
            for i in range(len(gax)):
                for ti in range(len(tax)):
                    for j, o in enumerate(case["oscs"]):
                        wa[i, ti, labels.index(o[0] + "_cos")] = float(Ta[i][ti][j].real)
                        wa[i, ti, labels.index(o[0] + "_sin")] = float(Ta[i][ti][j].imag)
            ca = float((M * wa).sum() / (wa * wa).sum()) if (wa * wa).sum() else 0.0
            if np.abs(M - ca * wa).max() <= tol * 2:
                key = "irf-position-centre-plus-shift"
                what += " — the matrix IS the convolution with the IRF placed at centre + shift (decay: centre - shift)"
        if key == "irf-kernel-not-the-convolution":
            before = [(i, ti) for i in range(len(gax)) for ti, tv in enumerate(tax)
                      if all(tv - p <= -6 * abs(w) for p, w, _ in irf_positions(irf, i, gax[i]))]
            off = [M[i, ti, :] for i, ti in before]
            if kind == "osc" and all(o[2] >= 0 for o in case["oscs"]) and off and np.abs(np.asarray(off)).min() > 1e-3:
                key = "irf-osc-constant-offset-before-pulse"
                what += f" — long before the pulse the columns equal {off[0][0]!r} instead of 0"
    ck.violation(key, what, {"case": case})


def oracle_decay_reference(ck, case):
    """the effective IRF position per index the oracle uses IS the decay model's: real decay megacomplex of
    the same dataset against the causal convolution at centre - shift + dispersion"""
    irf = case.get("irf")
    if irf is None:
        return
    m = mp()
    wmax = max(abs(w) for w in irf["width"]) * 1.6
    k = 1.0 / wmax
    try:
        D = R.run_real_decay(case, k)
    except Exception as e:  # noqa: BLE001
        ck.diagnostic("decay reference could not be evaluated", {"case": case, "error": repr(e)})
        return
    gax = case["global_axis"]
    if D.ndim == 1:
        D = D[None, :]
        gax = gax[:1]
    ck.oracle_evals += 1
    for i, x in enumerate(gax):
        gs = irf_positions(irf, i, x)
        ssum = sum(s for _, _, s in gs)
        for ti, tv in enumerate(case["model_axis"]):
            want = float(sum(m.mpf(s) * conv_truth(m.mpf(k), m.mpf(abs(w)), m.mpf(tv) - m.mpf(p), True) for p, w, s in gs) / ssum)
            if not abs(D[i, ti] - want) <= 1e-7 + 1e-7 * abs(want):
                ck.violation("decay-irf-position-differs-from-reference",
                             f"decay megacomplex of the dataset (rate {k!r}) at index {i}, t={tv!r}: {D[i, ti]!r}, causal convolution "
                             f"with the IRF at centre - shift + dispersion: {want!r}", {"case": case, "decay_rate": k})
                return
    ck.count("oracle:decay-reference-checked")


def oracle_artifact(ck, case, real):
    m = mp()
    irf = case["irf"]
    labels, M = real[1], real[2]
    gax, tax = case["global_axis"], case["model_axis"]
    if M.ndim == 2:
        M = M[None, ...]
        gax = gax[:1]
    order = case["order"]
    want_labels = [f"coherent_artifact_{i}_{case.get('label', 'm')}" for i in range(1, order + 1)]
    if labels != want_labels:
        ck.violation("artifact-labels", f"labels {labels}, documented {want_labels}", {"case": case})
        return
    cfit = None
    for i, x in enumerate(gax):
        p, w, _s = irf_positions(irf, i, x)[0]
        if case.get("width") is not None:
            w = case["width"]
        p, w = m.mpf(p), m.mpf(w)
        g = lambda u: m.exp(-(u - p) ** 2 / (2 * w * w))
        for ti, tv in enumerate(tax):
            tv_ = m.mpf(tv)
            vals = [g(tv_)]
            if order > 1:
                vals.append(m.diff(g, tv_, 1, h=w / 2 ** 20))
            if order > 2:
                vals.append(m.diff(g, tv_, 2, h=w / 2 ** 20))
            for j, v in enumerate(vals):
                v = float(v)
                scale = float(1 / abs(w) ** j)
                if cfit is None and j == 0 and abs(v) > 1e-3:
                    cfit = M[i, ti, 0] / v
                cc = cfit if cfit is not None else 1.0
                # rounding of the code's doubles: t - c cancels (exponent), the expanded square
                # c^2 - w^2 - 2ct + t^2 cancels to ~w^2 (third column)
                pf, wf = float(p), abs(float(w))
                cancel = 8 * EPS * (abs(pf) + abs(tv)) * abs(tv - pf) / wf ** 2 * abs(v)
                if j == 1:
                    cancel += 8 * EPS * (abs(pf) + abs(tv)) / wf ** 2 * abs(float(vals[0]))
                if j == 2:
                    cancel += 16 * EPS * (pf * pf + tv * tv + wf * wf) / wf ** 4 * abs(float(vals[0]))
                if not abs(M[i, ti, j] - cc * v) <= 1e-9 * scale * max(abs(cc), 1) + 1e-9 * abs(cc * v) + abs(cc) * cancel:
                    ck.violation(f"artifact-column-{j + 1}-not-derivative-{j}",
                                 f"coherent artifact column {j + 1} at index {i}, t={tv!r}: {M[i, ti, j]!r}; derivative {j} of the "
                                 f"Gaussian at the decay model's IRF position {float(p)!r} with width {float(w)!r}: {cc * v!r}",
                                 {"case": case})
                    return


def shape_truth(sh, xc):
    """documented formulae at the converted coordinate xc (mpmath)"""
    m = mp()
    _c, typ, amp, x0, width, b = sh
    A = m.mpf(1) if amp is None else m.mpf(amp)
    if typ == "one":
        return m.mpf(1)
    if typ == "zero":
        return m.mpf(0)
    x0, width, b = m.mpf(x0), m.mpf(width), m.mpf(b)
    if typ == "gaussian" or b == 0:
        return A * m.exp(-m.log(2) * (2 * (xc - x0) / width) ** 2)
    th = 1 + 2 * b * (xc - x0) / width
    if th <= 0:
        return m.mpf(0)
    return A * m.exp(-m.log(2) * (m.log(th) / b) ** 2)


def convert_axis_mp(case, x):
    m = mp()
    x = m.mpf(x)
    if case.get("inverted"):
        return m.mpf(case["scale"]) / x
    if case.get("scale", 1) != 1:
        return x * m.mpf(case["scale"])
    return x


def shape_tolerance(sh, xc, want):
    """allowed |double - documented formula| for one shape at the converted coordinate xc"""
    amp = 1.0 if sh[2] is None else sh[2]
    b = sh[5] if sh[1] == "skewed" else 0.0
    # conversion of the axis in doubles moves xc by <= 2 ulp: propagate through the slope of the shape
    u = abs(float((xc - mp().mpf(sh[3])) / mp().mpf(sh[4]))) if sh[1] in ("gaussian", "skewed") else 0.0
    slope = abs(amp) * (8 * (u + 1)) * abs(float(xc) / sh[4]) * 4 * EPS / max(1e-300, 1.0) if sh[1] in ("gaussian", "skewed") else 0.0
    if sh[1] == "skewed" and b != 0:
        slope *= 1 + 1 / max(abs(1 + 2 * b * float((xc - mp().mpf(sh[3])) / mp().mpf(sh[4]))), 1e-12) / max(abs(b), 1e-12) * 1e-3
    tol = 1e-11 * abs(amp) + slope
    if sh[1] == "skewed" and 0 < abs(b) <= 1e-7:
        tol += 8 * (u + 1) ** 3 * abs(b) * abs(amp) + 1e-8 * abs(amp)   # continuity: switch / log1p rounding
    if sh[1] == "skewed" and b != 0 and want != 0:
        # np.log(1 + small) carries the rounding of `1 + small`: relative error eps / |log theta| of the
        # logarithm, i.e. 2 E eps / |log theta| of the value, E = ln2 (log theta / b)^2
        th = 1 + 2 * b * float((xc - mp().mpf(sh[3])) / mp().mpf(sh[4]))
        lt = abs(math.log(th)) if th > 0 else 0.0
        if lt > 0:
            tol += abs(want) * 2 * math.log(2) * (lt / b) ** 2 * 4 * EPS / lt
    return tol


def oracle_spectral(ck, case, real):
    labels, M = real[1], real[2]
    if labels != [s[0] for s in case["shapes"]]:
        ck.violation("spectral-labels", f"labels {labels} differ from the compartments of the shape dict", {"case": case})
        return
    for j, sh in enumerate(case["shapes"]):
        for xi, x in enumerate(case["model_axis"]):
            xc = convert_axis_mp(case, x)
            want = float(shape_truth(sh, xc))
            tol = shape_tolerance(sh, xc, want)
            if not abs(M[xi, j] - want) <= tol:
                ck.violation(f"shape-{sh[1]}-not-the-documented-formula",
                             f"spectral shape {sh[0]} ({sh[1]}, amplitude {sh[2]!r}, location {sh[3]!r}, width {sh[4]!r}"
                             + (f", skewness {sh[5]!r}" if sh[1] == "skewed" else "")
                             + f") at axis value {x!r} (converted {float(xc)!r}): {M[xi, j]!r}, documented formula {want!r}",
                             {"case": case})
                return


def gen_spectralds_case(rng):
    """a dataset with 2-3 spectral megacomplexes; compartments shared between them get several shapes"""
    base = gen_spectral_case(rng)
    pool = ["s1", "s2", "s3", "s1_x"]
    megas = []
    for k in range(rng.choice([2, 2, 3])):
        c = gen_spectral_case(rng)
        comps = rng.sample(pool, min(len(pool), rng.choice([1, 2, 3])))
        shapes = []
        for comp, sh in zip(comps, c["shapes"] + base["shapes"] * 3):
            sh = list(sh)
            sh[0] = comp
            if base["inverted"] != c["inverted"] and sh[1] in ("gaussian", "skewed"):
                sh[3], sh[4] = base["shapes"][0][3], base["shapes"][0][4]     # keep location / width in the units of `base`
            shapes.append(sh)
        megas.append(shapes)
    if len({sh[0] for m in megas for sh in m}) == sum(len(m) for m in megas):
        megas[-1][0][0] = megas[0][0][0]                                      # at least one shared compartment
    return {"kind": "spectralds", "megas": megas, "inverted": base["inverted"], "scale": base["scale"],
            "global_axis": [0.0], "model_axis": base["model_axis"]}


def oracle_spectralds(ck, case, real):
    """dataset-level: labels in first-occurrence order; the column of a compartment is the sum of the documented formulae
    of all shapes given to it"""
    labels, M = real[1], real[2]
    want_labels = []
    for m_ in case["megas"]:
        for sh in m_:
            if sh[0] not in want_labels:
                want_labels.append(sh[0])
    if labels != want_labels:
        ck.violation("spectral-dataset-labels", f"labels {labels}; compartments in order of first occurrence {want_labels}", {"case": case})
        return
    for j, lab in enumerate(labels):
        shs = [sh for m_ in case["megas"] for sh in m_ if sh[0] == lab]
        for xi, x in enumerate(case["model_axis"]):
            xc = convert_axis_mp(case, x)
            vals = [float(shape_truth(sh, xc)) for sh in shs]
            want = sum(vals)
            tol = sum(shape_tolerance(sh, xc, v) for v, sh in zip(vals, shs)) + 4 * EPS * sum(abs(v) for v in vals)
            if not abs(M[xi, j] - want) <= tol:
                ck.violation("spectral-shapes-of-a-compartment-do-not-add-up",
                             f"compartment {lab} has {len(shs)} shape(s); dataset matrix at axis value {x!r}: {M[xi, j]!r}, "
                             f"sum of the documented formulae {want!r}", {"case": case})
                return


def spectral_glue_enumeration(ck, ne):
    """every builtin shape type x {plain, scaled, inverted} axis x {ascending, descending, unsorted} axis order, alone and
    as second shape of a shared compartment; also: the shape types registered in the real code are the ones the model
    (and the translator's `shapeTypes`) knows"""
    from glotaran.builtin.megacomplexes.spectral.shape import SpectralShape
    try:
        real_types = sorted(SpectralShape.get_item_types())
    except Exception as e:  # noqa: BLE001
        real_types = []
        ck.diagnostic("SpectralShape.get_item_types() failed", {"error": repr(e)})
    known = {"gaussian": "gaussian", "skewed-gaussian": "skewed", "one": "one", "zero": "zero"}
    ck.extra["builtin_shape_types"] = real_types
    for t in real_types:
        ck.count("shape-type:" + (t if t in known else "UNMODELLED:" + t))
        if t not in known:
            ck.diagnostic("a spectral shape type of the real code is not modelled", {"type": t})
    cases = []
    modes = [("plain", False, 1.0), ("scaled", False, 2.0), ("scaled", False, 1e-3), ("inverted", True, 1e7), ("inverted", True, 2.0)]
    for typ in ("gaussian", "skewed", "one", "zero"):
        for mode, inv, scale in modes:
            for order in ("ascending", "descending", "unsorted"):
                if inv and scale == 1e7:
                    x0, width = 20000.0, 1500.0
                elif inv:
                    x0, width = 0.0625, 0.03125
                else:
                    x0, width = 24.0, 4.0
                conv = [x0 + width * u for u in (-1.5, -0.5, -0.25, 0.0, 0.25, 0.5, 1.0, 2.0)]
                axis = [scale / p for p in conv] if inv else [p / scale for p in conv]
                axis = sorted(axis)
                if order == "descending":
                    axis = axis[::-1]
                elif order == "unsorted":
                    axis = axis[3:] + axis[:3][::-1]
                b = ck.rng.choice([0.5, -0.7, 1e-9, 2.0])
                sh = ["s1", typ, ck.rng.choice([None, 2.0, -0.5]), x0, width, b]
                cases.append({"kind": "spectral", "shapes": [sh, ["s2", "one", None, 0.0, 1.0, 0.0]], "inverted": inv, "scale": scale,
                              "global_axis": [0.0], "model_axis": axis})
                cases.append({"kind": "spectralds", "megas": [[["s0", "zero", None, 0.0, 1.0, 0.0], sh], [["s1", "gaussian", 0.5, x0, width, 0.0]]],
                              "inverted": inv, "scale": scale, "global_axis": [0.0], "model_axis": axis})
                ck.count(f"glue:{typ}:{mode}:{order}")
    reals = run_cases(ck, cases, ne)
    # descending axis = reversed rows of the ascending axis (bit for bit: every row depends on its own axis point only)
    for c, r in zip(cases, reals):
        if r[0] != "ok":
            ck.violation("spectral-glue-raises", f"spectral megacomplex raises {r[1]}: {r[2]}", {"case": c})
            continue
        rev = R.run_real(dict(c, model_axis=c["model_axis"][::-1]))
        ck.oracle_evals += 1
        if rev[0] != "ok" or rev[1] != r[1] or not np.array_equal(rev[2], r[2][::-1], equal_nan=True):
            ck.violation("spectral-rows-do-not-follow-axis-order", "reversing the model axis does not reverse the rows of the spectral matrix",
                         {"case": c})
    ck.extra["spectral_glue_enumeration"] = {"cases": len(cases), "shape_types": 4, "axis_modes": [m[0] + ":" + repr(m[2]) for m in modes],
                                             "axis_orders": ["ascending", "descending", "unsorted"]}


def shape_value(sh, xs):
    """real code: one shape on a plain axis"""
    case = {"kind": "spectral", "shapes": [sh], "inverted": False, "scale": 1.0, "global_axis": [0.0],
            "model_axis": [float(x) for x in xs]}
    r = R.run_real(case)
    if r[0] != "ok":
        raise RuntimeError(f"shape evaluation failed: {r}")
    return r[2][:, 0]


def oracle_shape_facts(ck, rng, n):
    """amplitude at the location, half maximum at +-FWHM/2 (exact points and by bisection), continuity in b"""
    for _ in range(n):
        x0 = rng.uniform(5, 50)
        width = _logu(rng, 0.2, 20)
        amp = rng.choice([None, rng.uniform(0.2, 4), -rng.uniform(0.2, 4)])
        A = 1.0 if amp is None else amp
        typ = rng.choice(["gaussian", "skewed"])
        b = rng.choice(SKEWS + [rng.uniform(-2, 2)]) if typ == "skewed" else 0.0
        sh = ["s", typ, amp, x0, width, b]
        ck.oracle_evals += 1
        case = {"kind": "spectral", "shapes": [sh], "inverted": False, "scale": 1.0, "global_axis": [0.0],
                "model_axis": [x0, x0 + width / 2, x0 - width / 2]}
        v = shape_value(sh, [x0, x0 + width / 2, x0 - width / 2])
        if not abs(v[0] - A) <= 1e-12 * abs(A):
            ck.violation("shape-amplitude-at-location", f"{typ} shape at its location: {v[0]!r}, amplitude {A!r}", {"case": case})
            return
        gaussian_like = typ == "gaussian" or abs(b) <= 1e-8
        if gaussian_like:
            for k in (1, 2):
                if not abs(v[k] - A / 2) <= 1e-9 * abs(A):
                    ck.violation("shape-half-maximum", f"{typ} shape at location {'+' if k == 1 else '-'} width/2: {v[k]!r}, half of the amplitude is {A / 2!r}",
                                 {"case": case})
                    return
            # FWHM by bisection on the real code
            for sgn in (1, -1):
                lo, hi = 0.0, 3.0 * width
                for _it in range(45):
                    mid = (lo + hi) / 2
                    if abs(shape_value(sh, [x0 + sgn * mid])[0]) > abs(A) / 2:
                        lo = mid
                    else:
                        hi = mid
                if not abs(lo - width / 2) <= 1e-8 * width:
                    ck.violation("shape-fwhm", f"{typ} shape reaches half maximum at distance {lo!r} from the location, width/2 = {width / 2!r}", {"case": case})
                    return
            ck.count("oracle:fwhm-bisection")
        else:
            # documented skewed formula: half maximum where the log argument is e^{+-b}
            for sgn in (1, -1):
                xh = x0 + width * (math.exp(sgn * b) - 1) / (2 * b)
                vh = shape_value(sh, [xh])[0]
                if not abs(vh - A / 2) <= 1e-7 * abs(A):
                    ck.violation("shape-skewed-half-maximum", f"skewed shape at theta = e^({sgn}b): {vh!r}, half amplitude {A / 2!r}", {"case": dict(case, model_axis=[xh])})
                    return
        if typ == "skewed":
            xs = [x0 + width * u for u in (-0.9, -0.5, -0.1, 0.0, 0.3, 0.5, 0.8)]
            f0 = shape_value(["s", "gaussian", amp, x0, width, 0.0], xs)
            for bb in (1e-3, -1e-5, 1e-7, -3e-8, 1.0000001e-8, 1e-8, -1e-9, 1e-11, -1e-13, 1e-15, 0.0):
                fb = shape_value(["s", "skewed", amp, x0, width, bb], xs)
                bound = 8 * abs(bb) * abs(A) * 1.9 ** 3 + 2e-8 * abs(A)
                if not np.abs(fb - f0).max() <= bound:
                    ck.violation("shape-skewed-not-continuous-at-zero-skewness",
                                 f"skewed shape with skewness {bb!r} differs from the Gaussian by {np.abs(fb - f0).max()!r} (> {bound!r})",
                                 {"case": dict(case, shapes=[["s", "skewed", amp, x0, width, bb]], model_axis=xs)})
                    return
            ck.count("oracle:skewness-continuity")


def oracle_closed_form_selfcheck(ck, rng, n):
    """the closed form the oracle uses against quadrature of the convolution integral (its definition)"""
    m = mp()
    worst = 0.0
    for _ in range(n):
        w = _logu(rng, 0.05, 2)
        g = rng.uniform(0.05, 2.5) / w
        om = rng.uniform(0, 12) / w
        causal = rng.random() < 0.5
        k = m.mpc(g if causal else -g, om)
        tau = m.mpf(rng.uniform(-4, 6) * w * (1 if causal else -1))
        a, b = conv_truth(k, m.mpf(w), tau, causal), conv_quad(k, m.mpf(w), tau, causal)
        worst = max(worst, float(abs(a - b)))
        if abs(a - b) > 1e-12:
            raise core.HarnessError(f"oracle self-check failed: closed form {a} vs quadrature {b} for k={k}, w={w}, tau={tau}")
    ck.extra["oracle_closed_form_vs_quadrature_max_abs_diff"] = max(worst, ck.extra.get("oracle_closed_form_vs_quadrature_max_abs_diff", 0.0))


def check_constants(ck):
    """'by one fixed constant': the fitted constants of all matrices of a kind agree"""
    summary = {}
    for kind, cs in ck.extra.get("fitted_constants", {}).items():
        if not cs:
            continue
        lo, hi = min(cs, key=lambda x: x[0]), max(cs, key=lambda x: x[0])
        summary[kind] = {"n": len(cs), "min": lo[0], "max": hi[0]}
        if hi[0] - lo[0] > 2e-5 * max(abs(hi[0]), abs(lo[0])):
            ck.violation("irf-proportionality-constant-not-fixed",
                         f"{kind}: the constant relating matrix and convolution varies between inputs: {lo[0]!r} for `case`, "
                         f"{hi[0]!r} for `other_case`", {"case": lo[1], "other_case": hi[1], "constants": [lo[0], hi[0]]})
    ck.extra["fitted_constants"] = summary


def irf_parameter_enumeration(ck, ne):
    """`irf.parameter(index, axis)` / `is_index_dependent()` of the real IRF items against the model in the exact
    regime (dyadic values, integer dispersion distances -> every double operation is exact -> equality):
    every combination of #centres, #widths in 0..3, scale list none / 1..3, shift list none / long enough / too
    short, plain / spectral with 0..2 centre and 0..2 width dispersion coefficients in wavelength and wavenumber
    mode, every global index of a 3-point axis (thorough: all; quick: a seeded sample)"""
    from glotaran.model import ModelError
    combos = []
    for nc in range(0, 4):
        for nw in range(0, 4):
            for nsc in (None, 1, 2, 3):
                for nsh in (None, 1, 3):
                    for spectral in (False, True):
                        disp = [(0, 0, False)] if not spectral else [(a, b, wn) for a in (0, 1, 2) for b in (0, 1, 2) for wn in (False, True)]
                        for (ncd, nwd, wn) in disp:
                            combos.append((nc, nw, nsc, nsh, spectral, ncd, nwd, wn))
    if ck.quick:
        combos = ck.rng.sample(combos, 160)
    else:
        ck.extra["irf_parameter_enumeration"] = {"combinations": len(combos), "indices_per_combination": 3, "exhaustive": True}
    lines, reals, metas = [], [], []
    for (nc, nw, nsc, nsh, spectral, ncd, nwd, wn) in combos:
        typ = ("spectral-multi-gaussian" if spectral else "multi-gaussian")
        irf = {"type": typ, "center": [1.0 + 0.25 * j for j in range(nc)], "width": [0.5 + 0.125 * j for j in range(nw)],
               "scale": None if nsc is None else [1.0, 0.5, 2.0][:nsc], "shift": None if nsh is None else [0.125, -0.375, 0.75][:nsh]}
        gax = [1000.0, 250.0, 125.0] if wn else [300.0, 500.0, 700.0]
        if spectral:
            irf.update({"dispersion_center": 500.0, "center_dispersion_coefficients": [0.5, -0.25][:ncd],
                        "width_dispersion_coefficients": [0.0625, 0.03125][:nwd], "model_dispersion_with_wavenumber": wn})
        case = {"kind": "artifact", "order": 1, "width": None, "irf": irf, "global_axis": gax, "model_axis": [0.0, 1.0], "label": "m"}
        try:
            dm, _, _ = R.build(case)
        except Exception as e:  # noqa: BLE001
            ck.count("irfpar:model-construction-failed:" + type(e).__name__)
            continue
        dep = bool(dm.irf.is_index_dependent())
        for idx in ((0, 1, 2) if dep else (None,)):
            try:
                c, w, sc, sh, _bs, _bp = dm.irf.parameter(idx, np.asarray(gax))
                real = ("ok", [float(x) for x in np.atleast_1d(c)], [float(x) for x in np.atleast_1d(w)],
                        [float(x) for x in np.atleast_1d(sc)], float(sh), dep)
            except ModelError as e:
                real = ("err", "ModelError", str(e)[:80])
            except Exception as e:  # noqa: BLE001
                real = ("err", type(e).__name__, str(e)[:80])
            lines.append(f"irfpar {R.irf_proto(irf)} {'none' if idx is None else idx} {R._rats(gax)}")
            reals.append(real)
            metas.append({"irf": irf, "index": idx, "global_axis": gax})
    answers = core.lean_driver(PROP, lines)
    t0 = np.zeros(1)
    for line, real, meta, ans in zip(lines, reals, metas, answers):
        ck.case(line, True)
        ck.count("irfpar:" + ("spectral" if meta["irf"]["type"] in R.SPECTRAL_TYPES else "plain"))
        tree = R.parse_answer(ans)
        if ans == "bad-op":
            raise core.HarnessError(f"model refused {line}")
        if tree[0] == "err":
            ck.count("irfpar:error:" + tree[1].split(":")[0])
            want = {"irfLength": "ModelError", "scaleLength": "ModelError", "noShift": "ModelError", "noDispersionCenter": "ModelError", "noIndex": "TypeError"}[tree[1].split(":")[0]]
            if real[0] != "err" or real[1] != want:
                ck.disagree("irf-parameter:error", f"model: {tree[1]}, implementation: {real[:2]}", {"irf_parameter": meta})
            continue
        if real[0] == "err":
            ck.disagree("irf-parameter:error-extra", f"implementation raises {real[1]}: {real[2]}; model returns parameters", {"irf_parameter": meta})
            continue
        vals = [[float(ne.ev(x, t0)[0]) for x in tree[k]] for k in (1, 2, 3)] + [float(ne.ev(tree[4], t0)[0]), tree[5] == "T"]
        got = [real[1], real[2], real[3], real[4], real[5]]
        if vals != got:
            ck.disagree("irf-parameter:values", f"(centres, widths, scales, shift, index dependent): implementation {got}, model {vals}",
                        {"irf_parameter": meta})


def result_observables(ck, ne, n):
    """Result.data[...].damped_oscillation_cos/_sin, pfid_cos/_sin, coherent_artifact_response, species_spectra of a
    real optimize() run: compared by label with the model and put through the oracle"""
    rng = ck.rng
    done = 0
    for it in range(n):
        which = ("osc+artifact", "pfid", "spectral")[it % 3]
        for _try in range(20):
            if which == "osc+artifact":
                c1 = gen_osc_case(rng)
                if c1["irf"] is None or not well_formed_irf(c1["irf"]) or len(c1["model_axis"]) < 8 or len(set(c1["model_axis"])) != len(c1["model_axis"]):
                    continue
                c2 = {"kind": "artifact", "order": rng.choice([1, 2, 3]), "width": rng.choice([None, 0.3 * abs(c1["irf"]["width"][0])]),
                      "label": "ca", "irf": c1["irf"], "global_axis": c1["global_axis"], "model_axis": c1["model_axis"]}
                if len({o[0] for o in c1["oscs"]}) != len(c1["oscs"]):
                    continue
                cases = [c1, c2] if rng.random() < 0.8 else [c2, c1]
            elif which == "pfid":
                c1 = gen_pfid_case(rng)
                if c1["irf"] is None or not well_formed_irf(c1["irf"]) or any(o[2] >= 0 for o in c1["oscs"]) or len(c1["model_axis"]) < 8 \
                        or len(set(c1["model_axis"])) != len(c1["model_axis"]):
                    continue
                cases = [c1]
            else:
                c1 = gen_spectral_case(rng)
                if len(c1["model_axis"]) < 6 or len({s[0] for s in c1["shapes"]}) != len(c1["shapes"]):
                    continue
                c1["global_axis"] = [0.0, 1.0, 2.5]
                cases = [c1]
            if all(in_benign_domain(c) for c in cases) and all(R.run_real(c)[0] == "ok" and np.isfinite(R.run_real(c)[2]).all() for c in cases):
                break
        else:
            continue
        try:
            outs = R.run_result(cases, clp_seed=rng.randrange(1 << 30))
        except Exception as e:  # noqa: BLE001
            ck.count("result:optimize-failed:" + type(e).__name__)
            ck.diagnostic("end-to-end evaluation failed", {"cases": cases, "error": repr(e)[:300]})
            continue
        done += 1
        ck.count(f"result:{which}")
        reals = []
        for c, o in zip(cases, outs):
            if c["kind"] in ("osc", "pfid"):
                if o[3]["frequency"] != [float(x[1]) for x in c["oscs"]] or o[3]["rate"] != [float(x[2]) for x in c["oscs"]]:
                    ck.violation("result-oscillation-coordinates", f"{c['kind']}: frequency / rate coordinates of the result {o[3]} differ from the parameters",
                                 {"case": c, "source": "result-dataset"})
            reals.append(o[:3])
        correspond(ck, [dict(c, source="result-dataset") for c in cases], ne, reals=reals)
        for c, r in zip(cases, reals):
            oracle(ck, dict(c, source="result-dataset"), r)
    ck.extra["result_dataset_runs"] = done



# ------------------------------------------------------------------------------------------
# fixed witnesses (recorded findings, regression cases)
# ------------------------------------------------------------------------------------------
def witness_wrap():
    """Lean: osc_noirf_quadratures_counterexample — nu = 100 cm^-1 on the axis 0, 1, 2 ps"""
    return {"kind": "osc", "oscs": [["o", 100.0, 0.0]], "irf": None, "global_axis": [500.0], "model_axis": [0.0, 1.0, 2.0]}


def witness_nonfinite():
    return {"kind": "osc", "oscs": [["o", 300.0, 0.5]],
            "irf": {"type": "gaussian", "center": [0.0], "width": [1.0], "scale": None, "shift": None},
            "global_axis": [500.0], "model_axis": [-1.0, -0.99, -0.5, 0.0, 0.5, 1.0]}


def witness_cancellation():
    return {"kind": "osc", "oscs": [["o", 0.0, 2.0]],
            "irf": {"type": "gaussian", "center": [0.0], "width": [5.0], "scale": None, "shift": None},
            "global_axis": [500.0], "model_axis": [-10.0, -5.0, 0.0, 5.0, 10.0, 20.0]}


# ------------------------------------------------------------------------------------------
# run / search / replay
# ------------------------------------------------------------------------------------------
def run_cases(ck, cases, ne, *, with_oracle=True, decay_every=4):
    reals = correspond(ck, cases, ne)
    if with_oracle:
        for i, (case, real) in enumerate(zip(cases, reals)):
            oracle(ck, case, real)
            if case.get("irf") is not None and real[0] == "ok" and i % decay_every == 0 and in_benign_domain(case):
                oracle_decay_reference(ck, case)
    return reals


def run(ck):
    ne = R.NumpyEval()
    corpus = [c if "kind" in c else c.get("case", {}) for c in core.load_corpus(PROP)]
    corpus = [c for c in corpus if "kind" in c]
    ck.count("corpus-cases", len(corpus))
    fixed = [witness_wrap(), witness_nonfinite(), witness_cancellation()]
    cases = corpus + fixed
    n = ck.n(100, 700)
    for _ in range(n):
        cases.append(gen_osc_case(ck.rng))
        cases.append(gen_pfid_case(ck.rng))
        cases.append(gen_artifact_case(ck.rng))
        cases.append(gen_spectral_case(ck.rng))
    for _ in range(ck.n(25, 250)):
        cases.append(gen_osc_case(ck.rng, stream="noirf"))
        cases.append(gen_error_case(ck.rng))
    for _ in range(ck.n(6, 60)):
        cases.append(gen_wrap_case(ck.rng))
    for _ in range(ck.n(30, 300)):
        cases.append(gen_spectralds_case(ck.rng))
    run_cases(ck, cases, ne)
    spectral_glue_enumeration(ck, ne)
    irf_parameter_enumeration(ck, ne)
    result_observables(ck, ne, ck.n(6, 45))
    oracle_shape_facts(ck, ck.rng, ck.n(12, 120))
    oracle_closed_form_selfcheck(ck, ck.rng, ck.n(6, 60))
    check_constants(ck)
    ck.extra["term_operations_evaluated"] = dict(sorted(ne.ops.items()))
    ck.extra["model_branches_taken"] = dict(sorted(ne.branch.items()))
    for c in (cases[len(corpus) + 3], cases[len(corpus) + 4], cases[len(corpus) + 5], cases[len(corpus) + 6]):
        ck.sample(c)
    ck.sample({"fixed witnesses": ["frequency wrap (N1)", "non-finite IRF kernel", "cancellation in the IRF kernel"]})


def search(ck):
    """widened oracle-only sweep on the real code"""
    for _ in range(ck.n(150, 1200)):
        for gen in (gen_osc_case, gen_pfid_case, gen_artifact_case, gen_spectral_case, gen_spectralds_case):
            case = gen(ck.rng)
            real = R.run_real(case)
            oracle(ck, case, real)
            if case.get("irf") is not None and real[0] == "ok" and in_benign_domain(case) and ck.rng.random() < 0.3:
                oracle_decay_reference(ck, case)
        if ck.violations:
            return
    oracle_shape_facts(ck, ck.rng, ck.n(20, 150))
    check_constants(ck)


def replay(ck, case):
    ne = R.NumpyEval()
    items = [d["case"] for d in case.get("disagreements", [])] or [case.get("case", case)]
    if isinstance(items[0], dict) and "other_case" in items[0]:
        items = [{"case": items[0]["case"]}, {"case": items[0]["other_case"]}]
    for c in items:
        c = c.get("case", c)
        if "irf_parameter" in c:
            print("irf.parameter record:", json.dumps(c["irf_parameter"]))
            continue
        if "kind" not in c or "model_axis" not in c:
            print("replay: this record carries no megacomplex case:", json.dumps(c)[:300])
            continue
        if c.get("source") == "result-dataset":
            partner = [c] if c["kind"] != "artifact" else [c]
            outs = R.run_result(partner)
            correspond(ck, [c], ne, reals=[outs[0][:3]])
            oracle(ck, c, outs[0][:3])
        else:
            run_cases(ck, [c], ne, decay_every=1)
        real = R.run_real(c)
        print("real code:", real[0], real[1] if real[0] == "err" else f"labels {real[1]} shape {real[2].shape}")
    check_constants(ck)
    for d in ck.disagreements:
        print("DISAGREEMENT", d["what"])
    for v in ck.violations:
        print("VIOLATION-DETAIL", v["what"])
    for k, t in ck.known_hits.items():
        print("KNOWN-FINDING-DETAIL", k)
