"""C02 helper: translator of the ORDER and OPERANDS of the steps that build the penalty vector (table `C02Steps`).

The provider methods are executed symbolically (harness/props/_c02_sym.py); the resulting effect lists / terms are read
into the vocabulary of lean/GlotaranModel/C02Steps.lean.  Whatever is not recognised becomes an `untranslatable "<why>"` /
`unknown "<why>"` entry of the table: the Lean interpreter gets stuck on it and `generated_pipeline_eq_model_*` stop
compiling, which sends the check into its broken-obligation path (search on the real code, then `no-failing-input-found`).
The translator never raises and never emits a default.
"""
from __future__ import annotations

import hashlib
import json

from harness.props import _c02_sym as sym
from harness.props._c02_sym import NONE, Source, Sym, Untranslatable, contains, fmt, walk

V = lambda name: ("?", name)          # noqa: E731  pattern variable
ANY = ("?", "_")
SL = ("slice", NONE, NONE, NONE)


def match(pat, t, b):
    """structural match with variables ("?", name); `_` matches anything without binding"""
    if isinstance(pat, tuple) and len(pat) == 2 and pat[0] == "?":
        if pat[1] == "_":
            return True
        if pat[1] in b:
            return b[pat[1]] == t
        b[pat[1]] = t
        return True
    if isinstance(pat, tuple):
        if not isinstance(t, tuple) or len(pat) != len(t):
            return False
        return all(match(p, x, b) for p, x in zip(pat, t))
    return pat == t


def m(pat, t, **pre):
    b = dict(pre)
    b["_ok"] = True
    return b if match(pat, t, b) else None


def q(s):
    return json.dumps(str(s)[:160])


def np_call(fn, *args):
    return ("call", ("attr", ("name", "np"), fn), tuple(args), ())


def short(t):
    return fmt(t)[:110]


# --------------------------------------------------------------------------------------------
# shared recognisers
# --------------------------------------------------------------------------------------------
def rowscale(t):
    """t = rows of M scaled by w  ->  (M, w, "rows") ; columns -> (M, w, "cols"); else None"""
    b = m(("T", ("bin", "Mult", ("T", V("M")), V("w"))), t) or m(("T", ("bin", "Mult", V("w"), ("T", V("M")))), t)
    if b:
        return b["M"], b["w"], "rows"
    for pat in (("bin", "Mult", V("M"), ("sub", V("w"), ("tuple", SL, NONE))),
                ("bin", "Mult", ("sub", V("w"), ("tuple", SL, NONE)), V("M")),
                ("bin", "Mult", V("M"), ("sub", V("w"), ("tuple", SL, ("attr", ("name", "np"), "newaxis")))),
                ("bin", "Mult", ("sub", V("w"), ("tuple", SL, ("attr", ("name", "np"), "newaxis"))), V("M"))):
        b = m(pat, t)
        if b:
            return b["M"], b["w"], "rows"
    b = m(("bin", "Mult", V("M"), V("w")), t)
    if b:
        return b["M"], b["w"], "cols"
    return None


def colsel(idx, n):
    """subscript of the global axis position relative to loop n -> Lean ColSel"""
    if idx == ("idx", n):
        return ".own"
    if idx[0] == "const" and isinstance(idx[1], int) and idx[1] >= 0:
        return f"(.fixed {idx[1]})"
    b = m(("bin", V("op"), ("idx", n), ("const", V("d"))), idx)
    if b and b["op"] in ("Add", "Sub") and isinstance(b["d"], int):
        d = b["d"] if b["op"] == "Add" else -b["d"]
        return f"(.shifted ({d}))"
    return f"(.unknown {q(short(idx))})"


def is_global_test(t):
    return m(("call", ("name", "has_dataset_model_global_model"), (ANY,), ()), t) is not None


def split_full(effs):
    """[if has_global: A else: B]  (possibly negated / early `continue`) -> (A, B) or None"""
    if len(effs) == 1 and effs[0][0] == "if":
        _, cond, a, b = effs[0]
        if is_global_test(cond):
            return list(a), list(b)
        if cond[0] == "un" and cond[1] == "Not" and is_global_test(cond[2]):
            return list(b), list(a)
    return None


# --------------------------------------------------------------------------------------------
# the tables
# --------------------------------------------------------------------------------------------
class Translator:
    def __init__(self, repo):
        self.src = Source(repo)
        self.notes = []

    def sym(self, mode):
        return Sym(self.src, mode)

    def guarded(self, fn, fallback):
        try:
            return fn()
        except Untranslatable as e:
            return fallback(str(e))
        except Exception as e:  # noqa: BLE001 — a translator must not crash the check
            return fallback(f"{type(e).__name__}: {e}")

    # ---- calculate_dataset_matrix ------------------------------------------------------------
    def mc(self):
        out = None
        for flag in (False, True):
            s = self.sym("unlinked")
            eff, ret = s.run_method("MatrixProvider", "calculate_dataset_matrix", {"global_matrix": ("const", flag)})
            steps = self.mc_steps(eff, ret)
            if out is None:
                out = steps
            elif out != steps:
                return [f".untranslatable {q('megacomplexes and global megacomplexes are combined differently')}"]
        return out

    def mc_steps(self, eff, ret):
        if eff:
            return [f".untranslatable {q('calculate_dataset_matrix has effects: ' + short(eff[0]))}"]
        b = m(("container", ("loop", V("n"), V("it"), ("list",), V("lu")), ("loop", V("n"), V("it"), NONE, V("mu"))), ret)
        if not b:
            return [f".untranslatable {q('calculate_dataset_matrix returns ' + short(ret))}"]
        n, it = b["n"], b["it"]
        # which carried local is the matrix / the labels
        mu, lu = b["mu"], b["lu"]
        bm = m(("phi", ("isnone", V("cm")), V("this"), ("item", V("op"), ("const", 1))), mu) \
            or m(("phi", ("isnone", V("cm")), V("this"), ("item", V("op"), 1)), mu)
        if not bm or bm["cm"][0] != "carry":
            return [f".untranslatable {q('accumulation of the matrix: ' + short(mu))}"]
        cm, this, op = bm["cm"], bm["this"], bm["op"]
        elem = ("elem", it, n)
        scale = ("item", elem, 0)
        bo = m(("op", "combine_megacomplex_matrices", (V("a"), V("b"), V("la"), V("lb")), ()), op)
        if not bo:
            return [f".untranslatable {q('combination step: ' + short(op))}"]
        # the labels follow the same combination
        bl = m(("phi", ("isnone", cm), V("tl"), ("item", op, ANY)), lu)
        if not bl:
            return [f".untranslatable {q('accumulation of the labels: ' + short(lu))}"]
        steps = []
        raw = None
        bs = m(("phi", ("notnone", scale), V("scaled"), V("raw")), this)
        if bs:
            raw = bs["raw"]
            if bs["scaled"] == ("inplace", "Mult", raw, scale):
                steps.append(".scaleMc true")
            elif bs["scaled"] in (("bin", "Mult", raw, scale), ("bin", "Mult", scale, raw)):
                steps.append(".scaleMc false")
            else:
                return [f".untranslatable {q('megacomplex scale: ' + short(bs['scaled']))}"]
        else:
            raw = this
        if not m(("item", ("call", ("attr", ("item", elem, 1), "calculate_matrix"), ANY, ANY), 1), raw):
            return [f".untranslatable {q('matrix of a megacomplex: ' + short(raw))}"]
        tl = bl["tl"]
        lcar = bo["la"] if bo["a"] == cm else bo["lb"]
        if bo["a"] == cm and bo["b"] == this and bo["lb"] == tl and lcar[0] == "carry":
            steps.append(".combine true")
        elif bo["b"] == cm and bo["a"] == this and bo["la"] == tl and lcar[0] == "carry":
            steps.append(".combine false")
        else:
            return steps + [f".untranslatable {q('operands of combine_megacomplex_matrices: ' + short(op))}"]
        return steps

    # ---- DataProvider.__init__ ---------------------------------------------------------------
    def gfd(self, t, name):
        """get_from_dataset(dataset, name, md, gd) inlined -> copy flag, or raises"""
        b = m(("phi", ("cmp", "In", ("const", name), V("ds")), ("phi", V("c2"), ("T", V("c")), V("c")), NONE), t)
        if not b:
            raise Untranslatable(f"'{name}' is not taken by get_from_dataset: {short(t)}")
        var = ("sub", b["ds"], ("const", name))
        bd = m(("cmp", "NotEq", ("attr", var, "dims"), ("tuple", V("md"), V("gd"))), b["c2"])
        if not bd:
            raise Untranslatable(f"'{name}' is transposed on {short(b['c2'])} (not on its own dims)")
        if not m(("op", "infer_global_dimension", (bd["md"], ("attr", ("attr", b["ds"], "data"), "dims")), ()), bd["gd"]):
            raise Untranslatable(f"global dimension of '{name}': {short(bd['gd'])}")
        arr = ("attr", var, "data")
        c = b["c"]
        if c == ("copy", arr) or m(np_call("array", arr), c) or m(np_call("copy", arr), c):
            return True
        # `.astype(dtype)` converts and copies (numpy's default `copy=True`)
        b2 = m(("call", ("attr", arr, "astype"), (V("dt"),), ()), c)
        if b2 and b2["dt"] in (("attr", ("name", "np"), "float64"), ("name", "float"), ("const", "float64"), ("const", "f8")):
            return True
        if c == arr or m(np_call("asarray", arr), c):
            return False
        raise Untranslatable(f"'{name}' is read as {short(c)}")

    def data(self):
        s = self.sym("unlinked")
        eff, _ = s.run_method("DataProvider", "__init__")
        loops = [e for e in eff if e[0] == "for"]
        if len(loops) != 1:
            u = f".untranslatable {q('DataProvider.__init__: %d loops over the datasets' % len(loops))}"
            return [u], f".unknown {q('init')}", f".unknown {q('init')}"
        _, n, it, body = loops[0]
        b = m(("call", ("attr", V("dm"), "items"), (), ()), it)
        if not b:
            u = f".untranslatable {q('DataProvider.__init__ iterates ' + short(it))}"
            return [u], f".unknown {q('init')}", f".unknown {q('init')}"
        label = ("key", b["dm"], n)
        D, W = ("sub", ("cont", "_data"), label), ("sub", ("cont", "_weight"), label)
        FD, FW = ("sub", ("cont", "_flattened_data"), label), ("sub", ("cont", "_flattened_weight"), label)
        steps = []
        flat = {"d": None, "w": None}

        def flat_order(t, arr):
            if t == ("call", ("attr", ("T", arr), "flatten"), (), ()) or t == ("call", ("attr", ("T", arr), "ravel"), (), ()):
                return ".globalMajor"
            if t == ("call", ("attr", arr, "flatten"), (), ()):
                return ".modelMajor"
            return f".unknown {q(short(t))}"

        def visit(effs, under_weight, under_full):
            for e in effs:
                if e[0] == "store" and e[1] == D:
                    if under_weight or under_full:
                        # `data = data * weight` written as a store
                        if under_weight and e[2] in (("bin", "Mult", D, W), ("bin", "Mult", W, D)):
                            steps.append(".mulWeight false")
                        else:
                            steps.append(f".untranslatable {q('data stored under a condition: ' + short(e[2]))}")
                    else:
                        try:
                            steps.append(".fromDataset " + ("true" if self.gfd(e[2], "data") else "false"))
                        except Untranslatable as ex:
                            steps.append(f".untranslatable {q(ex)}")
                elif e[0] == "augstore" and e[2] == D:
                    if e[1] == "Mult" and e[3] == W and under_weight:
                        steps.append(".mulWeight true")
                    else:
                        steps.append(f".untranslatable {q('in-place update of the data: ' + short(e))}")
                elif e[0] == "store" and e[1] == W:
                    if contains(e[2], ("const", "weight")):
                        try:
                            self.gfd(e[2], "weight")
                        except Untranslatable as ex:
                            steps.append(f".untranslatable {q(ex)}")
                elif e[0] == "store" and e[1] == FD:
                    flat["d"] = flat_order(e[2], D) if under_full else f".unknown {q('flattened data outside the full-model branch')}"
                elif e[0] == "store" and e[1] == FW:
                    bw = m(("ifexp", ("notnone", W), V("x"), NONE), e[2])
                    flat["w"] = flat_order(bw["x"], W) if (bw and under_full) else f".unknown {q(short(e[2]))}"
                elif e[0] == "if":
                    c = e[1]
                    if c == ("notnone", W):
                        visit(e[2], True, under_full)
                        visit(e[3], False, under_full)
                    elif is_global_test(c):
                        visit(e[2], under_weight, True)
                        visit(e[3], under_weight, False)
                    else:
                        inner = [x for x in walk(e) if isinstance(x, tuple) and x in (D, FD, FW)]
                        writes = [x for x in walk(e) if isinstance(x, tuple) and x and x[0] in ("store", "augstore", "mcall")
                                  and any(y in (D, FD, FW) for y in (x[1], x[2]))]
                        if writes:
                            steps.append(f".untranslatable {q('data written under ' + short(c))}")
                        else:
                            visit(e[2], under_weight, under_full)
                            visit(e[3], under_weight, under_full)
                elif e[0] in ("augstore", "mcall") and any(x in (D, FD, FW) for x in (e[1], e[2])):
                    steps.append(f".untranslatable {q('update of the data: ' + short(e))}")
                elif e[0] == "untranslatable":
                    steps.append(f".untranslatable {q(e[1])}")

        visit(body, False, False)
        return steps, flat["d"] or f".unknown {q('no flattened data')}", flat["w"] or f".unknown {q('no flattened weight')}"

    # ---- calculate_prepared_matrices ---------------------------------------------------------
    def prepared(self):
        s = self.sym("unlinked")
        eff, _ = s.run_method("MatrixProviderUnlinked", "calculate_prepared_matrices")
        if len(eff) != 1 or eff[0][0] != "for":
            return [f".untranslatable {q('calculate_prepared_matrices: ' + short(eff))}"]
        _, n, it, body = eff[0]
        b = m(("call", ("attr", V("dm"), "items"), (), ()), it)
        if not b:
            return [f".untranslatable {q('calculate_prepared_matrices iterates ' + short(it))}"]
        label, dsm = ("key", b["dm"], n), ("val", b["dm"], n)
        ab = split_full(list(body))
        if ab is None or ab[0]:
            return [f".untranslatable {q('calculate_prepared_matrices: datasets with a global model are not skipped')}"]
        P = ("sub", ("cont", "_prepared_matrix_container"), label)
        MC = ("sub", ("cont", "_matrix_containers"), label)
        AX = ("sub", ("cont", "_global_axes"), label)
        W = ("sub", ("cont", "_weight"), label)
        SCALE = ("call", ("name", "float"), (("bool", "Or", ("attr", dsm, "scale"), ("const", 1)),), ())
        cur = {"steps": None}

        def whole(c):
            if c == MC:
                return []
            bb = m(("container", ("attr", V("B"), "clp_labels"), V("mat")), c)
            if bb:
                B = bb["B"]
                if bb["mat"] in (("bin", "Mult", ("attr", B, "matrix"), SCALE), ("bin", "Mult", SCALE, ("attr", B, "matrix"))):
                    return whole(B) + [".scaleDataset"]
            raise Untranslatable("matrix before the reduction: " + short(c))

        def per_index(t, in_weight_branch):
            if t == P:
                if cur["steps"] is None:
                    raise Untranslatable("prepared matrices read before they are stored")
                return list(cur["steps"])
            bb = m(("op", "apply_constraints", (V("x"), AX), ()), t)
            if bb:
                return per_index(bb["x"], in_weight_branch) + [".constraints"]
            bb = m(("op", "apply_relations", (V("x"), AX), ()), t)
            if bb:
                return per_index(bb["x"], in_weight_branch) + [".relations"]
            bb = m(("ifexp", ("attr", V("C"), "is_index_dependent"), V("lc"), ("bin", "Mult", ("list", V("C")), ("attr", AX, "size"))), t)
            if bb:
                C = bb["C"]
                bl = m(("listcomp", ("container", V("L"), ("sub", V("M3"), ("tuple", ("idx", V("k")), SL, SL))),
                        ((V("k"), ("call", ("name", "range"), (("attr", AX, "size"),), ()), ()),)), bb["lc"])
                if bl and bl["L"] == sym.Sym.attr(None, C, "clp_labels", None, None) and bl["M3"] == sym.Sym.attr(None, C, "matrix", None, None):
                    return whole(C) + [".slice"]
                raise Untranslatable("per-index containers: " + short(bb["lc"]))
            bb = m(("listcomp", ("container", ("attr", V("E"), "clp_labels"), V("mat")), ((V("k"), V("X"), ()),)), t)
            if bb and bb["E"] == ("elem", bb["X"], bb["k"]):
                E, k = bb["E"], bb["k"]
                rs = rowscale(bb["mat"])
                if rs and rs[0] == ("attr", E, "matrix"):
                    if rs[1] == SCALE:
                        return per_index(bb["X"], in_weight_branch) + [".scaleDataset"]
                    bw = m(("sub", W, ("tuple", SL, V("i"))), rs[1])
                    if bw:
                        if not in_weight_branch:
                            raise Untranslatable("weight applied without the test `weight is not None`")
                        sel = colsel(bw["i"], k)
                        return per_index(bb["X"], in_weight_branch) + [(".weightRows " if rs[2] == "rows" else ".weightCols ") + sel]
                raise Untranslatable("per-index update: " + short(bb["mat"]))
            raise Untranslatable("prepared matrices: " + short(t))

        def visit(effs, in_weight_branch):
            for e in effs:
                if e[0] == "store" and e[1] == P:
                    cur["steps"] = per_index(e[2], in_weight_branch)
                elif e[0] == "if" and e[1] == ("notnone", W):
                    visit(e[2], True)
                    if e[3]:
                        raise Untranslatable("else-branch of the weight test: " + short(e[3]))
                elif e[0] == "if" and e[1] == ("isnone", W):
                    visit(e[3], True)
                    if e[2]:
                        raise Untranslatable("branch `weight is None`: " + short(e[2]))
                else:
                    raise Untranslatable("calculate_prepared_matrices: " + short(e))

        try:
            visit(ab[1], False)
        except Untranslatable as ex:
            return (cur["steps"] or []) + [f".untranslatable {q(ex)}"]
        return cur["steps"] if cur["steps"] is not None else [f".untranslatable {q('nothing stored')}"]

    # ---- EstimationProviderUnlinked ----------------------------------------------------------
    def unlinked_estimate(self):
        """-> (unlinkedEstimate steps, unlinkedCall, fullData)"""
        bad_call = lambda why: f"⟨.unknown {q(why)}, .unknown {q(why)}, .unknown {q(why)}, .unknown {q(why)}⟩"  # noqa: E731
        s = self.sym("unlinked")
        eff, _ = s.run_method("EstimationProviderUnlinked", "estimate")
        steps, call, fdata = [], bad_call("no per-index call found"), f".unknown {q('no full-model call found')}"
        for e in eff:
            if e == ("mcall", ("cont", "_clp_penalty"), "clear", ()) or e == ("store", ("cont", "_clp_penalty"), ("list",)):
                steps.append(".clearPenalties")
            elif e[0] == "for":
                _, n, it, body = e
                if not (m(("call", ("attr", V("dm"), "values"), (), ()), it) or m(("call", ("attr", V("dm"), "items"), (), ()), it)):
                    steps.append(f".untranslatable {q('estimate iterates ' + short(it))}")
                    continue
                ab = split_full(list(body))
                if ab is None:
                    steps.append(f".untranslatable {q('estimate: no split on the global model')}")
                    continue
                fdata = self.full_call(ab[0])
                dsteps, call = self.dataset_body(ab[1], bad_call)
                steps.append(".perDataset [" + ", ".join(dsteps) + "]")
            else:
                steps.append(f".untranslatable {q('estimate: ' + short(e))}")
        return steps, call, fdata

    def full_call(self, effs):
        stores = {}
        for e in effs:
            b = m(("store", ("sub", ("cont", V("c")), V("lbl")), ("item", V("call"), V("k"))), e)
            if not b:
                return f".unknown {q('full-model estimation: ' + short(e))}"
            stores[b["c"]] = (b["k"], b["call"], b["lbl"])
        if set(stores) != {"_clps", "_residuals"} or stores["_clps"][0] != 0 or stores["_residuals"][0] != 1 \
                or stores["_clps"][1:] != stores["_residuals"][1:]:
            return f".unknown {q('full-model estimation stores ' + short(tuple(sorted(stores))))}"
        call, lbl = stores["_clps"][1], stores["_clps"][2]
        b = m(("op", "calculate_residual", (("sub", ("cont", "_full_matrices"), lbl), V("y")), ()), call)
        if not b:
            return f".unknown {q('full-model call ' + short(call))}"
        if b["y"] == ("sub", ("cont", "_flattened_data"), lbl):
            return ".flattened"
        return f".unknown {q('full-model data ' + short(b['y']))}"

    def dataset_body(self, effs, bad_call):
        dsteps, call = [], bad_call("no per-index call found")
        cleared = set()
        lbl = None
        for e in effs:
            b = m(("mcall", ("sub", ("cont", V("c")), V("lbl")), "clear", ()), e)
            if b and b["c"] in ("_clps", "_residuals"):
                lbl = b["lbl"]
                cleared.add(b["c"])
                if cleared == {"_clps", "_residuals"}:
                    dsteps.append(".clearOwn")
                continue
            if e[0] == "for":
                _, n, it, body = e
                call = self.index_call(n, it, body, lbl, bad_call)
                dsteps.append(".solve")
                continue
            b = m(("augstore", "Add", ("cont", "_clp_penalty"), ("op", "calculate_clp_penalties", (V("L"), V("C"), V("A")), ())), e)
            if b:
                ok = b["C"] == ("sub", ("cont", "_clps"), lbl) and b["A"] == ("sub", ("cont", "_global_axes"), lbl) \
                    and m(("listcomp", ("attr", ("sub", ("cont", "_matrix_containers"), lbl), "clp_labels"), ((ANY, ANY, ()),)), b["L"])
                dsteps.append(".appendPenalties" if ok else f".untranslatable {q('arguments of calculate_clp_penalties: ' + short(e[3]))}")
                continue
            dsteps.append(f".untranslatable {q('calculate_estimation: ' + short(e))}")
        if len(cleared) == 1:
            dsteps.insert(0, f".untranslatable {q('only ' + sorted(cleared)[0] + ' is cleared')}")
        return dsteps, call

    def index_call(self, n, it, body, lbl, bad_call, linked=False):
        if linked:
            AX = ("cont", "_aligned_global_axis")
        else:
            AX = ("sub", ("cont", "_global_axes"), lbl)
        if it not in (("call", ("name", "enumerate"), (AX,), ()),):
            return bad_call("the calls iterate " + short(it))
        res, clp = None, None
        for e in body:
            if linked:
                b = m(("store", ("elem", ("cont", V("c")), n), V("v")), e) or m(("store", ("sub", ("cont", V("c")), ("idx", n)), V("v")), e)
            else:
                b = m(("mcall", ("sub", ("cont", V("c")), lbl), "append", (V("v"),)), e)
            if not b:
                return bad_call("per-index body: " + short(e))
            if b["c"] == "_residuals":
                res = b["v"]
            elif b["c"] == "_clps":
                clp = b["v"]
            else:
                return bad_call("per-index store into " + b["c"])
        if res is None or clp is None:
            return bad_call("residual or clps not stored per index")
        b = m(("item", ("op", "calculate_residual", (("attr", V("cont"), "matrix"), V("y")), ()), ("const", 1)), res) \
            or m(("item", ("op", "calculate_residual", (("attr", V("cont"), "matrix"), V("y")), ()), 1), res)
        if not b:
            return bad_call("residual stored: " + short(res))
        cont, y = b["cont"], b["y"]
        call = res[1]
        bc = m(("op", "retrieve_clps", (V("full"), ("attr", cont, "clp_labels"), ("item", call, ANY), V("x")), ()), clp)
        if not bc:
            return bad_call("retrieve_clps arguments: " + short(clp))
        if linked:
            bp = m(("sub", ("cont", "_aligned_matrices"), V("i")), cont) or (m(("elem", ("cont", "_aligned_matrices"), n), cont) and {"i": ("idx", n)})
            by = m(("sub", ("cont", "_aligned_data"), V("i")), y) or (m(("elem", ("cont", "_aligned_data"), n), y) and {"i": ("idx", n)})
            full_ok = bc["full"] in (("sub", ("cont", "_aligned_full_clp_labels"), ("idx", n)), ("elem", ("cont", "_aligned_full_clp_labels"), n))
            full_red = bc["full"] == ("attr", cont, "clp_labels")
        else:
            bp = m(("sub", ("sub", ("cont", "_prepared_matrix_container"), lbl), V("i")), cont)
            by = m(("sub", ("sub", ("cont", "_data"), lbl), ("tuple", SL, V("i"))), y)
            full_ok = bc["full"] == ("attr", ("sub", ("cont", "_matrix_containers"), lbl), "clp_labels")
            full_red = bc["full"] == ("attr", cont, "clp_labels")
        c_sel = colsel(bp["i"], n) if bp else f"(.unknown {q(short(cont))})"
        y_sel = colsel(by["i"], n) if by else f"(.unknown {q(short(y))})"
        x = bc["x"]
        if x == ("elem", AX, n):
            x_sel = ".own"
        else:
            bx = m(("sub", AX, V("i")), x)
            x_sel = colsel(bx["i"], n) if bx else f"(.unknown {q(short(x))})"
        full = ".datasetMatrix" if full_ok else (".container" if full_red else f"(.unknown {q(short(bc['full']))})")
        return f"⟨{c_sel}, {y_sel}, {full}, {x_sel}⟩"

    # ---- get_full_penalty ---------------------------------------------------------------------
    def penalty(self, linked):
        s = self.sym("linked" if linked else "unlinked")
        eff, ret = s.run_method("EstimationProviderLinked" if linked else "EstimationProviderUnlinked", "get_full_penalty")
        if eff:
            return [f".untranslatable {q('get_full_penalty has effects')}"]
        PEN = ("cont", "_clp_penalty")

        def residual_part(t):
            if linked:
                if t == np_call("concatenate", ("cont", "_residuals")):
                    return ".residuals true"
                return None
            b = m(np_call("concatenate", ("listcomp", ("ifexp", V("g"), V("a"), V("b")), ((V("n"), ("keys", V("dm")), ()),))), t)
            if b and is_global_test(b["g"]):
                R = ("sub", ("cont", "_residuals"), ("key", b["dm"], b["n"]))
                if b["a"] == R and b["b"] == np_call("concatenate", R):
                    return ".residuals true"
            return None

        def parts(t):
            r = residual_part(t)
            if r:
                return [r]
            if t == PEN:
                return [".penalties"]
            b = m(np_call("concatenate", V("l")), t)
            if b and b["l"][0] in ("list", "tuple"):
                out = []
                for x in b["l"][1:]:
                    out += parts(x)
                return out
            return [f".untranslatable {q('part of the penalty vector: ' + short(t))}"]

        # `if len(self._clp_penalty) != 0: full = concatenate([full, penalties])` is the unconditional concatenation
        b = m(("phi", V("c"), V("a"), V("b")), ret)
        if b and b["c"] in (("cmp", "NotEq", ("call", ("name", "len"), (PEN,), ()), ("const", 0)),
                            ("cmp", "Gt", ("call", ("name", "len"), (PEN,), ()), ("const", 0)), PEN):
            pa, pb = parts(b["a"]), parts(b["b"])
            if pa[:len(pb)] == pb and all(x == ".penalties" for x in pa[len(pb):]):
                return pa
            return [f".untranslatable {q('conditional penalty vector')}"]
        return parts(ret)

    # ---- calculate_full_matrices --------------------------------------------------------------
    def full(self):
        s = self.sym("unlinked")
        eff, _ = s.run_method("MatrixProviderUnlinked", "calculate_full_matrices")
        if len(eff) != 1 or eff[0][0] != "for":
            return [f".untranslatable {q('calculate_full_matrices: ' + short(eff))}"]
        _, n, it, body = eff[0]
        b = m(("call", ("attr", V("dm"), "items"), (), ()), it)
        ab = split_full(list(body))
        if not b or ab is None or ab[1] or len(ab[0]) != 1:
            return [f".untranslatable {q('calculate_full_matrices: structure')}"]
        label = ("key", b["dm"], n)
        e = ab[0][0]
        if e[0] != "store" or e[1] != ("sub", ("cont", "_full_matrices"), label):
            return [f".untranslatable {q('calculate_full_matrices stores ' + short(e))}"]
        G = ("attr", ("sub", ("cont", "_global_matrix_containers"), label), "matrix")
        MCc = ("sub", ("cont", "_matrix_containers"), label)
        M = ("attr", MCc, "matrix")
        FW = ("sub", ("cont", "_flattened_weight"), label)

        def kron(t):
            b = m(("phi", ("attr", MCc, "is_index_dependent"), V("a"), V("b")), t) or m(("ifexp", ("attr", MCc, "is_index_dependent"), V("a"), V("b")), t)
            if not b:
                return None
            for left, right, flag in ((G, M, "true"), (M, G, "false")):
                if b["b"] != np_call("kron", left, right):
                    continue
                pl = ("sub", left, ("tuple", ("idx", V("k")), SL) if left == G else ("tuple", ("idx", V("k")), SL, SL))
                pr = ("sub", right, ("tuple", ("idx", V("k")), SL, SL) if right == M else ("tuple", ("idx", V("k")), SL))
                bb = m(np_call("concatenate", ("listcomp", np_call("kron", pl, pr),
                                               ((V("k"), ("call", ("name", "range"), (("sub", ("attr", M, "shape"), ("const", 0)),), ()), ()),))), b["a"])
                if bb:
                    return [f".kron {flag}"]
            return None

        v = e[2]
        k = kron(v)
        if k:
            return k
        b = m(("phi", ("notnone", FW), V("w"), V("k")), v)
        if b:
            k = kron(b["k"])
            rs = rowscale(b["w"])
            if k and rs and rs[0] == b["k"] and rs[1] == FW and rs[2] == "rows":
                return k + [".weightRowsFlat"]
            if k:
                return k + [f".untranslatable {q('weight of the full matrix: ' + short(b['w']))}"]
        return [f".untranslatable {q('full matrix: ' + short(v))}"]

    # ---- linked --------------------------------------------------------------------------------
    def aligned(self):
        s = self.sym("linked")
        eff, _ = s.run_method("MatrixProviderLinked", "calculate_aligned_matrices")
        loops = [e for e in eff if e[0] == "for"]
        if len(loops) != 1:
            return [f".untranslatable {q('calculate_aligned_matrices: loops')}"]
        _, n, it, body = loops[0]
        AXc = ("cont", "_aligned_global_axis")
        if it != ("call", ("name", "enumerate"), (AXc,), ()):
            return [f".untranslatable {q('calculate_aligned_matrices iterates ' + short(it))}"]
        st = [e for e in body if e[0] == "store" and e[1] in (("sub", ("cont", "_aligned_matrices"), ("idx", n)), ("elem", ("cont", "_aligned_matrices"), n))]
        others = [e for e in body if e not in st and not (e[0] == "store" and contains(e[1], ("cont", "_aligned_full_clp_labels")))]
        if len(st) != 1 or others:
            return [f".untranslatable {q('calculate_aligned_matrices body: ' + short((others or st)[:1]))}"]
        v = st[0][2]
        AW = ("sub", ("cont", "_aligned_weights"), ("idx", n))
        AW2 = ("elem", ("cont", "_aligned_weights"), n)
        steps_tail = []
        b = m(("phi", ("notnone", V("w")), V("weighted"), V("plain")), v)
        if b and b["w"] in (AW, AW2):
            bb = m(("container", ("attr", b["plain"], "clp_labels"), V("mat")), b["weighted"])
            rs = rowscale(bb["mat"]) if bb else None
            if rs and rs[0] == ("attr", b["plain"], "matrix") and rs[1] == b["w"] and rs[2] == "rows":
                steps_tail = [".weightRows"]
            else:
                steps_tail = [f".untranslatable {q('aligned weight: ' + short(b['weighted']))}"]
            v = b["plain"]
        x_here = ("elem", AXc, n)
        AX1 = np_call("array", ("list", x_here))

        def red(t):
            bb = m(("sub", V("x"), ("const", 0)), t)
            if bb:
                return red(bb["x"])
            bb = m(("op", "apply_constraints", (V("x"), AX1), ()), t)
            if bb:
                return red(bb["x"]) + [".constraints"]
            bb = m(("op", "apply_relations", (V("x"), AX1), ()), t)
            if bb:
                return red(bb["x"]) + [".relations"]
            bb = m(("ifexp", ("attr", V("C"), "is_index_dependent"), ANY, ("bin", "Mult", ("list", V("C")), ("attr", AX1, "size"))), t)
            if bb:
                return stack(bb["C"])
            raise Untranslatable("aligned matrix: " + short(t))

        def stack(t):
            bb = m(("op", "align_matrices", (V("cs"), V("scales")), ()), t)
            if not bb:
                raise Untranslatable("stacking: " + short(t))
            GD = ("sub", ("cont", "_group_definitions"), ("sub", ("cont", "_aligned_group_labels"), ("idx", n)))
            ADI = ("sub", ("cont", "_aligned_dataset_indices"), ("idx", n))
            bc = m(("listcomp", ("ifexp", ("attr", V("MC"), "is_index_dependent"),
                                 ("container", ("attr", V("MC"), "clp_labels"), ("sub", ("attr", V("MC"), "matrix"), V("i"))), V("MC")),
                    ((V("k"), ("call", ("name", "zip"), (GD, ADI), ()), ()),)), bb["cs"])
            if not bc or bc["MC"] != ("sub", ("cont", "_matrix_containers"), ("elem", GD, bc["k"])):
                raise Untranslatable("members of an aligned point: " + short(bb["cs"]))
            out = [".sliceLocal"] if bc["i"] == ("elem", ADI, bc["k"]) else [f".untranslatable {q('member index ' + short(bc['i']))}"]
            bs = m(("listcomp", ("ifexp", ("notnone", V("sc")), V("sc"), ("const", 1)), ((V("k2"), GD, ()),)), bb["scales"])
            if bs and m(("attr", ("sub", ("attr", ("self", "DatasetGroup"), "dataset_models"), ("elem", GD, bs["k2"])), "scale"), bs["sc"]):
                out.append(".align true")
            elif m(("listcomp", ("const", 1), ANY), bb["scales"]):
                out.append(".align false")
            else:
                out.append(f".untranslatable {q('scales of align_matrices: ' + short(bb['scales']))}")
            return out

        try:
            return red(v) + steps_tail
        except Untranslatable as ex:
            return [f".untranslatable {q(ex)}"] + steps_tail

    def aligned_data(self):
        s = self.sym("linked")
        eff, ret = s.run_method("DataProviderLinked", "align_data")
        b = m(("tuple", V("axis"), ("listcomp", V("x"), ((V("k"), ("call", ("name", "range"), (("attr", V("axis"), "size"),), ()), ()),))), ret)
        bad = lambda why: f"⟨false, false, .unknown {q(why)}⟩"  # noqa: E731
        if eff or not b:
            return bad("align_data returns " + short(ret))
        bx = m(("attr", ("call", ("attr", ("call", ("attr", V("A"), "isel"), (("dict", (("const", "global"), ("idx", b["k"]))),), ()), "dropna"),
                         (), (("dim", ("const", "model")),)), "data"), b["x"])
        if not bx or b["axis"] != ("attr", ("sub", ("attr", bx["A"], "coords"), ("const", "global")), "data"):
            return bad("aligned data per index: " + short(b["x"]))
        bc = m(("call", ("attr", ("name", "xr"), "concat"), (("listcomp", V("da"), ((V("k2"), ("keys", ("arg", "aligned_global_axes")), ()),)),),
                (("dim", ("const", "model")),)), bx["A"])
        if not bc:
            return bad("stacking of the data: " + short(bx["A"]))
        k2 = bc["k2"]
        lab, ax = ("key", ("arg", "aligned_global_axes"), k2), ("val", ("arg", "aligned_global_axes"), k2)
        bd = m(("call", ("attr", ("name", "xr"), "DataArray"), (V("src"),), V("kw")), bc["da"])
        if not bd or dict(bd["kw"]) != {"dims": ("list", ("const", "model"), ("const", "global")), "coords": ("dict", (("const", "global"), ax))}:
            return bad("data arrays that are stacked: " + short(bc["da"]))
        if bd["src"] == ("sub", ("cont", "_data"), lab):
            return "⟨true, true, .alignedValue⟩"
        return bad("stacked source " + short(bd["src"]))

    def aligned_weight(self):
        s = self.sym("linked")
        eff, ret = s.run_method("DataProviderLinked", "align_weights")
        bad = lambda why: f"⟨false, .unknown {q(why)}, false, false, false⟩"  # noqa: E731
        if eff:
            return bad("align_weights has effects")
        AXc, GLc = ("cont", "_aligned_global_axis"), ("cont", "_aligned_group_labels")
        b = m(("phi", V("allw"), ("loop", V("n"), GLc, V("init"), V("upd")), V("init")), ret)
        if not b or b["init"] != ("bin", "Mult", ("list", NONE), ("attr", AXc, "size")):
            return bad("align_weights returns " + short(ret))
        n, allw = b["n"], b["allw"]
        ba = m(("dictcomp", ("key", ("cont", "_weight"), V("k")), V("da"), ((V("k"), ("call", ("attr", ("cont", "_weight"), "items"), (), ()),
                                                                           (("notnone", ("val", ("cont", "_weight"), V("k"))),)),)), allw)
        if not ba:
            return bad("weights taken: " + short(allw))
        lab0 = ("key", ("cont", "_weight"), ba["k"])
        bd = m(("call", ("attr", ("name", "xr"), "DataArray"), (("val", ("cont", "_weight"), ba["k"]),), V("kw")), ba["da"])
        if not bd or dict(bd["kw"]) != {"dims": ("list", ("const", "model"), ("const", "global")),
                                        "coords": ("dict", (("const", "global"), ("sub", ("arg", "aligned_global_axes"), lab0)))}:
            return bad("weight arrays: " + short(ba["da"]))
        GD = ("sub", ("cont", "_group_definitions"), ("elem", GLc, n))
        carry = ("carry", n, 0)
        bu = m(("phi", V("anyc"), ("setitem", V("c"), ("idx", n), np_call("concatenate", V("lst"))), V("c")), b["upd"])
        if not bu or bu["c"][0] != "carry":
            return bad("aligned weight per point: " + short(b["upd"]))
        if not m(("call", ("name", "any"), (("listcomp", ("cmp", "In", ("elem", GD, V("k3")), allw), ((V("k3"), GD, ()),)),), ()), bu["anyc"]):
            return bad("test for a weighted member: " + short(bu["anyc"]))
        bl = m(("listcomp", ("ifexp", ("cmp", "In", V("lab"), allw), V("own"), V("ones")), ((V("k4"), GD, ()),)), bu["lst"])
        if not bl or bl["lab"] != ("elem", GD, bl["k4"]):
            return bad("stacking of the weights: " + short(bu["lst"]))
        lab = bl["lab"]
        own_ok = bl["own"] == ("attr", ("call", ("attr", ("sub", allw, lab), "sel"),
                                        (("dict", (("const", "global"), ("sub", AXc, ("idx", n)))),), ()), "data")
        ones_ok = bl["ones"] == np_call("ones", ("attr", ("sub", ("cont", "_model_axes"), lab), "size"))
        pick = ".alignedValue" if own_ok else f".unknown {q(short(bl['own']))}"
        return f"⟨true, {pick}, {'true' if ones_ok else 'false'}, true, true⟩"

    def linked_estimate(self):
        bad_call = lambda why: f"⟨.unknown {q(why)}, .unknown {q(why)}, .unknown {q(why)}, .unknown {q(why)}⟩"  # noqa: E731
        s = self.sym("linked")
        eff, _ = s.run_method("EstimationProviderLinked", "estimate")
        steps, call = [], bad_call("no per-index call found")
        for e in eff:
            if e[0] == "for":
                call = self.index_call(e[1], e[2], e[3], None, bad_call, linked=True)
                steps.append(".perAlignedIndex")
            elif e[0] == "store" and e[1] == ("cont", "_clp_penalty"):
                ok = e[2] == ("op", "calculate_clp_penalties", (("cont", "_aligned_full_clp_labels"), ("cont", "_clps"), ("cont", "_aligned_global_axis")), ())
                steps.append(".setPenalties" if ok else f".untranslatable {q('arguments of calculate_clp_penalties: ' + short(e[2]))}")
            else:
                steps.append(f".untranslatable {q('linked estimate: ' + short(e))}")
        return steps, call

    # ---- Optimizer.calculate_penalty ------------------------------------------------------------
    def objective(self):
        s = self.sym("unlinked")
        eff, ret = s.run_method("Optimizer", "calculate_penalty")
        GR = ("cont", "_optimization_groups")
        P = ("listcomp", ("call", ("attr", ("elem", GR, V("k")), "get_full_penalty"), (), ()), ((V("k"), GR, ()),))
        for pat in (("ifexp", ("cmp", "NotEq", ("call", ("name", "len"), (P,), ()), ("const", 1)), np_call("concatenate", P), ("sub", P, ("const", 0))),
                    np_call("concatenate", P)):
            if m(pat, ret):
                # every group is calculated before the first penalty is read
                calc = [e for e in eff if e[0] == "for" and e[2] == GR]
                if calc:
                    return [".groupsInOrder"]
                return [f".untranslatable {q('groups are not calculated before their penalties are read')}"]
        return [f".untranslatable {q('calculate_penalty returns ' + short(ret))}"]


# --------------------------------------------------------------------------------------------
def extract(repo):
    tr = Translator(repo)
    un = lambda field: (lambda why: [f".untranslatable {q(field + ': ' + why)}"])  # noqa: E731
    t = {}
    t["mc"] = tr.guarded(tr.mc, un("mc"))
    d = tr.guarded(tr.data, lambda why: ([f".untranslatable {q(why)}"], f".unknown {q(why)}", f".unknown {q(why)}"))
    t["data"], t["flatData"], t["flatWeight"] = d
    t["prepared"] = tr.guarded(tr.prepared, un("prepared"))
    bad_call = lambda why: f"⟨.unknown {q(why)}, .unknown {q(why)}, .unknown {q(why)}, .unknown {q(why)}⟩"  # noqa: E731
    ue = tr.guarded(tr.unlinked_estimate, lambda why: ([f".untranslatable {q(why)}"], bad_call(why), f".unknown {q(why)}"))
    t["unlinkedEstimate"], t["unlinkedCall"], t["fullData"] = ue
    t["full"] = tr.guarded(tr.full, un("full"))
    t["aligned"] = tr.guarded(tr.aligned, un("aligned"))
    t["alignedData"] = tr.guarded(tr.aligned_data, lambda why: f"⟨false, false, .unknown {q(why)}⟩")
    t["alignedWeight"] = tr.guarded(tr.aligned_weight, lambda why: f"⟨false, .unknown {q(why)}, false, false, false⟩")
    le = tr.guarded(tr.linked_estimate, lambda why: ([f".untranslatable {q(why)}"], bad_call(why)))
    t["linkedEstimate"], t["linkedCall"] = le
    t["unlinkedPenalty"] = tr.guarded(lambda: tr.penalty(False), un("unlinkedPenalty"))
    t["linkedPenalty"] = tr.guarded(lambda: tr.penalty(True), un("linkedPenalty"))
    t["objective"] = tr.guarded(tr.objective, un("objective"))
    return {"table": t, "sha": tr.src.sha}


ORDER = ["mc", "data", "flatData", "flatWeight", "prepared", "unlinkedCall", "full", "fullData", "aligned", "alignedData",
         "alignedWeight", "linkedCall", "unlinkedEstimate", "unlinkedPenalty", "linkedEstimate", "linkedPenalty", "objective"]
WHERE = {
    "mc": "MatrixProvider.calculate_dataset_matrix", "data": "DataProvider.__init__", "flatData": "DataProvider.__init__",
    "flatWeight": "DataProvider.__init__", "prepared": "MatrixProviderUnlinked.calculate_prepared_matrices + reduce_matrix",
    "unlinkedCall": "EstimationProviderUnlinked.calculate_estimation", "full": "MatrixProviderUnlinked.calculate_full_matrices",
    "fullData": "EstimationProviderUnlinked.calculate_full_model_estimation",
    "aligned": "MatrixProviderLinked.calculate_aligned_matrices + reduce_matrix", "alignedData": "DataProviderLinked.align_data",
    "alignedWeight": "DataProviderLinked.align_weights", "linkedCall": "EstimationProviderLinked.estimate",
    "unlinkedEstimate": "EstimationProviderUnlinked.estimate + calculate_estimation",
    "unlinkedPenalty": "EstimationProviderUnlinked.get_full_penalty", "linkedEstimate": "EstimationProviderLinked.estimate",
    "linkedPenalty": "EstimationProviderLinked.get_full_penalty", "objective": "Optimizer.calculate_penalty"}


def render_lean(res) -> str:
    t = res["table"]
    out = ["/-",
           "GENERATED by harness/props/c02.py (generate, translator harness/props/_c02_steps.py) from the source of VERIF_REPO — do not edit.",
           "Steps table of C02: order and operands of the steps that build the penalty vector, as the provider methods have them.",
           "-/",
           "import GlotaranModel.C02Steps",
           "namespace Glotaran.C02.Generated",
           "open Glotaran.C02.Steps",
           "",
           "def table : Steps.Table where"]
    for k in ORDER:
        v = t[k]
        out.append(f"  -- {WHERE[k]}")
        if isinstance(v, list):
            out.append(f"  {k} := [" + ", ".join(v) + "]")
        else:
            out.append(f"  {k} := {v}")
    out += ["", "end Glotaran.C02.Generated", ""]
    return "\n".join(out)


def untranslatable(res):
    bad = []
    for k in ORDER:
        v = res["table"][k]
        text = " ".join(v) if isinstance(v, list) else v
        if ".untranslatable" in text or ".unknown" in text:
            bad.append(f"{k}: {text[:200]}")
    return bad


def sha1(text):
    return hashlib.sha1(text.encode()).hexdigest()
