"""C16 — translator: regenerates lean/GlotaranModel/Generated/C16.lean (the `Consts` tables) from VERIF_REPO's source.

Tables (DESIGN §5.2):
  optionNamesSerialized   glotaran/parameter/parameter.py:OPTION_NAMES_SERIALIZED (import + items, source order)
  paramFields             keys of Parameter(...).as_dict(), in order (= columns of to_dataframe)
  paramDefaults           as_dict() of Parameter("x") rendered as cells
  reservedLabels          RESERVED_LABELS
  csvNaValues / excelNaValues   the literal `na_values=` keyword of the pd.read_csv / pd.read_excel call that reads the
                          table (python `ast`, csv.py / xlsx.py; the call that carries the keyword)
  pandasNaTokens          pandas._libs.parsers.STR_NA_VALUES of the installed pandas (a library constant, not glotaran's)
  textColumns             attribute names for which csv.py:is_text_column answers True (probed over paramFields and the
                          serialized names)
  replaceInfDefault       default of save_parameters(..., replace_infinfinity=) in csv.py
  labelPattern / sciPattern / exprPattern   the regular expressions (text only; the hand-written scanners are tied to
                          them by enumeration in the correspondence)
"""
from __future__ import annotations

import ast
import hashlib
import math
from pathlib import Path

from harness import core

GEN_FILE = core.LEAN / "GlotaranModel" / "Generated" / "C16.lean"

SOURCES = [
    "glotaran/parameter/parameter.py",
    "glotaran/builtin/io/pandas/csv.py",
    "glotaran/builtin/io/pandas/xlsx.py",
    "glotaran/utils/regex.py",
]


def lstr(s: str) -> str:
    out = ['"']
    for ch in s:
        if ch == '"':
            out.append('\\"')
        elif ch == "\\":
            out.append("\\\\")
        elif ch == "\n":
            out.append("\\n")
        elif ch == "\t":
            out.append("\\t")
        elif 32 <= ord(ch) < 127:
            out.append(ch)
        else:
            out.append("\\u{%x}" % ord(ch))
    out.append('"')
    return "".join(out)


def lstrs(xs, per_line=8) -> str:
    xs = [lstr(x) for x in xs]
    if len(xs) <= per_line:
        return "[" + ", ".join(xs) + "]"
    lines = [", ".join(xs[i:i + per_line]) for i in range(0, len(xs), per_line)]
    return "[\n  " + ",\n  ".join(lines) + "\n]"


def _na_values_of(path: Path, func: str) -> list[str]:
    """literal list given as `na_values=` to pd.<func>(...) in `path` (the call carrying the keyword)"""
    tree = ast.parse(path.read_text())
    found = []
    for node in ast.walk(tree):
        if isinstance(node, ast.Call) and isinstance(node.func, ast.Attribute) and node.func.attr == func:
            for kw in node.keywords:
                if kw.arg == "na_values":
                    if isinstance(kw.value, ast.Name):
                        # a module-level constant: read it from the imported module
                        import importlib
                        mod = importlib.import_module(".".join(path.relative_to(core.REPO).with_suffix("").parts))
                        found.append(list(getattr(mod, kw.value.id)))
                    else:
                        found.append(ast.literal_eval(kw.value))
    if len(found) != 1:
        raise core.HarnessError(f"extractor: expected exactly one {func}(…, na_values=…) in {path}, found {len(found)}")
    vals = found[0]
    if not isinstance(vals, list) or not all(isinstance(v, str) for v in vals):
        raise core.HarnessError(f"extractor: na_values of {func} in {path} is not a list of strings: {vals!r}")
    return vals


def _replace_default(path: Path) -> bool:
    tree = ast.parse(path.read_text())
    for node in ast.walk(tree):
        if isinstance(node, ast.FunctionDef) and node.name == "save_parameters":
            for a, d in zip(node.args.kwonlyargs, node.args.kw_defaults):
                if a.arg == "replace_infinfinity":
                    return bool(ast.literal_eval(d))
    raise core.HarnessError(f"extractor: save_parameters(replace_infinfinity=…) not found in {path}")


def cell(v) -> str:
    if v is None:
        return ".none"
    if isinstance(v, bool):
        return f".bool {'true' if v else 'false'}"
    if isinstance(v, str):
        return f".str {lstr(v)}"
    if isinstance(v, int):
        return f".int {v}" if v >= 0 else f".int ({v})"
    if isinstance(v, float):
        if math.isnan(v):
            return ".flt .nan"
        if v == math.inf:
            return ".flt .pinf"
        if v == -math.inf:
            return ".flt .ninf"
        return f".flt (.fin ({core.rat(v)} : Rat))"
    raise core.HarnessError(f"extractor: cannot render default {v!r}")


def extract() -> dict:
    core.import_glotaran()
    from glotaran.parameter import parameter as pm
    from glotaran.utils.regex import RegexPattern as rp
    from pandas._libs.parsers import STR_NA_VALUES

    t = {}
    t["serialized"] = [(str(k), str(v)) for k, v in pm.OPTION_NAMES_SERIALIZED.items()]
    t["deserialized"] = [(str(k), str(v)) for k, v in pm.OPTION_NAMES_DESERIALIZED.items()]
    probe = pm.Parameter("x")
    d = probe.as_dict()
    t["fields"] = list(d.keys())
    t["defaults"] = [(k, v) for k, v in d.items() if k != "label"]
    t["reserved"] = [str(x) for x in pm.RESERVED_LABELS]
    t["csv_na"] = _na_values_of(core.REPO / "glotaran/builtin/io/pandas/csv.py", "read_csv")
    t["excel_na"] = _na_values_of(core.REPO / "glotaran/builtin/io/pandas/xlsx.py", "read_excel")
    t["pandas_na"] = sorted(STR_NA_VALUES)
    try:
        from glotaran.builtin.io.pandas.csv import is_text_column
        names = list(t["fields"]) + [v for _, v in t["serialized"]]
        t["text_columns"] = sorted({pm.OPTION_NAMES_DESERIALIZED.get(n, n) for n in names if is_text_column(n)})
    except ImportError:
        t["text_columns"] = []
    t["replace_default"] = _replace_default(core.REPO / "glotaran/builtin/io/pandas/csv.py")
    t["label_pattern"] = pm.VALID_LABEL_REGEX.pattern
    t["expr_pattern"] = pm.PARAMETER_EXPRESSION_REGEX.pattern
    t["sci_pattern"] = rp.number_scientific.pattern
    return t


def render(t: dict) -> str:
    pairs = lambda xs: "[" + ", ".join(f"({lstr(a)}, {lstr(b)})" for a, b in xs) + "]"
    out = []
    out.append("/- GENERATED by harness/props/_c16_tables.py from " + ", ".join(SOURCES) + "\n"
               "   and the installed pandas (STR_NA_VALUES). Do not edit. -/")
    out.append("import GlotaranModel.C16Types\nnamespace Glotaran.C16\n")
    out.append("namespace Generated\n")
    out.append("/-- `OPTION_NAMES_SERIALIZED` (attribute name, serialized name), source order -/")
    out.append(f"def optionNamesSerialized : List (String × String) := {pairs(t['serialized'])}\n")
    out.append("/-- `OPTION_NAMES_DESERIALIZED` (serialized name, attribute name), as built by the source -/")
    out.append(f"def optionNamesDeserialized : List (String × String) := {pairs(t['deserialized'])}\n")
    out.append("/-- keys of `Parameter.as_dict()` = columns of `Parameters.to_dataframe()`, in order -/")
    out.append(f"def paramFields : List String := {lstrs(t['fields'])}\n")
    out.append("/-- `Parameter(\"x\").as_dict()` without the label: the attribute defaults -/")
    out.append("def paramDefaults : List (String × Cell) := [" + ", ".join(f"({lstr(k)}, {cell(v)})" for k, v in t["defaults"]) + "]\n")
    out.append("/-- `RESERVED_LABELS` -/")
    out.append(f"def reservedLabels : List String := {lstrs(t['reserved'])}\n")
    out.append("/-- `na_values=` of the `pd.read_csv` call in csv.py -/")
    out.append(f"def csvNaValues : List String := {lstrs(t['csv_na'])}\n")
    out.append("/-- `na_values=` of the `pd.read_excel` call in xlsx.py -/")
    out.append(f"def excelNaValues : List String := {lstrs(t['excel_na'])}\n")
    out.append("/-- pandas' default NA strings (`STR_NA_VALUES`, `keep_default_na=True`) -/")
    out.append(f"def pandasNaTokens : List String := {lstrs(t['pandas_na'])}\n")
    out.append("/-- attribute names of the columns the readers force to text (`is_text_column`) -/")
    out.append(f"def textColumns : List String := {lstrs(t['text_columns'])}\n")
    out.append("/-- default of `save_parameters(…, replace_infinfinity=)` (csv/tsv) -/")
    out.append(f"def replaceInfDefault : Bool := {'true' if t['replace_default'] else 'false'}\n")
    out.append("/-- the regular expressions, as text (the scanners of the model are hand-written) -/")
    out.append(f"def labelPattern : String := {lstr(t['label_pattern'])}")
    out.append(f"def sciPattern : String := {lstr(t['sci_pattern'])}")
    out.append(f"def exprPattern : String := {lstr(t['expr_pattern'])}\n")
    out.append("end Generated\nend Glotaran.C16\n")
    return "\n".join(out)


def generate(ck):
    t = extract()
    text = render(t)
    GEN_FILE.parent.mkdir(parents=True, exist_ok=True)
    if not GEN_FILE.exists() or GEN_FILE.read_text() != text:
        GEN_FILE.write_text(text)
    h = hashlib.sha1()
    for f in SOURCES:
        h.update((core.REPO / f).read_bytes())
    import pandas

    return [{"table": "Consts (lean/GlotaranModel/Generated/C16.lean): optionNamesSerialized, optionNamesDeserialized, "
                      "paramFields, paramDefaults, reservedLabels, csvNaValues, excelNaValues, pandasNaTokens, textColumns, "
                      "replaceInfDefault, patterns",
             "source": SOURCES + [f"pandas {pandas.__version__} STR_NA_VALUES"],
             "source_sha1": h.hexdigest(), "sha1": hashlib.sha1(text.encode()).hexdigest(),
             "reserved_labels": len(t["reserved"]), "na_tokens": len(set(t["pandas_na"]) | set(t["csv_na"]))}], t
