"""C17 — generator of lean/GlotaranModel/Generated/C17Scheme.lean: the dataclass field tables of the live `Scheme` and
`Result` classes and the shape of the yml plugin's scheme / result functions.

Regenerated from VERIF_REPO's working tree on every run:

  schemeFields / resultFields   one `FieldSpec` per entry of `dataclasses.fields(cls)` of the imported class, in order:
                                name, kind (metadata `file_loader` -> fileOne / fileMap by the `is_wrapper_class` cell of the
                                loader's closure; metadata `exclude_from_dict` -> excluded; both -> untranslatable; else plain),
                                declared type (the annotation string parsed with `ast`: float / int / bool / str /
                                `T | None` / `Literal[...]` of strings / `list[str]`; anything else on a plain field is
                                `untranslatable`), `init`, default (None / bool / int / float as the text ruamel writes / str)
  schemeSaveShape / schemeLoadShape / resultLoadShape
                                `YmlProjectIo.save_scheme` is `write_dict(asdict(scheme, folder=Path(file_name).parent), …)`,
                                `load_scheme` is `fromdict(Scheme, self._load_yml(file_name), folder=Path(file_name).parent)`,
                                `load_result` ends in `fromdict(Result, spec, folder=result_file_path.parent)` (read with `ast`)
  loadResultRenames             the `if "<old>" in spec: spec["<new>"] = spec.pop("<old>")` statements of `load_result`
  saveResultOverrides           the keys `save_result` assigns in `result_dict` after `asdict(result, …)`

Whatever cannot be expressed becomes an `untranslatable "<why>"` term at that place: the file still compiles and the theorems
about the tables (`scheme_table_wellformed`, `result_table_wellformed`, `scheme_spec_roundtrip`, `result_spec_roundtrip`) no
longer build.
"""
from __future__ import annotations

import ast
import dataclasses
import hashlib
import inspect
import math

from harness import core
from harness.props._c17_regex import lstr

GEN_FILE = core.LEAN / "GlotaranModel" / "Generated" / "C17Scheme.lean"
SOURCES = ["glotaran/project/scheme.py", "glotaran/project/result.py", "glotaran/project/dataclass_helpers.py",
           "glotaran/builtin/io/yml/yml.py"]


def float_yaml_text(x: float) -> str:
    """what ruamel's represent_float writes for a python float (YAML 1.2: no '.0' is inserted into '1e-08')"""
    if x != x:
        return ".nan"
    if math.isinf(x):
        return ".inf" if x > 0 else "-.inf"
    return repr(float(x)).lower()


# ------------------------------------------------------------------------------------------
# annotations
# ------------------------------------------------------------------------------------------
def _is_none(n):
    return isinstance(n, ast.Constant) and n.value is None


def lean_ty(ann) -> str:
    """annotation (string or type) -> Lean term of type FTy"""
    if not isinstance(ann, str):
        ann = getattr(ann, "__name__", repr(ann))
    try:
        node = ast.parse(ann, mode="eval").body
    except SyntaxError:
        return f".untranslatable {lstr('annotation does not parse: ' + ann[:40])}"
    return _ty(node, ann)


def _ty(n, text) -> str:
    if isinstance(n, ast.Name) and n.id in ("float", "int", "bool", "str"):
        return "." + n.id
    if isinstance(n, ast.BinOp) and isinstance(n.op, ast.BitOr):
        if _is_none(n.right):
            inner = _ty(n.left, text)
        elif _is_none(n.left):
            inner = _ty(n.right, text)
        else:
            return f".untranslatable {lstr('union ' + text[:40])}"
        return inner if inner.startswith(".untranslatable") else f".opt ({inner})" if " " in inner else f".opt {inner}"
    if isinstance(n, ast.Subscript) and isinstance(n.value, ast.Name):
        if n.value.id == "Literal":
            elts = n.slice.elts if isinstance(n.slice, ast.Tuple) else [n.slice]
            if all(isinstance(e, ast.Constant) and isinstance(e.value, str) for e in elts):
                return ".enum [" + ", ".join(lstr(e.value) for e in elts) + "]"
        if n.value.id == "list" and isinstance(n.slice, ast.Name) and n.slice.id == "str":
            return ".listStr"
        if n.value.id == "Optional":
            inner = _ty(n.slice, text)
            return inner if inner.startswith(".untranslatable") else f".opt ({inner})"
    return f".untranslatable {lstr('type ' + text[:50])}"


def lean_default(f) -> str:
    if f.default is dataclasses.MISSING:
        return ".required" if f.default_factory is dataclasses.MISSING else ".other"
    d = f.default
    if d is None:
        return ".none"
    if isinstance(d, bool):
        return f".bool {'true' if d else 'false'}"
    if isinstance(d, int):
        return f".int ({d})"
    if isinstance(d, float):
        return f".float {lstr(float_yaml_text(d))}"
    if isinstance(d, str):
        return f".str {lstr(d)}"
    return ".other"


def field_specs(cls):
    """-> [dict(name, kind, ty, init, default)] with Lean terms as strings"""
    out = []
    if not dataclasses.is_dataclass(cls):
        return [dict(name="?", kind=f".untranslatable {lstr(getattr(cls, '__name__', '?') + ' is not a dataclass')}", ty=".component",
                     init="false", default=".other")]
    for f in dataclasses.fields(cls):
        md = f.metadata
        excluded = "exclude_from_dict" in md
        loader = md.get("file_loader")
        if loader is not None and excluded:
            kind = f".untranslatable {lstr('file_loader and exclude_from_dict')}"
        elif loader is not None:
            try:
                wrapper = inspect.getclosurevars(loader).nonlocals.get("is_wrapper_class")
            except TypeError:
                wrapper = None
            kind = ".fileMap" if wrapper is True else ".fileOne" if wrapper is False else \
                f".untranslatable {lstr('file_loader without an is_wrapper_class cell')}"
        elif excluded:
            kind = ".excluded"
        else:
            kind = ".plain"
        ty = lean_ty(f.type)
        if kind != ".plain" and ty.startswith(".untranslatable"):
            ty = ".component"
        out.append(dict(name=f.name, kind=kind, ty=ty, init="true" if f.init else "false", default=lean_default(f)))
    return out


# ------------------------------------------------------------------------------------------
# the yml plugin functions
# ------------------------------------------------------------------------------------------
def _fn(tree, cls, name):
    for c in ast.walk(tree):
        if isinstance(c, ast.ClassDef) and c.name == cls:
            for f in c.body:
                if isinstance(f, ast.FunctionDef) and f.name == name:
                    return f
    return None


def _is_parent_of(n, arg):
    """`Path(<arg>).parent` or `<arg>.parent`"""
    if not (isinstance(n, ast.Attribute) and n.attr == "parent"):
        return False
    v = n.value
    if isinstance(v, ast.Name):
        return v.id == arg
    return (isinstance(v, ast.Call) and isinstance(v.func, ast.Name) and v.func.id == "Path" and len(v.args) == 1
            and isinstance(v.args[0], ast.Name) and v.args[0].id == arg and not v.keywords)


def _body(fn):
    return [s for s in fn.body if not (isinstance(s, ast.Expr) and isinstance(s.value, ast.Constant) and isinstance(s.value.value, str))]


def save_scheme_shape(tree) -> str:
    fn = _fn(tree, "YmlProjectIo", "save_scheme")
    if fn is None:
        return '.untranslatable "no YmlProjectIo.save_scheme"'
    b = _body(fn)
    if len(b) == 1 and isinstance(b[0], ast.Expr) and isinstance(b[0].value, ast.Call) and len(b[0].value.args) == 1 \
            and isinstance(b[0].value.args[0], ast.Call):
        # `write_dict(asdict(…), file_name=file_name)` in one statement: same shape with a temporary
        inner = b[0].value.args[0]
        b = [ast.Assign(targets=[ast.Name(id="_d")], value=inner),
             ast.Expr(value=ast.Call(func=b[0].value.func, args=[ast.Name(id="_d")], keywords=b[0].value.keywords))]
    ok = (len(b) == 2 and isinstance(b[0], ast.Assign) and len(b[0].targets) == 1 and isinstance(b[0].targets[0], ast.Name)
          and isinstance(b[0].value, ast.Call) and isinstance(b[0].value.func, ast.Name) and b[0].value.func.id == "asdict"
          and len(b[0].value.args) == 1 and isinstance(b[0].value.args[0], ast.Name) and b[0].value.args[0].id == "scheme"
          and [k.arg for k in b[0].value.keywords] == ["folder"] and _is_parent_of(b[0].value.keywords[0].value, "file_name")
          and isinstance(b[1], ast.Expr) and isinstance(b[1].value, ast.Call) and isinstance(b[1].value.func, ast.Name)
          and b[1].value.func.id == "write_dict" and len(b[1].value.args) == 1 and isinstance(b[1].value.args[0], ast.Name)
          and b[1].value.args[0].id == b[0].targets[0].id and [k.arg for k in b[1].value.keywords] == ["file_name"]
          and isinstance(b[1].value.keywords[0].value, ast.Name) and b[1].value.keywords[0].value.id == "file_name")
    return ".asdictParentFolder" if ok else '.untranslatable "save_scheme is not write_dict(asdict(scheme, folder=Path(file_name).parent), file_name=file_name)"'


def _fromdict_call(n, cls, spec_ok, folder_arg):
    return (isinstance(n, ast.Call) and isinstance(n.func, ast.Name) and n.func.id == "fromdict" and len(n.args) == 2
            and isinstance(n.args[0], ast.Name) and n.args[0].id == cls and spec_ok(n.args[1])
            and [k.arg for k in n.keywords] == ["folder"] and _is_parent_of(n.keywords[0].value, folder_arg))


def load_scheme_shape(tree) -> str:
    fn = _fn(tree, "YmlProjectIo", "load_scheme")
    if fn is None:
        return '.untranslatable "no YmlProjectIo.load_scheme"'
    b = _body(fn)

    def is_load(n):
        return (isinstance(n, ast.Call) and isinstance(n.func, ast.Attribute) and n.func.attr == "_load_yml" and len(n.args) == 1
                and isinstance(n.args[0], ast.Name) and n.args[0].id == "file_name")
    ok = (len(b) == 2 and isinstance(b[0], ast.Assign) and isinstance(b[0].targets[0], ast.Name) and is_load(b[0].value)
          and isinstance(b[1], ast.Return)
          and _fromdict_call(b[1].value, "Scheme", lambda a: isinstance(a, ast.Name) and a.id == b[0].targets[0].id, "file_name"))
    return '.fromdictParentFolder "Scheme"' if ok else '.untranslatable "load_scheme is not fromdict(Scheme, self._load_yml(file_name), folder=Path(file_name).parent)"'


def load_result_shape(tree):
    """-> (shape term, renames [(old, new)])"""
    fn = _fn(tree, "YmlProjectIo", "load_result")
    if fn is None:
        return '.untranslatable "no YmlProjectIo.load_result"', []
    b = _body(fn)
    renames, bad = [], None
    spec_name, path_name = None, None
    for s in b[:-1]:
        if (isinstance(s, ast.If) and not s.orelse and len(s.body) == 1 and isinstance(s.test, ast.Compare) and len(s.test.ops) == 1
                and isinstance(s.test.ops[0], ast.In) and isinstance(s.test.left, ast.Constant) and isinstance(s.test.left.value, str)
                and isinstance(s.body[0], ast.Assign) and isinstance(s.body[0].targets[0], ast.Subscript)
                and isinstance(s.body[0].targets[0].slice, ast.Constant) and isinstance(s.body[0].value, ast.Call)
                and isinstance(s.body[0].value.func, ast.Attribute) and s.body[0].value.func.attr == "pop"
                and len(s.body[0].value.args) == 1 and isinstance(s.body[0].value.args[0], ast.Constant)
                and s.body[0].value.args[0].value == s.test.left.value):
            renames.append((s.test.left.value, s.body[0].targets[0].slice.value))
        elif isinstance(s, ast.Assign) and isinstance(s.targets[0], ast.Name) and isinstance(s.value, ast.Call):
            f = s.value.func
            if isinstance(f, ast.Name) and f.id == "Path":
                path_name = s.targets[0].id
            elif isinstance(f, ast.Attribute) and f.attr == "_load_yml":
                spec_name = s.targets[0].id
            else:
                bad = "statement " + ast.unparse(s)[:50]
        elif isinstance(s, ast.If) and isinstance(s.test, ast.Compare) and "suffix" in ast.unparse(s.test):
            pass                      # `<folder>` -> `<folder>/result.yml` (modelled in C17.lean: loadResultSrcs)
        else:
            bad = "statement " + ast.unparse(s)[:50]
    last = b[-1] if b else None
    ok = (bad is None and isinstance(last, ast.Return) and spec_name and path_name
          and _fromdict_call(last.value, "Result", lambda a: isinstance(a, ast.Name) and a.id == spec_name, path_name))
    if not ok:
        return f".untranslatable {lstr('load_result: ' + (bad or 'does not end in fromdict(Result, spec, folder=<file>.parent)'))}", renames
    return '.fromdictParentFolder "Result"', renames


def save_result_overrides(tree):
    fn = _fn(tree, "YmlProjectIo", "save_result")
    if fn is None:
        return None
    keys, seen_asdict = [], False
    for s in _body(fn):
        if isinstance(s, ast.Assign) and isinstance(s.value, ast.Call) and isinstance(s.value.func, ast.Name) and s.value.func.id == "asdict":
            seen_asdict = True
        elif (seen_asdict and isinstance(s, ast.Assign) and isinstance(s.targets[0], ast.Subscript)
              and isinstance(s.targets[0].value, ast.Name) and s.targets[0].value.id == "result_dict"
              and isinstance(s.targets[0].slice, ast.Constant)):
            keys.append(s.targets[0].slice.value)
    return keys if seen_asdict else None


# ------------------------------------------------------------------------------------------
def extract():
    core.import_glotaran()
    import importlib
    t = {}
    for key, mod, cls in (("schemeFields", "glotaran.project.scheme", "Scheme"), ("resultFields", "glotaran.project.result", "Result")):
        try:
            c = getattr(importlib.import_module(mod), cls)
            t[key] = field_specs(c)
        except Exception as e:  # noqa: BLE001
            t[key] = [dict(name="?", kind=f".untranslatable {lstr(f'{mod}.{cls}: {type(e).__name__}')}", ty=".component", init="false",
                           default=".other")]
    try:
        tree = ast.parse((core.REPO / SOURCES[3]).read_text())
    except SyntaxError:
        tree = ast.parse("")
    t["schemeSaveShape"] = save_scheme_shape(tree)
    t["schemeLoadShape"] = load_scheme_shape(tree)
    t["resultLoadShape"], t["renames"] = load_result_shape(tree)
    t["overrides"] = save_result_overrides(tree)
    return t


def render(t) -> str:
    o = ["/- GENERATED by harness/props/_c17_scheme.py from dataclasses.fields of the live glotaran.project.Scheme / Result classes and\n"
         "   glotaran/builtin/io/yml/yml.py (ast). Do not edit. -/",
         "import GlotaranModel.C17Spec", "namespace Glotaran.C17.Generated", "open Glotaran.C17", ""]
    for key, doc in (("schemeFields", "dataclasses.fields(Scheme)"), ("resultFields", "dataclasses.fields(Result)")):
        o.append(f"/-- `{doc}` -/")
        o.append(f"def {key} : List FieldSpec := [\n  " + ",\n  ".join(
            f"⟨{lstr(f['name'])}, {f['kind']}, {f['ty']}, {f['init']}, {f['default']}⟩" for f in t[key]) + "]")
        o.append("")
    o.append("/-- `YmlProjectIo.save_scheme` / `load_scheme` / `load_result` -/")
    o.append(f"def schemeSaveShape : IoShape := {t['schemeSaveShape']}")
    o.append(f"def schemeLoadShape : IoShape := {t['schemeLoadShape']}")
    o.append(f"def resultLoadShape : IoShape := {t['resultLoadShape']}")
    o.append("/-- `if old in spec: spec[new] = spec.pop(old)` in `load_result` -/")
    o.append("def loadResultRenames : List (String × String) := [" + ", ".join(f"({lstr(a)}, {lstr(b)})" for a, b in t["renames"]) + "]")
    o.append("/-- keys `save_result` assigns in `result_dict` after `asdict(result, folder=result_folder)` -/")
    ov = t["overrides"]
    o.append("def saveResultOverrides : Option (List String) := " + ("none" if ov is None else "some [" + ", ".join(lstr(k) for k in ov) + "]"))
    o.append("")
    o.append("end Glotaran.C17.Generated\n")
    return "\n".join(o)


def generate(ck):
    t = extract()
    text = render(t)
    GEN_FILE.parent.mkdir(parents=True, exist_ok=True)
    if not GEN_FILE.exists() or GEN_FILE.read_text() != text:
        GEN_FILE.write_text(text)
    h = hashlib.sha1()
    for f in SOURCES:
        h.update((core.REPO / f).read_bytes())
    bad = [f"{k}.{f['name']}: {f[c]}" for k in ("schemeFields", "resultFields") for f in t[k] for c in ("kind", "ty")
           if f[c].startswith(".untranslatable")]
    bad += [f"{k}: {t[k]}" for k in ("schemeSaveShape", "schemeLoadShape", "resultLoadShape") if t[k].startswith(".untranslatable")]
    return [{"table": "Fields (lean/GlotaranModel/Generated/C17Scheme.lean): schemeFields, resultFields (dataclasses.fields of the live "
                      "classes), save_scheme / load_scheme / load_result shapes, load_result renames, save_result overrides",
             "source": SOURCES, "source_sha1": h.hexdigest(), "sha1": hashlib.sha1(text.encode()).hexdigest(),
             "scheme_fields": [f["name"] for f in t["schemeFields"]], "result_fields": [f["name"] for f in t["resultFields"]],
             "untranslatable": bad}], t
