"""C20 — translator of validator functions (`attribute(validator=f)`) into the predicate language of
lean/GlotaranModel/C20.lean (`VPred`).

Input: the live function object.  Its source is parsed (`ast`), calls to functions of the same module that are returned
directly are inlined (`validate_megacomplexes` -> `get_megacomplex_issues`), local single assignments are substituted, and
the resulting body is matched against the forms the language has:

    resolved      labels of the value are looked up in `model.<coll>` (with / without `if label in model.<coll>`,
                  with / without `if value is not None`), then per resolved item a list of rules
                  `<flag>(type) and <count> > <bound> -> <issue class>`
    lengthsequal  `len({len(item.a), len(item.b), ...}) > 1` -> one issue
    definedin     `[ModelItemIssue("<name>", l) for l in value if l not in model.<coll>]` or the scalar form

Anything else is `opaque <qualified name>` (counted by the caller).  A source that cannot be read or parsed at all is
`untranslatable <reason>` — no theorem about the generated table closes with such an entry.
"""
from __future__ import annotations

import ast
import inspect
import textwrap

PARAMS = ("value", "item", "model", "parameters")


class NoMatch(Exception):
    pass


def qualname(f) -> str:
    return f"{getattr(f, '__module__', '?')}.{getattr(f, '__qualname__', repr(f))}"


def _fn_ast(f):
    src = textwrap.dedent(inspect.getsource(f))
    tree = ast.parse(src)
    fn = tree.body[0]
    if not isinstance(fn, ast.FunctionDef):
        raise NoMatch("not a plain function")
    return fn


def _body(fn):
    body = list(fn.body)
    if body and isinstance(body[0], ast.Expr) and isinstance(body[0].value, ast.Constant) and isinstance(body[0].value.value, str):
        body = body[1:]
    return body


def _argnames(fn):
    if fn.args.vararg or fn.args.kwarg or fn.args.kwonlyargs:
        raise NoMatch("signature")
    return [a.arg for a in fn.args.posonlyargs + fn.args.args]


# canonical expressions: nested tuples ------------------------------------------------------------
def canon(e, env):
    """AST expression -> tuple tree; names are resolved through env (name -> tuple tree)"""
    if isinstance(e, ast.Name):
        if e.id in env:
            return env[e.id]
        return ("name", e.id)
    if isinstance(e, ast.Constant):
        return ("const", e.value)
    if isinstance(e, ast.Attribute):
        return ("attr", canon(e.value, env), e.attr)
    if isinstance(e, ast.Subscript):
        return ("index", canon(e.value, env), canon(e.slice, env))
    if isinstance(e, ast.Call):
        if e.keywords:
            return ("call", canon(e.func, env), tuple(canon(a, env) for a in e.args),
                    tuple(sorted((k.arg or "**", canon(k.value, env)) for k in e.keywords)))
        return ("call", canon(e.func, env), tuple(canon(a, env) for a in e.args))
    if isinstance(e, (ast.Set, ast.List, ast.Tuple)):
        return (type(e).__name__.lower(), tuple(canon(x, env) for x in e.elts))
    if isinstance(e, ast.Compare) and len(e.ops) == 1:
        return ("cmp", type(e.ops[0]).__name__, canon(e.left, env), canon(e.comparators[0], env))
    if isinstance(e, ast.BoolOp):
        return (type(e.op).__name__.lower(), tuple(canon(v, env) for v in e.values))
    if isinstance(e, ast.UnaryOp) and isinstance(e.op, ast.Not):
        return ("not", canon(e.operand, env))
    if isinstance(e, ast.IfExp):
        return ("ifexp", canon(e.test, env), canon(e.body, env), canon(e.orelse, env))
    if isinstance(e, ast.ListComp) and len(e.generators) == 1 and not e.generators[0].is_async:
        g = e.generators[0]
        if not isinstance(g.target, ast.Name):
            raise NoMatch("comprehension target")
        var = ("bound", len([k for k in env if k.startswith("$b")]))
        env2 = dict(env)
        env2[g.target.id] = var
        env2[f"$b{var[1]}"] = var
        return ("listcomp", var, canon(g.iter, env), canon(e.elt, env2), tuple(canon(c, env2) for c in g.ifs))
    raise NoMatch(f"expression {type(e).__name__}")


P = {n: ("param", n) for n in PARAMS}


def _is_len(t):
    return t[0] == "call" and t[1] == ("name", "len") and len(t[2]) == 1


def _gt(t):
    """`x > n` / `x >= n` with a literal n  ->  (x, bound) meaning x > bound"""
    if t[0] == "cmp" and t[3][0] == "const" and isinstance(t[3][1], int) and not isinstance(t[3][1], bool):
        if t[1] == "Gt":
            return t[2], t[3][1]
        if t[1] == "GtE" and t[3][1] >= 1:
            return t[2], t[3][1] - 1
    return None


def _label_of(var):
    """`v if isinstance(v, str) else v.label` or plain `v`"""
    return [var, ("ifexp", ("call", ("name", "isinstance"), (var, ("name", "str"))), var, ("attr", var, "label"))]


# statements --------------------------------------------------------------------------------------
class Frame:
    """symbolic execution of a straight-line validator body: `acc` = name of the list that is returned"""

    def __init__(self, env):
        self.env = dict(env)
        self.acc = None
        self.appends = []      # (condition stack, loop stack, issue call)
        self.returned = None


def _walk(stmts, fr, conds, loops):
    for st in stmts:
        if isinstance(st, ast.AnnAssign) and st.value is not None and isinstance(st.target, ast.Name):
            targets, value = [st.target], st.value
        elif isinstance(st, ast.Assign) and len(st.targets) == 1:
            targets, value = st.targets, st.value
        else:
            targets = None
        if targets is not None:
            t = targets[0]
            if isinstance(t, ast.Name):
                if isinstance(value, ast.List) and not value.elts and fr.acc is None and not conds and not loops:
                    fr.acc = t.id
                    continue
                if t.id in fr.env and fr.env[t.id][0] != "name":
                    raise NoMatch("reassignment")
                fr.env[t.id] = canon(value, fr.env)
                continue
            if isinstance(t, ast.Tuple) and isinstance(value, ast.Tuple) and len(t.elts) == len(value.elts) \
                    and all(isinstance(x, ast.Name) for x in t.elts):
                vals = [canon(v, fr.env) for v in value.elts]
                for x, v in zip(t.elts, vals):
                    fr.env[x.id] = v
                continue
            raise NoMatch("assignment form")
        if isinstance(st, ast.If):
            c = canon(st.test, fr.env)
            _walk(st.body, fr, conds + [c], loops)
            if st.orelse:
                _walk(st.orelse, fr, conds + [("not", c)], loops)
            continue
        if isinstance(st, ast.For) and isinstance(st.target, ast.Name) and not st.orelse:
            var = ("loop", len(loops))
            it = canon(st.iter, fr.env)
            saved = fr.env.get(st.target.id)
            fr.env[st.target.id] = var
            _walk(st.body, fr, conds, loops + [(var, it)])
            if saved is None:
                fr.env.pop(st.target.id, None)
            else:
                fr.env[st.target.id] = saved
            continue
        if isinstance(st, ast.Expr) and isinstance(st.value, ast.Call) and isinstance(st.value.func, ast.Attribute) \
                and st.value.func.attr == "append" and isinstance(st.value.func.value, ast.Name) \
                and st.value.func.value.id == fr.acc and len(st.value.args) == 1:
            fr.appends.append((list(conds), list(loops), canon(st.value.args[0], fr.env)))
            continue
        if isinstance(st, ast.Return) and not loops:
            if conds:
                fr.appends.append((list(conds), [], ("return", canon(st.value, fr.env) if st.value else ("const", None))))
                continue
            fr.returned = ("acc",) if isinstance(st.value, ast.Name) and st.value.id == fr.acc else canon(st.value, fr.env)
            return
        if isinstance(st, ast.Pass):
            continue
        raise NoMatch(f"statement {type(st).__name__}")


def _inline_target(fn, f, env):
    """`return g(a, b, c)` with g a function of f's module -> (ast of g, env for g)"""
    body = _body(fn)
    if len(body) == 1 and isinstance(body[0], ast.Return) and isinstance(body[0].value, ast.Call) \
            and isinstance(body[0].value.func, ast.Name) and not body[0].value.keywords:
        g = getattr(inspect.getmodule(f), body[0].value.func.id, None)
        if inspect.isfunction(g):
            gfn = _fn_ast(g)
            names = _argnames(gfn)
            args = body[0].value.args
            if len(names) == len(args):
                return g, gfn, {n: canon(a, env) for n, a in zip(names, args)}
    return None


def translate(f):
    """-> predicate as a tuple: ("resolved", coll, none_guard, skip_undefined, [(flag, count, bound, issue)]),
       ("lengthsequal", [attrs]), ("definedin", coll, report_as), ("opaque", name), ("untranslatable", reason)"""
    name = qualname(f)
    try:
        fn = _fn_ast(f)
        names = _argnames(fn)
    except NoMatch:
        return ("opaque", name)
    except (OSError, TypeError, SyntaxError, IndexError) as e:
        return ("untranslatable", f"{name}: source not available ({type(e).__name__})")
    try:
        if len(names) != 4:
            raise NoMatch("arity")
        env = {n: P[c] for n, c in zip(names, PARAMS)}
        depth = 0
        while depth < 3:
            t = _inline_target(fn, f, env)
            if t is None:
                break
            f, fn, env = t
            depth += 1
        fr = Frame(env)
        _walk(_body(fn), fr, [], [])
        for m in (_match_lengths, _match_resolved, _match_defined):
            try:
                return m(fr)
            except NoMatch:
                continue
    except NoMatch:
        pass
    except (OSError, TypeError, SyntaxError, IndexError) as e:
        return ("untranslatable", f"{name}: source not available ({type(e).__name__})")
    return ("opaque", name)


def _match_lengths(fr):
    if fr.returned != ("acc",) or len(fr.appends) != 1:
        raise NoMatch
    conds, loops, issue = fr.appends[0]
    if loops or len(conds) != 1:
        raise NoMatch
    g = _gt(conds[0])
    if g is None or g[1] != 1 or not _is_len(g[0]):
        raise NoMatch
    s = g[0][2][0]
    if s[0] == "call" and s[1] == ("name", "set") and len(s[2]) == 1 and s[2][0][0] in ("list", "tuple"):
        s = ("set", s[2][0][1])
    if s[0] != "set":
        raise NoMatch
    attrs = []
    for x in s[1]:
        if not (_is_len(x) and x[2][0][0] == "attr" and x[2][0][1] == P["item"]):
            raise NoMatch
        attrs.append(x[2][0][2])
    # the issue names the item's label and the measured lengths in the same order
    if issue[0] != "call" or tuple(issue[2]) != (("attr", P["item"], "label"),) + tuple(s[1]):
        raise NoMatch
    if len(set(attrs)) != len(attrs) or len(attrs) < 2:
        raise NoMatch
    return ("lengthsequal", attrs)


def _match_resolved(fr):
    if fr.returned != ("acc",) or not fr.appends:
        raise NoMatch
    rules = []
    guard = None
    resolved = None
    for conds, loops, issue in fr.appends:
        if len(loops) != 1:
            raise NoMatch
        var, it = loops[0]
        if resolved is None:
            resolved = it
        elif resolved != it:
            raise NoMatch
        conds = list(conds)
        g = ("cmp", "IsNot", P["value"], ("const", None))
        this_guard = g in conds
        if this_guard:
            conds.remove(g)
        if guard is None:
            guard = this_guard
        elif guard != this_guard:
            raise NoMatch
        if len(conds) != 1 or conds[0][0] != "and" or len(conds[0][1]) != 2:
            raise NoMatch
        flag = count = bound = None
        cls = [("attr", var, "__class__"), ("call", ("name", "type"), (var,))]
        for c in conds[0][1]:
            if c[0] == "call" and c[1] in (("name", "is_exclusive"), ("name", "is_unique")) and len(c[2]) == 1 and c[2][0] in cls:
                flag = c[1][1][3:]
                continue
            gg = _gt(c)
            if gg is None or not _is_len(gg[0]):
                raise NoMatch
            bound = gg[1]
            what = gg[0][2][0]
            if what == it:
                count = "all"
            elif what[0] == "listcomp" and what[2] == it and what[3] == what[1] and len(what[4]) == 1:
                b = what[1]
                bcls = [("attr", b, "__class__"), ("call", ("name", "type"), (b,))]
                f = what[4][0]
                if f[0] == "cmp" and f[1] in ("Is", "Eq") and ((f[2] in bcls and f[3] in cls) or (f[3] in bcls and f[2] in cls)):
                    count = "sameclass"
                else:
                    raise NoMatch
            else:
                raise NoMatch
        if flag is None or count is None:
            raise NoMatch
        if issue[0] != "call" or issue[1][0] != "name" or len(issue[2]) < 2 or \
                issue[2][0] != ("attr", var, "label") or issue[2][1] != ("attr", var, "type"):
            raise NoMatch
        iname = issue[1][1].lower()
        kind = "exclusive" if "exclusive" in iname else ("unique" if "unique" in iname else None)
        if kind is None:
            raise NoMatch
        rules.append((flag, count, bound, kind))
    # the resolved list: [model.<coll>[l] for l in <labels of value> (if l in model.<coll>)]
    r = resolved
    if r[0] != "listcomp":
        raise NoMatch
    b = r[1]
    if r[3][0] != "index" or r[3][1][0] != "attr" or r[3][1][1] != P["model"] or r[3][2] != b:
        raise NoMatch
    coll = r[3][1][2]
    member = ("cmp", "In", b, ("attr", P["model"], coll))
    if r[4] == ():
        skip = False
    elif r[4] == (member,):
        skip = True
    else:
        raise NoMatch
    src = r[2]
    ok = src == P["value"]
    if src[0] == "listcomp" and src[2] == P["value"] and src[4] == () and src[3] in _label_of(src[1]):
        ok = True
    if not ok:
        raise NoMatch
    return ("resolved", coll, bool(guard), skip, rules)


def _match_defined(fr):
    m = P["model"]
    # list form: return [Issue("<name>", l) for l in value if l not in model.<coll>]
    r = fr.returned
    if r is not None and r != ("acc",) and not fr.appends and r[0] == "listcomp" and r[2] == P["value"] and len(r[4]) == 1:
        b, f, elt = r[1], r[4][0], r[3]
        if f[0] == "cmp" and f[1] == "NotIn" and f[2] == b and f[3][0] == "attr" and f[3][1] == m:
            coll = f[3][2]
            if elt[0] == "call" and elt[1] == ("name", "ModelItemIssue") and len(elt[2]) == 2 and elt[2][0][0] == "const" \
                    and isinstance(elt[2][0][1], str) and elt[2][1] == b:
                return ("definedin", coll, elt[2][0][1])
    # scalar form: if value not in model.<coll>: return [Issue("<name>", value)] ; return []
    if r == ("list", ()) and len(fr.appends) == 1:
        conds, loops, ret = fr.appends[0]
        if not loops and len(conds) == 1 and ret[0] == "return" and ret[1][0] == "list" and len(ret[1][1]) == 1:
            f, elt = conds[0], ret[1][1][0]
            if f[0] == "cmp" and f[1] == "NotIn" and f[2] == P["value"] and f[3][0] == "attr" and f[3][1] == m:
                coll = f[3][2]
                if elt[0] == "call" and elt[1] == ("name", "ModelItemIssue") and len(elt[2]) == 2 and elt[2][0][0] == "const" \
                        and isinstance(elt[2][0][1], str) and elt[2][1] == P["value"]:
                    return ("definedin", coll, elt[2][0][1])
    raise NoMatch


# hooks other than `attribute(validator=…)` --------------------------------------------------------
def class_hooks(cls):
    """validation hooks of an item class that are NOT attribute validators of glotaran: attrs' own validators
       (`@x.validator`, `field(validator=…)`), `__attrs_post_init__`, methods called get_issues / validate*"""
    import attrs

    out = []
    for f in attrs.fields(cls):
        if f.validator is not None:
            out.append(("attrs-validator", f.name))
    for n, v in vars(cls).items():
        if n in ("__attrs_post_init__", "__attrs_pre_init__") and callable(v):
            out.append(("init-hook", n))
        elif (n == "get_issues" or n.startswith("validate")) and callable(v):
            out.append(("method", n))
    return out
