"""C17 — translator of the text constants of the yml loader / writer into lean/GlotaranModel/Generated/C17.lean.

Regenerated from VERIF_REPO's working tree on every run:

  tupleWord / word / numberScientific     `RegexPattern.tuple_word / word / number_scientific` (glotaran/utils/regex.py), read
                                          from the live compiled pattern, parsed by Python's own regex parser (re._parser) and
                                          translated into the small regex AST of GlotaranModel/C17Regex.lean: a sequence of
                                          `one class` / `rep greedy lo hi class` / `atEnd` (\\Z) / `atEndNl` ($) items; capture
                                          groups without quantifier are flattened; classes are normalised (sorted literal ranges,
                                          categories \\s \\w \\d; \\d is dropped next to \\w, literals covered by a category are
                                          dropped) so that `[\\w]+` and `\\w+` are the same table
  tupleWordUse / wordUse / numberScientificUse
                                          how the loader applies them (`.match` / `.fullmatch` / `.findall`), read with `ast`
                                          from `sanitize_dict_keys` and `convert_scientific_to_float` (glotaran/utils/sanitize.py)
  renderTemplate                          the f-string `save_model` renders a tuple key with (glotaran/builtin/io/yml/yml.py)

Whatever the translator cannot express becomes an `untranslatable "<why>"` term at that place: the file still compiles, the
interpreter treats it as "never matches" and the `generated_*_eq_model` theorems no longer build.
"""
from __future__ import annotations

import ast
import hashlib
import re

from harness import core

GEN_FILE = core.LEAN / "GlotaranModel" / "Generated" / "C17.lean"
SOURCES = ["glotaran/utils/regex.py", "glotaran/utils/sanitize.py", "glotaran/builtin/io/yml/yml.py"]
PATTERNS = [("tupleWord", "tuple_word", "sanitize_dict_keys"), ("word", "word", "sanitize_dict_keys"),
            ("numberScientific", "number_scientific", "convert_scientific_to_float")]


def _sre():
    try:
        import re._constants as sc
        import re._parser as sp
    except ImportError:  # Python < 3.11
        import sre_constants as sc
        import sre_parse as sp
    return sp, sc


class Untranslatable(Exception):
    pass


# ------------------------------------------------------------------------------------------
# classes
# ------------------------------------------------------------------------------------------
CAT_ORDER = ["space", "word", "digit", "notSpace", "notWord", "notDigit"]


def _ascii_cat(cat: str, n: int) -> bool:
    d = 48 <= n <= 57
    w = d or 65 <= n <= 90 or 97 <= n <= 122 or n == 95
    s = 9 <= n <= 13 or 28 <= n <= 32
    return {"space": s, "word": w, "digit": d}[cat]


def _class(members, negate=False):
    """-> (neg, [("lit", n) | ("range", lo, hi) | (cat,)])  normalised"""
    sp, sc = _sre()
    cats, points, ranges = set(), set(), []
    catmap = {sc.CATEGORY_WORD: "word", sc.CATEGORY_DIGIT: "digit", sc.CATEGORY_SPACE: "space",
              sc.CATEGORY_NOT_WORD: "notWord", sc.CATEGORY_NOT_DIGIT: "notDigit", sc.CATEGORY_NOT_SPACE: "notSpace"}
    for op, av in members:
        if op is sc.NEGATE:
            negate = not negate
        elif op is sc.LITERAL:
            points.add(av)
        elif op is sc.RANGE:
            if av[1] - av[0] <= 512:
                points.update(range(av[0], av[1] + 1))
            else:
                ranges.append((av[0], av[1]))
        elif op is sc.CATEGORY and av in catmap:
            cats.add(catmap[av])
        else:
            raise Untranslatable(f"class member {str(op).lower()} {av!r}")
    if "word" in cats:
        cats.discard("digit")            # \d is part of \w (also outside ASCII)
    pos = [c for c in ("space", "word", "digit") if c in cats]
    points = {p for p in points if not (p < 128 and any(_ascii_cat(c, p) for c in pos))}
    out = []
    pts = sorted(points)
    i = 0
    merged = []
    while i < len(pts):
        j = i
        while j + 1 < len(pts) and pts[j + 1] == pts[j] + 1:
            j += 1
        merged.append((pts[i], pts[j]))
        i = j + 1
    merged = sorted(merged + ranges)
    for lo, hi in merged:
        out.append(("lit", lo) if lo == hi else ("range", lo, hi))
    out += [(c,) for c in CAT_ORDER if c in cats]
    return (negate, out)


def _single(item):
    """a one-character item -> class, else None"""
    sp, sc = _sre()
    op, av = item
    if op is sc.LITERAL:
        return _class([(sc.LITERAL, av)])
    if op is sc.NOT_LITERAL:
        return _class([(sc.LITERAL, av)], negate=True)
    if op is sc.ANY:
        return _class([(sc.LITERAL, 10)], negate=True)
    if op is sc.IN:
        return _class(av)
    if op is sc.CATEGORY:
        return _class([item])
    return None


# ------------------------------------------------------------------------------------------
# patterns
# ------------------------------------------------------------------------------------------
def translate(pattern: str, flags: int, use: str):
    """-> (items, groups); items: ("one", cls) | ("rep", greedy, lo, hi|None, cls) | ("atEnd",) | ("atEndNl",) | ("bad", why)"""
    sp, sc = _sre()
    other = flags & ~(re.UNICODE | re.ASCII)
    if other:
        return [("bad", "flags " + "|".join(f.name for f in re.RegexFlag if f.name and other & f))], 0
    try:
        tree = sp.parse(pattern, flags & ~re.UNICODE)
    except Exception as e:  # noqa: BLE001
        return [("bad", f"pattern does not parse: {type(e).__name__}")], 0
    groups = tree.state.groups - 1
    out = []

    def walk(items, top):
        for idx, item in enumerate(items):
            op, av = item
            try:
                cls = _single(item)
            except Untranslatable as e:
                out.append(("bad", str(e)))
                continue
            if cls is not None:
                out.append(("one", cls))
            elif op in (sc.MAX_REPEAT, sc.MIN_REPEAT):
                lo, hi, inner = av
                try:
                    c = _single(inner[0]) if len(inner) == 1 else None
                except Untranslatable as e:
                    out.append(("bad", str(e)))
                    continue
                if c is None:
                    out.append(("bad", "repeat of something that is not a single character class"))
                else:
                    out.append(("rep", op is sc.MAX_REPEAT, lo, None if hi == sc.MAXREPEAT else hi, c))
            elif op is sc.SUBPATTERN:
                g, add, dele, inner = av
                if add or dele:
                    out.append(("bad", "group with inline flags"))
                else:
                    walk(inner, False)
            elif op is sc.AT and av is sc.AT_END_STRING:
                out.append(("atEnd",))
            elif op is sc.AT and av is sc.AT_END:
                out.append(("atEndNl",))
            elif op is sc.AT and av in (sc.AT_BEGINNING, sc.AT_BEGINNING_STRING) and top and idx == 0 and use in ("match", "fullmatch"):
                pass                       # `^` / `\A` in front of a pattern applied with match / fullmatch: always true
            else:
                out.append(("bad", f"{str(op).lower()}" + (f" {str(av).lower()}" if op is sc.AT else "")))

    walk(list(tree), True)
    if use == "findall" and groups > 1:
        out.append(("bad", f"findall with {groups} capture groups"))
    elif use == "findall" and groups == 1:
        top = list(tree)
        if not (len(top) == 1 and top[0][0] is sc.SUBPATTERN):
            out.append(("bad", "findall with a capture group that is not the whole pattern"))
    return out, groups


def uses_of(src: str):
    """{(function, pattern attribute): sorted set of method names} for every `<name>.<attr>.<method>(...)` call"""
    found = {}
    try:
        tree = ast.parse(src)
    except SyntaxError:
        return found
    for fn in ast.walk(tree):
        if isinstance(fn, ast.FunctionDef):
            for n in ast.walk(fn):
                if (isinstance(n, ast.Call) and isinstance(n.func, ast.Attribute) and isinstance(n.func.value, ast.Attribute)
                        and isinstance(n.func.value.value, ast.Name)):
                    found.setdefault((fn.name, n.func.value.attr), set()).add(n.func.attr)
    return found


def render_template(src: str):
    """the f-string of the tuple-key rendering in YmlProjectIo.save_model: [("text", s) | ("elem", i) | ("bad", why)]"""
    try:
        tree = ast.parse(src)
    except SyntaxError:
        return [("bad", "yml.py does not parse")]
    cands = []
    for fn in ast.walk(tree):
        if isinstance(fn, ast.FunctionDef) and fn.name == "save_model":
            for n in ast.walk(fn):
                if isinstance(n, ast.JoinedStr) and any(
                        isinstance(v, ast.FormattedValue) and isinstance(v.value, ast.Subscript) for v in n.values):
                    cands.append(n)
    if len(cands) != 1:
        return [("bad", f"{len(cands)} f-strings with subscripts in save_model")]
    parts = []
    for v in cands[0].values:
        if isinstance(v, ast.Constant) and isinstance(v.value, str):
            parts.append(("text", v.value))
        elif (isinstance(v, ast.FormattedValue) and v.conversion == -1 and v.format_spec is None and isinstance(v.value, ast.Subscript)
              and isinstance(v.value.value, ast.Name) and isinstance(v.value.slice, ast.Constant) and isinstance(v.value.slice.value, int)
              and v.value.slice.value >= 0):
            parts.append(("elem", v.value.slice.value))
        else:
            parts.append(("bad", "f-string part " + ast.dump(v)[:60]))
    return parts


def extract() -> dict:
    core.import_glotaran()
    import importlib

    rx = importlib.import_module("glotaran.utils.regex")
    uses = uses_of((core.REPO / SOURCES[1]).read_text())
    t = {"patterns": {}}
    for lean_name, attr, fn in PATTERNS:
        methods = sorted(uses.get((fn, attr), set()))
        use = methods[0] if len(methods) == 1 else None
        pat = getattr(getattr(rx, "RegexPattern", None), attr, None)
        if not isinstance(pat, re.Pattern) or not isinstance(pat.pattern, str):
            items, groups, text = [("bad", f"RegexPattern.{attr} is not a compiled str pattern")], 0, ""
        else:
            items, groups = translate(pat.pattern, pat.flags, use or "")
            text = pat.pattern
        if use in ("match", "fullmatch", "findall"):
            luse = {"match": ".matchPrefix", "fullmatch": ".fullMatch", "findall": ".findall"}[use]
        else:
            luse = f".untranslatable {lstr(f'{fn} applies rp.{attr} with {methods!r}')}"
        t["patterns"][lean_name] = {"attr": attr, "fn": fn, "text": text, "items": items, "groups": groups, "use": use, "lean_use": luse,
                                    "methods": methods}
    t["render"] = render_template((core.REPO / SOURCES[2]).read_text())
    return t


# ------------------------------------------------------------------------------------------
# rendering
# ------------------------------------------------------------------------------------------
def lstr(s: str) -> str:
    out = ['"']
    for ch in s:
        if ch == '"':
            out.append('\\"')
        elif ch == "\\":
            out.append("\\\\")
        elif ch == "\n":
            out.append("\\n")
        elif ch == "\t":
            out.append("\\t")
        elif 32 <= ord(ch) < 127:
            out.append(ch)
        else:
            out.append("\\u{%x}" % ord(ch))
    out.append('"')
    return "".join(out)


def lchars(s: str) -> str:
    return "[" + ", ".join(f"Char.ofNat {ord(c)}" for c in s) + "]"


def lcls(cls) -> str:
    neg, items = cls
    parts = []
    for it in items:
        if it[0] == "lit":
            parts.append(f".lit (Char.ofNat {it[1]})")
        elif it[0] == "range":
            parts.append(f".range {it[1]} {it[2]}")
        else:
            parts.append("." + it[0])
    return f"⟨{'true' if neg else 'false'}, [" + ", ".join(parts) + "]⟩"


def litem(it) -> str:
    if it[0] == "one":
        return f".one {lcls(it[1])}"
    if it[0] == "rep":
        hi = "none" if it[3] is None else f"(some {it[3]})"
        return f".rep {'true' if it[1] else 'false'} {it[2]} {hi} {lcls(it[4])}"
    if it[0] in ("atEnd", "atEndNl"):
        return "." + it[0]
    return f".untranslatable {lstr(it[1])}"


def render(t: dict) -> str:
    o = ["/- GENERATED by harness/props/_c17_regex.py from " + ", ".join(SOURCES) + "\n"
         "   (live RegexPattern attributes parsed by Python's regex parser; uses and the key template by `ast`). Do not edit. -/",
         "import GlotaranModel.C17Regex", "namespace Glotaran.C17.Generated", "open Glotaran.C17.Regex", ""]
    for lean_name, p in t["patterns"].items():
        o.append(f"/-- `RegexPattern.{p['attr']}.pattern` (text, information) -/")
        o.append(f"def {lean_name}Text : String := {lstr(p['text'])}")
        o.append(f"/-- the pattern as a sequence of items ({p['groups']} capture group(s), flattened) -/")
        o.append(f"def {lean_name} : List Item := [\n  " + ",\n  ".join(litem(i) for i in p["items"]) + "]")
        o.append(f"/-- how `{p['fn']}` applies it: {', '.join(p['methods']) or 'not at all'} -/")
        o.append(f"def {lean_name}Use : Use := {p['lean_use']}")
        o.append("")
    o.append("/-- the f-string `YmlProjectIo.save_model` renders a tuple key `k` with: text / `{k[i]}` -/")
    parts = []
    for r in t["render"]:
        if r[0] == "text":
            parts.append(f".text {lchars(r[1])}")
        elif r[0] == "elem":
            parts.append(f".elem {r[1]}")
        else:
            parts.append(f".untranslatable {lstr(r[1])}")
    o.append("def renderTemplate : List RenderPart := [" + ", ".join(parts) + "]")
    o.append("")
    o.append("end Glotaran.C17.Generated\n")
    return "\n".join(o)


def generate(ck):
    t = extract()
    text = render(t)
    GEN_FILE.parent.mkdir(parents=True, exist_ok=True)
    if not GEN_FILE.exists() or GEN_FILE.read_text() != text:
        GEN_FILE.write_text(text)
    h = hashlib.sha1()
    for f in SOURCES:
        h.update((core.REPO / f).read_bytes())
    bad = [f"{n}: {i[1]}" for n, p in t["patterns"].items() for i in p["items"] if i[0] == "bad"]
    bad += [f"{n}: use {p['methods']}" for n, p in t["patterns"].items() if p["use"] not in ("match", "fullmatch", "findall")]
    bad += [f"renderTemplate: {r[1]}" for r in t["render"] if r[0] == "bad"]
    return [{"table": "Patterns (lean/GlotaranModel/Generated/C17.lean): tupleWord, word, numberScientific as regex ASTs, their uses, "
                      "renderTemplate",
             "source": SOURCES, "source_sha1": h.hexdigest(), "sha1": hashlib.sha1(text.encode()).hexdigest(),
             "patterns": {n: p["text"] for n, p in t["patterns"].items()}, "untranslatable": bad}], t
