"""C07 translator: Python `ast` of the formula-carrying functions of the spectral / coherent-artifact / damped-oscillation /
PFID megacomplexes  ->  Lean definitions over the model's abstract number class (`RNum α` / `CNum α`), written to
lean/GlotaranModel/Generated/C07Fns.lean on every run.  (Private to harness/props/c07.py.)

The translator is a small symbolic executor of the numpy subset these functions are written in.  Every array is represented by
its *element* (time point x oscillation): elementwise arithmetic, `np.exp/log/square/abs/power/mod/sqrt(2)/pi`, `1j`, `.real`,
`.imag`, boolean masks (`np.where(c)[0]`, `x[mask]`, `a[np.ix_(rows, cols)] = e`, `a[mask] = e`), slice stores `m[:, k] = e` with
read-back of stored columns, `if self.x is not None`, `if np.allclose(x, 0)` (numpy's default atol is read from numpy),
`if order > k`, and the counter loop of the numba no-IRF kernel.  Source it cannot translate becomes the Lean term
`untranslatable "<reason>"` (never a default), so that the corresponding `generated_*_eq_model` theorem no longer builds.

Reading of constants: a decimal literal is the rational it spells (`0.03` = 3/100, the model's `ofRat (3/100)`), `np.log(2)` is
the symbol `ln2`, `np.sqrt(2)` is `sqrt2`, `np.pi` is `pi`, `1j` is `I`.
"""
from __future__ import annotations

import ast
import hashlib
import inspect
from fractions import Fraction
from pathlib import Path

SOURCES = {
    "shape": "glotaran/builtin/megacomplexes/spectral/shape.py",
    "artifact": "glotaran/builtin/megacomplexes/coherent_artifact/coherent_artifact_megacomplex.py",
    "osc": "glotaran/builtin/megacomplexes/damped_oscillation/damped_oscillation_megacomplex.py",
    "pfid": "glotaran/builtin/megacomplexes/pfid/pfid_megacomplex.py",
    "spectral": "glotaran/builtin/megacomplexes/spectral/spectral_megacomplex.py",
}


class Untranslatable(Exception):
    pass


def U(reason):
    return ("untranslatable", str(reason)[:120])


def rat(x):
    return ("rat", Fraction(x))


def is_rat(e, v=None):
    return e[0] == "rat" and (v is None or e[1] == v)


# ------------------------------------------------------------------------------------------
# symbolic executor
# ------------------------------------------------------------------------------------------
class Exec:
    """values: expression tuples
         ("rat", q) ("var", name) ("const", c) ("un", op, a) ("bin", op, a, b) ("pow", a, n) ("iflt", a, b, c, d)
         ("optmatch", name, e_some, e_none) ("call", lean_name, [args]) ("pair", a, b) ("untranslatable", reason)
       bookkeeping values (never rendered):
         ("mask", a, b, neg)      elements where  a < b  (neg: where not a < b)
         ("masked", e, mask)      e restricted to a mask
         ("ix", [masks])          np.ix_(...)
         ("nat", text)            an index expression over naturals
         ("optvar", name)         an attribute that may be None
         ("opaque", what)         shapes / lengths: only allowed as arguments of np.zeros / np.ones
    """

    def __init__(self, env, *, optional=(), erf_name="erf", parent_call=None, atol=None, nat_names=()):
        self.env = dict(env)
        self.optional = set(optional)
        self.erf_name = erf_name
        self.parent_call = parent_call
        self.atol = atol
        self.nat_names = set(nat_names)
        self.cols = {}            # stored columns of `matrix[:, k]`
        self.stores = []          # (index value, guard, expr)
        self.guard = None

    # -- expressions -------------------------------------------------------------------
    def np_attr(self, node):
        """`np.xyz` -> "xyz" """
        if isinstance(node, ast.Attribute) and isinstance(node.value, ast.Name) and node.value.id in ("np", "numpy"):
            return node.attr
        return None

    def ev(self, node):
        try:
            return self._ev(node)
        except Untranslatable as e:
            return U(e)

    def num(self, node):
        """an element-valued expression (not a mask / index / shape)"""
        v = self._ev(node)
        if v[0] == "masked":
            return v[1]
        if v[0] in ("mask", "ix", "nat", "optvar", "opaque", "pair", "list", "matrix", "order", "fn", "ds"):
            raise Untranslatable(f"{v[0]} used as a number: {ast.unparse(node)}")
        return v

    def _ev(self, node):
        if isinstance(node, ast.Constant):
            v = node.value
            if isinstance(v, bool) or v is None:
                raise Untranslatable(f"constant {v!r}")
            if isinstance(v, int):
                return rat(v)
            if isinstance(v, float):
                return rat(Fraction(repr(v)))
            if isinstance(v, complex):
                if v == 1j:
                    return ("const", "I")
                raise Untranslatable(f"complex literal {v!r}")
            raise Untranslatable(f"constant {v!r}")
        if isinstance(node, ast.Name):
            if node.id in self.env:
                return self.env[node.id]
            raise Untranslatable(f"unknown name {node.id}")
        if isinstance(node, ast.Attribute):
            if self.np_attr(node) == "pi":
                return ("const", "pi")
            if isinstance(node.value, ast.Name) and node.value.id == "self":
                key = "self." + node.attr
                if key in self.env:
                    return self.env[key]
                raise Untranslatable(f"unknown attribute {key}")
            if node.attr in ("real", "imag"):
                return ("un", "re" if node.attr == "real" else "im", self.num(node.value))
            if node.attr == "size" and isinstance(node.value, ast.Name) and node.value.id in self.nat_names:
                return ("nat", self.nat_names_map[node.value.id])
            if node.attr in ("shape", "size"):
                return ("opaque", ast.unparse(node))
            raise Untranslatable(f"attribute {ast.unparse(node)}")
        if isinstance(node, ast.UnaryOp):
            if isinstance(node.op, ast.USub):
                a = self.num(node.operand)
                if a[0] == "rat" and isinstance(node.operand, ast.Constant):
                    return rat(-a[1])
                return ("un", "neg", a)
            if isinstance(node.op, ast.UAdd):
                return self.num(node.operand)
            raise Untranslatable(f"unary {ast.unparse(node)}")
        if isinstance(node, ast.BinOp):
            if isinstance(node.op, ast.Pow):
                a = self.num(node.left)
                n = self._ev(node.right)
                if n[0] == "rat" and n[1].denominator == 1 and n[1] >= 0:
                    return ("pow", a, int(n[1]))
                raise Untranslatable(f"power with exponent {ast.unparse(node.right)}")
            l, r = self._ev(node.left), self._ev(node.right)
            if l[0] == "nat" or r[0] == "nat":
                if isinstance(node.op, ast.Add):
                    return ("nat", f"{self.nat_text(l)} + {self.nat_text(r)}")
                raise Untranslatable(f"index arithmetic {ast.unparse(node)}")
            ops = {ast.Add: "add", ast.Sub: "sub", ast.Mult: "mul", ast.Div: "div"}
            for k, name in ops.items():
                if isinstance(node.op, k):
                    return ("bin", name, self.num(node.left), self.num(node.right))
            raise Untranslatable(f"operator {ast.unparse(node)}")
        if isinstance(node, ast.Compare):
            if len(node.ops) != 1:
                raise Untranslatable(f"chained comparison {ast.unparse(node)}")
            a, b = self.num(node.left), self.num(node.comparators[0])
            op = node.ops[0]
            if isinstance(op, ast.Lt):
                return ("mask", a, b, False)
            if isinstance(op, ast.Gt):
                return ("mask", b, a, False)
            if isinstance(op, ast.GtE):
                return ("mask", a, b, True)
            if isinstance(op, ast.LtE):
                return ("mask", b, a, True)
            raise Untranslatable(f"comparison {ast.unparse(node)}")
        if isinstance(node, ast.Subscript):
            return self.subscript(node)
        if isinstance(node, ast.Call):
            return self.call(node)
        if isinstance(node, ast.Tuple):
            return ("opaque", ast.unparse(node))
        raise Untranslatable(f"expression {ast.unparse(node)[:60]}")

    def nat_text(self, v):
        if v[0] == "nat":
            return v[1]
        if v[0] == "rat" and v[1].denominator == 1 and v[1] >= 0:
            return str(int(v[1]))
        raise Untranslatable("index arithmetic on a non-index")

    def subscript(self, node):
        sl = node.slice
        # np.where(c)[0]
        if isinstance(sl, ast.Constant) and sl.value == 0 and not (
                isinstance(node.value, ast.Name) and self.env.get(node.value.id, ("",))[0] == "list"):
            v = self._ev(node.value)
            if v[0] == "mask":
                return v
            if v[0] == "opaque":
                return v
            raise Untranslatable(f"subscript {ast.unparse(node)}")
        # matrix[:, k]
        if isinstance(sl, ast.Tuple) and len(sl.elts) == 2 and isinstance(sl.elts[0], ast.Slice) and \
                sl.elts[0].lower is None and sl.elts[0].upper is None and sl.elts[0].step is None:
            second = sl.elts[1]
            if isinstance(second, ast.Constant) and second.value is None:      # x[:, None]: broadcasting only
                return self._ev(node.value)
            if isinstance(node.value, ast.Name) and node.value.id in self.env and self.env[node.value.id] == ("matrix",):
                k = self.nat_text(self._ev(second))
                if k in self.cols:
                    return self.cols[k]
                raise Untranslatable(f"read of column {k} before it is stored")
            raise Untranslatable(f"subscript {ast.unparse(node)}")
        # first element of a list-valued quantity: centers[0]
        if isinstance(node.value, ast.Name) and self.env.get(node.value.id, ("",))[0] == "list" and isinstance(sl, ast.Constant) \
                and isinstance(sl.value, int) and sl.value >= 0:
            return ("var", f"{self.env[node.value.id][1]}{sl.value}")
        # x[mask]
        m = self._ev(sl)
        if m[0] == "mask":
            base = self._ev(node.value)
            if base[0] == "masked":
                raise Untranslatable(f"mask of a masked value {ast.unparse(node)}")
            if base[0] in ("mask", "ix", "nat", "optvar", "opaque", "pair"):
                raise Untranslatable(f"subscript {ast.unparse(node)}")
            return ("masked", base, m)
        raise Untranslatable(f"subscript {ast.unparse(node)}")

    def call(self, node):
        f = node.func
        name = self.np_attr(f)
        args = node.args
        if name in ("exp", "abs"):
            return ("un", name, self.num(args[0]))
        if name == "log":
            a = self.num(args[0])
            if is_rat(a, 2):
                return ("const", "ln2")
            return ("un", "log", a)
        if name == "sqrt":
            a = self.num(args[0])
            if is_rat(a, 2):
                return ("const", "sqrt2")
            raise Untranslatable(f"np.sqrt of something else than the literal 2: {ast.unparse(node)}")
        if name == "square":
            return ("pow", self.num(args[0]), 2)
        if name == "power":
            n = self._ev(args[1])
            if n[0] == "rat" and n[1].denominator == 1 and n[1] >= 0:
                return ("pow", self.num(args[0]), int(n[1]))
            raise Untranslatable(f"np.power with exponent {ast.unparse(args[1])}")
        if name == "mod":
            return ("bin", "fmod", self.num(args[0]), self.num(args[1]))
        if name in ("zeros", "ones"):
            return rat(0 if name == "zeros" else 1)
        if name in ("array", "asarray") and len(args) == 1:
            return self._ev(args[0])
        if name == "where" and len(args) == 1:
            v = self._ev(args[0])
            if v[0] != "mask":
                raise Untranslatable(f"np.where of {ast.unparse(args[0])}")
            return v
        if name == "ix_":
            ms = [self._ev(a) for a in args]
            if any(m[0] != "mask" for m in ms):
                raise Untranslatable(f"np.ix_ of non-masks {ast.unparse(node)}")
            return ("ix", ms)
        if name == "concatenate":
            if len(args) == 1 and isinstance(args[0], ast.Tuple) and len(args[0].elts) == 2 and \
                    [k.arg for k in node.keywords] == ["axis"] and getattr(node.keywords[0].value, "value", None) == 1:
                return ("pair", self.num(args[0].elts[0]), self.num(args[0].elts[1]))
            raise Untranslatable(f"np.concatenate form {ast.unparse(node)}")
        if isinstance(f, ast.Name) and f.id == self.erf_name and self.erf_name in self.env:
            return ("un", "erf", self.num(args[0]))
        if isinstance(f, ast.Name) and f.id == "len":
            return ("opaque", ast.unparse(node))
        if isinstance(f, ast.Attribute) and f.attr == "calculate" and isinstance(f.value, ast.Call) and \
                isinstance(f.value.func, ast.Name) and f.value.func.id == "super" and self.parent_call is not None:
            lean_name, params = self.parent_call
            vals = []
            for p in params:
                if p == "axis":
                    vals.append(self.num(args[0]))
                else:
                    v = self.env["self." + p]
                    vals.append(("optname", p) if v[0] == "optvar" else v)
            return ("call", lean_name, vals)
        raise Untranslatable(f"call {ast.unparse(node)[:60]}")

    # -- statements --------------------------------------------------------------------
    def if_lt(self, m, then, other):
        _, a, b, neg = m
        return ("iflt", a, b, other, then) if neg else ("iflt", a, b, then, other)

    def store(self, target, value):
        """`name[...] = value`"""
        base = target.value
        if not isinstance(base, ast.Name):
            raise Untranslatable(f"store into {ast.unparse(target)}")
        sl = target.slice
        cur = self.env.get(base.id)
        if cur == ("matrix",):
            if isinstance(sl, ast.Tuple) and len(sl.elts) == 2 and isinstance(sl.elts[0], ast.Slice) and sl.elts[0].lower is None \
                    and sl.elts[0].upper is None:
                k = self.nat_text(self._ev(sl.elts[1]))
                self.cols[k] = value
                self.stores.append((k, self.guard, value))
                return
            raise Untranslatable(f"store into {ast.unparse(target)}")
        if cur is None:
            raise Untranslatable(f"store into unknown {base.id}")
        m = self._ev(sl)
        masks = m[1] if m[0] == "ix" else [m] if m[0] == "mask" else None
        if masks is None:
            raise Untranslatable(f"store index {ast.unparse(sl)}")
        self.check_masks(value, masks)
        new = self.strip_masked(value)
        for mk in reversed(masks):
            new = self.if_lt(mk, new, cur)
        self.env[base.id] = new

    def check_masks(self, e, masks):
        """every masked operand of the stored expression is restricted by one of the masks of the store"""
        if not isinstance(e, tuple):
            return
        if e and e[0] == "masked":
            if e[2] not in masks:
                raise Untranslatable("operand restricted by another mask than the store")
            return
        for x in e:
            if isinstance(x, (tuple, list)):
                for y in (x if isinstance(x, list) else [x]):
                    self.check_masks(y, masks)

    def strip_masked(self, e):
        if not isinstance(e, tuple):
            return e
        if e and e[0] == "masked":
            return self.strip_masked(e[1])
        return tuple([self.strip_masked(y) for y in x] if isinstance(x, list) else self.strip_masked(x) if isinstance(x, tuple) else x
                     for x in e)

    def bind_num(self, node):
        """right-hand side of an assignment: numbers, masks, masked values, shapes are all bindable"""
        v = self._ev(node)
        if v[0] == "masked":
            return v
        return v

    def run(self, stmts):
        """execute a block; returns the returned value (continuation style for branches) or None"""
        for i, st in enumerate(stmts):
            rest = stmts[i + 1:]
            if isinstance(st, ast.Expr) and isinstance(st.value, ast.Constant) and isinstance(st.value.value, str):
                continue
            if isinstance(st, ast.Return):
                if st.value is None:
                    return None
                v = self._ev(st.value)
                return v[1] if v[0] == "masked" else v
            if isinstance(st, ast.Assign):
                if len(st.targets) != 1:
                    raise Untranslatable(f"multiple targets {ast.unparse(st)[:50]}")
                t = st.targets[0]
                if isinstance(t, ast.Name):
                    try:
                        self.env[t.id] = self.bind_num(st.value)
                    except Untranslatable as e:
                        self.env[t.id] = U(e)
                elif isinstance(t, ast.Subscript):
                    v = self._ev(st.value)
                    self.store(t, v)
                else:
                    raise Untranslatable(f"assignment target {ast.unparse(t)}")
                continue
            if isinstance(st, ast.AugAssign) and isinstance(st.target, ast.Name):
                cur = self.env.get(st.target.id)
                if cur is None:
                    raise Untranslatable(f"augmented assignment to unknown {st.target.id}")
                rhs = self._ev(st.value)
                if rhs[0] == "optvar":
                    raise Untranslatable(f"optional attribute {rhs[1]} used without a None test")
                op = {ast.Mult: "mul", ast.Add: "add", ast.Sub: "sub", ast.Div: "div"}.get(type(st.op))
                if op is None:
                    raise Untranslatable(f"augmented operator {ast.unparse(st)}")
                self.env[st.target.id] = ("bin", op, cur, rhs)
                continue
            if isinstance(st, ast.If):
                return self.branch(st, rest)
            raise Untranslatable(f"statement {ast.unparse(st)[:60]}")
        return None

    def fork(self):
        e = Exec(self.env, optional=self.optional, erf_name=self.erf_name, parent_call=self.parent_call, atol=self.atol)
        e.cols, e.stores, e.guard = dict(self.cols), self.stores, self.guard
        e.nat_names = self.nat_names
        e.nat_names_map = getattr(self, "nat_names_map", {})
        return e

    def branch(self, st, rest):
        t = st.test
        # if self.x is not None:
        if isinstance(t, ast.Compare) and len(t.ops) == 1 and isinstance(t.ops[0], (ast.IsNot, ast.Is)) and \
                isinstance(t.comparators[0], ast.Constant) and t.comparators[0].value is None and \
                isinstance(t.left, ast.Attribute) and isinstance(t.left.value, ast.Name) and t.left.value.id == "self":
            key = "self." + t.left.attr
            if self.env.get(key, ("",))[0] != "optvar":
                raise Untranslatable(f"None test of a non-optional attribute {key}")
            some, none = self.fork(), self.fork()
            some.env[key] = ("var", t.left.attr)
            none.env[key] = U(f"{key} is None here")
            body, orelse = (st.body, st.orelse) if isinstance(t.ops[0], ast.IsNot) else (st.orelse, st.body)
            return ("optmatch", t.left.attr, some.run(body + rest), none.run(orelse + rest))
        # if np.allclose(x, 0):
        if isinstance(t, ast.Call) and self.np_attr(t.func) == "allclose" and len(t.args) == 2 and not t.keywords:
            x, z = self.num(t.args[0]), self.num(t.args[1])
            if not is_rat(z, 0) or self.atol is None:
                raise Untranslatable(f"np.allclose form {ast.unparse(t)}")
            close, far = self.fork(), self.fork()
            return ("iflt", rat(self.atol), ("un", "abs", x), far.run(st.orelse + rest), close.run(st.body + rest))
        # if order > k:   (guards stores only)
        if isinstance(t, ast.Compare) and len(t.ops) == 1 and isinstance(t.ops[0], ast.Gt) and isinstance(t.left, ast.Name) and \
                self.env.get(t.left.id) == ("order",) and isinstance(t.comparators[0], ast.Constant) and not st.orelse and self.guard is None:
            self.guard = int(t.comparators[0].value)
            try:
                r = self.run(st.body)
            finally:
                self.guard = None
            if r is not None:
                raise Untranslatable("return inside an order guard")
            return self.run(rest)
        raise Untranslatable(f"condition {ast.unparse(t)[:60]}")


# ------------------------------------------------------------------------------------------
# rendering
# ------------------------------------------------------------------------------------------
def lean_str(s):
    return '"' + s.replace("\\", "\\\\").replace('"', '\\"').replace("\n", " ") + '"'


def lean_rat(q):
    if q.denominator == 1:
        return f"ofRat {q.numerator}" if q >= 0 else f"ofRat ({q.numerator})"
    return f"ofRat ({q.numerator}/{q.denominator})"


def render(e):
    if e is None:
        return 'untranslatable "no value returned"'
    k = e[0]
    if k == "rat":
        return lean_rat(e[1])
    if k == "var":
        return e[1]
    if k == "const":
        return {"pi": "RNum.pi", "sqrt2": "sqrt2", "ln2": "ln2", "I": "CNum.I"}[e[1]]
    if k == "un":
        fn = {"neg": "neg", "abs": "RNum.abs", "exp": "RNum.exp", "log": "RNum.log", "re": "CNum.re", "im": "CNum.im", "erf": "erf"}[e[1]]
        return f"{fn} ({render(e[2])})"
    if k == "bin":
        return f"{e[1]} ({render(e[2])}) ({render(e[3])})"
    if k == "pow":
        return f"RNum.pow ({render(e[1])}) {e[2]}"
    if k == "iflt":
        return f"ifLt ({render(e[1])}) ({render(e[2])}) ({render(e[3])}) ({render(e[4])})"
    if k == "optmatch":
        return f"(match {e[1]} with | some {e[1]} => {render(e[2])} | none => {render(e[3])})"
    if k == "call":
        return e[1] + "".join(" " + (a[1] if a[0] == "optname" else "(" + render(a) + ")") for a in e[2])
    if k == "pair":
        return f"({render(e[1])}, {render(e[2])})"
    if k == "untranslatable":
        return f"untranslatable {lean_str(e[1])}"
    if k == "optvar":
        return f"untranslatable {lean_str('optional attribute ' + e[1] + ' used without a None test')}"
    return f"untranslatable {lean_str('value of kind ' + str(k))}"


# ------------------------------------------------------------------------------------------
# the functions
# ------------------------------------------------------------------------------------------
def find(tree, cls, fn):
    body = tree.body
    if cls is not None:
        for n in body:
            if isinstance(n, ast.ClassDef) and n.name == cls:
                body = n.body
                break
        else:
            raise Untranslatable(f"class {cls} not found")
    for n in body:
        if isinstance(n, ast.FunctionDef) and n.name == fn:
            return n
    raise Untranslatable(f"function {(cls + '.') if cls else ''}{fn} not found")


def argnames(fn):
    return [a.arg for a in fn.args.args]


def class_bases(tree, cls):
    for n in tree.body:
        if isinstance(n, ast.ClassDef) and n.name == cls:
            return [b.id for b in n.bases if isinstance(b, ast.Name)]
    return []


def guarded(f):
    try:
        return f()
    except Untranslatable as e:
        return U(e)
    except Exception as e:  # noqa: BLE001 — the generator must not crash the check
        return U(f"translator error {type(e).__name__}: {e}")


def numpy_atol():
    import numpy as np
    return Fraction(repr(float(inspect.signature(np.allclose).parameters["atol"].default)))


def shape_fn(tree, cls, attrs, optional, parent=None):
    def go():
        fn = find(tree, cls, "calculate")
        if argnames(fn) != ["self", "axis"]:
            raise Untranslatable(f"{cls}.calculate has parameters {argnames(fn)}")
        env = {"axis": ("var", "axis")}
        for a in attrs:
            env["self." + a] = ("optvar", a) if a in optional else ("var", a)
        pc = None
        if parent is not None:
            if parent[0] not in class_bases(tree, cls):
                raise Untranslatable(f"{cls} does not derive from {parent[0]}")
            pc = (parent[1], parent[2])
        ex = Exec(env, optional=optional, parent_call=pc, atol=numpy_atol())
        return ex.run(fn.body)
    return guarded(go)


def artifact_stores(tree):
    """-> list of (column text, guard or None, expr) or an untranslatable value"""
    def go():
        fn = find(tree, None, "_calculate_coherent_artifact_matrix_on_index")
        if argnames(fn) != ["matrix", "center", "width", "axis", "order"]:
            raise Untranslatable(f"artifact kernel has parameters {argnames(fn)}")
        env = {"matrix": ("matrix",), "center": ("var", "center"), "width": ("var", "width"), "axis": ("var", "axis"), "order": ("order",)}
        ex = Exec(env)
        r = ex.run(fn.body)
        if r is not None:
            raise Untranslatable("artifact kernel returns a value")
        return ex.stores
    return guarded(go)


def noirf_loop(tree):
    """the numba kernel `idx = 0; for frequency, rate in zip(frequencies, rates): ...; idx += 1`
    -> dict(init, step, zipped, stores) or an untranslatable value"""
    def go():
        fn = find(tree, None, "calculate_damped_oscillation_matrix_no_irf")
        if argnames(fn) != ["matrix", "frequencies", "rates", "axis"]:
            raise Untranslatable(f"no-IRF kernel has parameters {argnames(fn)}")
        body = [s for s in fn.body if not (isinstance(s, ast.Expr) and isinstance(s.value, ast.Constant))]
        if len(body) != 2 or not isinstance(body[0], ast.Assign) or not isinstance(body[1], ast.For):
            raise Untranslatable("no-IRF kernel is not `counter = c; for ...`")
        init = body[0]
        if len(init.targets) != 1 or not isinstance(init.targets[0], ast.Name) or not isinstance(init.value, ast.Constant) \
                or not isinstance(init.value.value, int):
            raise Untranslatable("counter initialisation")
        counter = init.targets[0].id
        loop = body[1]
        it = loop.iter
        if loop.orelse or not (isinstance(it, ast.Call) and isinstance(it.func, ast.Name) and it.func.id == "zip" and
                               all(isinstance(a, ast.Name) for a in it.args) and not it.keywords):
            raise Untranslatable(f"loop iterator {ast.unparse(it)}")
        zipped = [a.id for a in it.args]
        if not isinstance(loop.target, ast.Tuple) or not all(isinstance(t, ast.Name) for t in loop.target.elts):
            raise Untranslatable("loop target")
        targets = [t.id for t in loop.target.elts]
        if sorted(zip(zipped, targets)) != [("frequencies", "frequency"), ("rates", "rate")]:
            raise Untranslatable(f"loop runs over {list(zip(zipped, targets))}")
        stmts = list(loop.body)
        last = stmts[-1]
        if not (isinstance(last, ast.AugAssign) and isinstance(last.target, ast.Name) and last.target.id == counter and
                isinstance(last.op, ast.Add) and isinstance(last.value, ast.Constant) and isinstance(last.value.value, int)):
            raise Untranslatable("the loop does not end with `counter += c`")
        env = {"matrix": ("matrix",), "frequency": ("var", "frequency"), "rate": ("var", "rate"), "axis": ("var", "axis"),
               counter: ("nat", "idx")}
        ex = Exec(env, nat_names=("rates", "frequencies"))
        ex.nat_names_map = {"rates": "n", "frequencies": "n"}
        r = ex.run(stmts[:-1])
        if r is not None:
            raise Untranslatable("loop body returns")
        if any(g is not None for _, g, _ in ex.stores):
            raise Untranslatable("guarded store in the loop")
        return {"init": int(init.value.value), "step": int(last.value.value), "stores": [(k, e) for k, _, e in ex.stores]}
    return guarded(go)


def assigned(tree, cls, fn_name, names, env):
    """execute only the statements of a function that assign / store into `names` (in order) -> final env values"""
    def go():
        fn = find(tree, cls, fn_name)
        ex = Exec(env)
        for st in fn.body:
            tgt = None
            if isinstance(st, ast.Assign) and len(st.targets) == 1:
                t = st.targets[0]
                tgt = t.id if isinstance(t, ast.Name) else t.value.id if isinstance(t, ast.Subscript) and isinstance(t.value, ast.Name) else None
            if tgt in names:
                ex.run([st])
        return {n: ex.env.get(n, U(f"{n} is never assigned in {fn_name}")) for n in names}
    r = guarded(go)
    if isinstance(r, tuple):
        return {n: r for n in names}
    return r


def irf_kernel(tree, fn_name, params):
    def go():
        fn = find(tree, None, fn_name)
        if argnames(fn) != params:
            raise Untranslatable(f"{fn_name} has parameters {argnames(fn)}")
        env = {p: ("var", p) for p in params}
        env["frequencies"] = ("var", "frequency")
        env["rates"] = ("var", "rate")
        env["erf"] = ("fn",)
        ex = Exec(env)
        r = ex.run(fn.body)
        if r is None or r[0] != "pair":
            raise Untranslatable(f"{fn_name} does not return np.concatenate((x.real, x.imag), axis=1)")
        return r
    return guarded(go)


FIELDS = ["centers", "widths", "scales", "shift"]      # positions 0..3 of what `irf.parameter(index, axis)` returns


def on_index(tree, fn_name, kernel_name, kernel_params):
    """`<fields> = irf.parameter(global_index, global_axis); for c, w, s in zip(...): matrix += kernel(...); matrix /= np.sum(...)`
    -> dict(strict, args (kernel argument expressions over the element variables), divisor field) or untranslatable"""
    def go():
        fn = find(tree, None, fn_name)
        params = argnames(fn)
        if params != ["matrix", "frequencies", "rates", "irf", "global_index", "global_axis", "model_axis"]:
            raise Untranslatable(f"{fn_name} has parameters {params}")
        body = [st for st in fn.body if not (isinstance(st, ast.Expr) and isinstance(st.value, ast.Constant))]
        if len(body) != 3:
            raise Untranslatable(f"{fn_name}: {len(body)} statements")
        un, loop, norm = body
        if not (isinstance(un, ast.Assign) and len(un.targets) == 1 and isinstance(un.targets[0], ast.Tuple) and
                ast.unparse(un.value) == "irf.parameter(global_index, global_axis)" and len(un.targets[0].elts) == 6 and
                all(isinstance(e, ast.Name) for e in un.targets[0].elts)):
            raise Untranslatable(f"unpacking of irf.parameter: {ast.unparse(un)[:80]}")
        field_of = {}
        for pos, e in enumerate(un.targets[0].elts[:4]):
            field_of[e.id] = FIELDS[pos]
        it = loop.iter if isinstance(loop, ast.For) else None
        if it is None or loop.orelse or not (isinstance(it, ast.Call) and isinstance(it.func, ast.Name) and it.func.id == "zip" and
                                             all(isinstance(a, ast.Name) for a in it.args)):
            raise Untranslatable("loop over the Gaussians")
        strict = False
        for kw in it.keywords:
            if kw.arg == "strict" and isinstance(kw.value, ast.Constant) and isinstance(kw.value.value, bool):
                strict = kw.value.value
            else:
                raise Untranslatable(f"zip keyword {kw.arg}")
        if not isinstance(loop.target, ast.Tuple) or len(loop.target.elts) != len(it.args) or \
                not all(isinstance(t, ast.Name) for t in loop.target.elts):
            raise Untranslatable("loop target")
        zipped = [field_of.get(a.id) for a in it.args]
        if sorted(z or "?" for z in zipped) != ["centers", "scales", "widths"]:
            raise Untranslatable(f"zip runs over {[a.id for a in it.args]}")
        elem = {"centers": "cws.1", "widths": "cws.2.1", "scales": "cws.2.2"}
        env = {"frequencies": ("var", "frequency"), "rates": ("var", "rate"), "model_axis": ("var", "model_axis")}
        for name, field in field_of.items():
            if field == "shift":
                env[name] = ("var", "shift")
        for t, z in zip(loop.target.elts, zipped):
            env[t.id] = ("var", elem[z])
        if len(loop.body) != 1 or not (isinstance(loop.body[0], ast.AugAssign) and isinstance(loop.body[0].op, ast.Add) and
                                       isinstance(loop.body[0].target, ast.Name) and loop.body[0].target.id == "matrix"):
            raise Untranslatable("loop body is not `matrix += kernel(...)`")
        call = loop.body[0].value
        if not (isinstance(call, ast.Call) and isinstance(call.func, ast.Name) and call.func.id == kernel_name and not call.keywords):
            raise Untranslatable(f"loop body calls {ast.unparse(call.func) if isinstance(call, ast.Call) else '?'}")
        if len(call.args) != len(kernel_params):
            raise Untranslatable(f"{len(call.args)} arguments for {kernel_name}")
        ex = Exec(env)
        args = []
        for a in call.args:
            if ast.unparse(a) == "global_axis[global_index]":
                args.append(("var", "global_axis_value"))
            else:
                args.append(ex.ev(a))
        if not (isinstance(norm, ast.AugAssign) and isinstance(norm.op, ast.Div) and isinstance(norm.target, ast.Name) and
                norm.target.id == "matrix" and isinstance(norm.value, ast.Call) and ex.np_attr(norm.value.func) == "sum" and
                len(norm.value.args) == 1 and isinstance(norm.value.args[0], ast.Name) and not norm.value.keywords):
            raise Untranslatable(f"normalisation {ast.unparse(norm)[:60]}")
        div_field = field_of.get(norm.value.args[0].id)
        if div_field not in ("centers", "widths", "scales"):
            raise Untranslatable(f"normalisation by {norm.value.args[0].id}")
        return {"strict": strict, "args": args, "div": div_field}
    return guarded(go)


def render_on_index(name, kernel_lean, spec, extra_param=""):
    sig = f"def {name} (erf : α → α) (fill frequency rate model_axis shift{extra_param} : α) (centers widths scales : List α) : α × α :=\n"
    if isinstance(spec, tuple):
        return (f"def {name}Strict : Option Bool := none\n" + sig + f"  ({render(spec)}, {render(spec)})\n")
    args = " ".join("(" + render(a) + ")" for a in spec["args"])
    return (f"def {name}Strict : Option Bool := some {'true' if spec['strict'] else 'false'}\n" + sig +
            "  let acc := (zip3 centers widths scales).foldl (fun (acc : α × α) (cws : α × α × α) =>\n"
            f"    (add acc.1 ({kernel_lean} erf {args}).1, add acc.2 ({kernel_lean} erf {args}).2)) (fill, fill)\n"
            f"  (div acc.1 (sumFrom (ofRat 0) {spec['div']}), div acc.2 (sumFrom (ofRat 0) {spec['div']}))\n")


def spectral_axis(tree):
    """`model_axis` after the spectral-axis conversion of SpectralMegacomplex.calculate_matrix:
    if inverted: model_axis = scale / model_axis  elif scale != 1: model_axis = model_axis * scale"""
    return axis_conversion(tree, "SpectralMegacomplex", "model_axis")


def axis_conversion(tree, cls, name):
    def go():
        fn = find(tree, cls, "calculate_matrix")
        for st in fn.body:
            if isinstance(st, ast.If) and isinstance(st.test, ast.Attribute) and ast.unparse(st.test) == "dataset_model.spectral_axis_inverted":
                break
        else:
            raise Untranslatable("no `if dataset_model.spectral_axis_inverted:`")
        if len(st.body) != 1 or len(st.orelse) != 1 or not isinstance(st.orelse[0], ast.If):
            raise Untranslatable("shape of the axis conversion")
        inner = st.orelse[0]
        if ast.unparse(inner.test) != "dataset_model.spectral_axis_scale != 1" or inner.orelse or len(inner.body) != 1:
            raise Untranslatable(f"second condition {ast.unparse(inner.test)}")
        out = []
        for s in (st.body[0], inner.body[0]):
            if not (isinstance(s, ast.Assign) and len(s.targets) == 1 and isinstance(s.targets[0], ast.Name) and s.targets[0].id == name):
                raise Untranslatable(f"conversion statement {ast.unparse(s)}")
            ex = Exec({name: ("var", "v"), "dataset_model": ("ds",)})
            node = ast.parse(ast.unparse(s.value).replace("dataset_model.spectral_axis_scale", "scale__")).body[0].value
            ex.env["scale__"] = ("var", "scale")
            out.append(ex.ev(node))
        return out
    r = guarded(go)
    if isinstance(r, tuple):
        return [r, r]
    return r


# ------------------------------------------------------------------------------------------
# the generated file
# ------------------------------------------------------------------------------------------
HEADER = """/- GENERATED by harness/props/_c07_translate.py from the source text of VERIF_REPO on every run — do not edit.
   Each definition is the translation of one Python function (or of the named assignments of one) into the model's
   abstract number class; `GlotaranProofs/Props/C07.lean` proves `generated_*_eq_model`: it equals the hand-written model
   definition the property theorems are about.  `untranslatable "<reason>"` marks source outside the translated subset. -/
import GlotaranModel.C07
namespace Glotaran.C07.Generated
open Glotaran.C07 RNum CNum
set_option linter.unusedVariables false

/-- source the translator could not translate (never a default value: no `generated_*_eq_model` theorem is provable about it) -/
def untranslatable {α : Type} [RNum α] (_reason : String) : α := fmod (ofRat 0) (ofRat 0)

section real
variable {α : Type} [RNum α]
"""


def render_stores3(stores):
    if isinstance(stores, tuple):
        return f"[(0, none, {render(stores)})]"
    return "[" + ",\n   ".join(f"({k}, {'none' if g is None else f'some {g}'}, {render(e)})" for k, g, e in stores) + "]"


def generate_text(repo: Path, unreadable: bool = False):
    trees, shas = {}, {}
    for key, rel in SOURCES.items():
        p = repo / rel
        try:
            if unreadable:
                raise RuntimeError("translator failed on this tree")
            src = p.read_text()
            shas[rel] = hashlib.sha1(src.encode()).hexdigest()
            trees[key] = ast.parse(src)
        except Exception as e:  # noqa: BLE001
            trees[key] = ast.parse("")
            shas[rel] = f"unreadable: {type(e).__name__}"
    out = [HEADER]
    report = {}

    def note(name, value):
        txt = repr(value)
        report[name] = "untranslatable" if "untranslatable" in txt else "translated"

    sh = trees["shape"]
    g = shape_fn(sh, "SpectralShapeGaussian", ["amplitude", "location", "width"], {"amplitude"})
    note("gaussianCalculate", g)
    out.append("/-- `SpectralShapeGaussian.calculate` -/\n"
               f"def gaussianCalculate (amplitude : Option α) (location width axis : α) : α :=\n  {render(g)}\n")
    s = shape_fn(sh, "SpectralShapeSkewedGaussian", ["amplitude", "location", "width", "skewness"], {"amplitude"},
                 parent=("SpectralShapeGaussian", "gaussianCalculate", ["amplitude", "location", "width", "axis"]))
    note("skewedCalculate", s)
    out.append("/-- `SpectralShapeSkewedGaussian.calculate` (`np.allclose(x, 0)` is `|x| <= atol`, numpy's default atol) -/\n"
               f"def skewedCalculate (amplitude : Option α) (location width skewness axis : α) : α :=\n  {render(s)}\n")
    for cls, nm in (("SpectralShapeOne", "oneCalculate"), ("SpectralShapeZero", "zeroCalculate")):
        v = shape_fn(sh, cls, [], set())
        note(nm, v)
        out.append(f"/-- `{cls}.calculate` -/\ndef {nm} (axis : α) : α :=\n  {render(v)}\n")
    try:
        types = shape_types(sh)
    except Exception:  # noqa: BLE001
        types = []
    report["shapeTypes"] = "translated" if types else "untranslatable"
    out.append("/-- `type` string of every `SpectralShape` subclass of shape.py -> the generated `calculate` it dispatches to -/\n"
               "def shapeTypes : List (String × String) :=\n  [" + ", ".join(f"({lean_str(t)}, {lean_str(n)})" for t, n in types) + "]\n")

    st = artifact_stores(trees["artifact"])
    note("artifactStores", st)
    out.append("/-- `_calculate_coherent_artifact_matrix_on_index`: (column, `some k` = stored only `if order > k`, value), in program order -/\n"
               f"def artifactStores (center width axis : α) : List (Nat × Option Nat × α) :=\n  {render_stores3(st)}\n")

    conv = spectral_axis(trees["spectral"])
    note("spectralAxis", conv)
    out.append("/-- `SpectralMegacomplex.calculate_matrix`: the model axis value `v` if `spectral_axis_inverted` / elif `spectral_axis_scale != 1` -/\n"
               f"def spectralAxisInverted (scale v : α) : α :=\n  {render(conv[0])}\n"
               f"def spectralAxisScaled (scale v : α) : α :=\n  {render(conv[1])}\n")
    conv = axis_conversion(trees["pfid"], "PFIDMegacomplex", "frequencies")
    note("pfidAxis", conv)
    out.append("/-- `PFIDMegacomplex.calculate_matrix`: the same conversion applied to the frequency parameters -/\n"
               f"def pfidAxisInverted (scale v : α) : α :=\n  {render(conv[0])}\n"
               f"def pfidAxisScaled (scale v : α) : α :=\n  {render(conv[1])}\n")

    osc = trees["osc"]
    vals = assigned(osc, "DampedOscillationMegacomplex", "calculate_matrix", ["frequency_max"], {"delta_min": ("var", "delta_min")})
    note("oscFrequencyMax", vals["frequency_max"])
    out.append("/-- `frequency_max = …` of `DampedOscillationMegacomplex.calculate_matrix` -/\n"
               f"def oscFrequencyMax (delta_min : α) : α :=\n  {render(vals['frequency_max'])}\n")
    vals = assigned(osc, "DampedOscillationMegacomplex", "calculate_matrix", ["frequencies"],
                    {"self.frequencies": ("var", "frequency"), "frequency_max": ("var", "frequency_max")})
    note("oscAngularWrapped", vals["frequencies"])
    out.append("/-- `frequencies = …; frequencies[frequencies >= frequency_max] = np.mod(…)` of the same function, per element -/\n"
               f"def oscAngularWrapped (frequency frequency_max : α) : α :=\n  {render(vals['frequencies'])}\n")
    out.append("end real\n\nsection complex\nvariable {α : Type} [CNum α]\n")

    lp = noirf_loop(osc)
    note("noIrfLoop", lp)
    if isinstance(lp, tuple):
        out.append(f"def noIrfCounter : Option (Nat × Nat) := none\n"
                   f"def noIrfStores (n idx : Nat) (frequency rate axis : α) : List (Nat × α) :=\n  [(0, {render(lp)})]\n")
    else:
        stores = "[" + ",\n   ".join(f"({k}, {render(e)})" for k, e in lp["stores"]) + "]"
        out.append("/-- `calculate_damped_oscillation_matrix_no_irf`: (initial value, increment) of the column counter -/\n"
                   f"def noIrfCounter : Option (Nat × Nat) := some ({lp['init']}, {lp['step']})\n"
                   "/-- … and the stores `(column, value)` of one iteration of `for frequency, rate in zip(frequencies, rates)` with\n"
                   "    counter value `idx`; `n` = `rates.size` -/\n"
                   f"def noIrfStores (n idx : Nat) (frequency rate axis : α) : List (Nat × α) :=\n  {stores}\n")

    k1 = irf_kernel(osc, "calculate_damped_oscillation_matrix_gaussian_irf", ["frequencies", "rates", "model_axis", "center", "width", "shift", "scale"])
    note("oscIrfKernel", k1)
    out.append("/-- `calculate_damped_oscillation_matrix_gaussian_irf`, one element (time point × oscillation): (entry of the `.real` block,\n"
               "    entry of the `.imag` block) -/\n"
               "def oscIrfKernel (erf : α → α) (frequency rate model_axis center width shift scale : α) : α × α :=\n"
               f"  {render(k1) if k1[0] == 'pair' else '(' + render(k1) + ', ' + render(k1) + ')'}\n")
    k2 = irf_kernel(trees["pfid"], "calculate_pfid_matrix_gaussian_irf",
                    ["frequencies", "rates", "model_axis", "center", "width", "shift", "scale", "global_axis_value"])
    note("pfidKernel", k2)
    out.append("/-- `calculate_pfid_matrix_gaussian_irf`, one element -/\n"
               "def pfidKernel (erf : α → α) (frequency rate model_axis center width shift scale global_axis_value : α) : α × α :=\n"
               f"  {render(k2) if k2[0] == 'pair' else '(' + render(k2) + ', ' + render(k2) + ')'}\n")
    oi = on_index(osc, "calculate_damped_oscillation_matrix_gaussian_irf_on_index", "calculate_damped_oscillation_matrix_gaussian_irf",
                  ["frequencies", "rates", "model_axis", "center", "width", "shift", "scale"])
    note("oscIrfOnIndex", oi)
    out.append("/-- `calculate_damped_oscillation_matrix_gaussian_irf_on_index`, one element: `matrix` (initially `fill`) `+=` the kernel for\n"
               "    every `(center, width, scale)` of `zip(centers, widths, scales)`, then `/= np.sum(scales)`; `…Strict` = the zip is strict -/\n"
               + render_on_index("oscIrfOnIndex", "oscIrfKernel", oi))
    oi = on_index(trees["pfid"], "calculate_pfid_matrix_gaussian_irf_on_index", "calculate_pfid_matrix_gaussian_irf",
                  ["frequencies", "rates", "model_axis", "center", "width", "shift", "scale", "global_axis_value"])
    note("pfidOnIndex", oi)
    out.append("/-- `calculate_pfid_matrix_gaussian_irf_on_index`, one element (`global_axis[global_index]` is `global_axis_value`) -/\n"
               + render_on_index("pfidOnIndex", "pfidKernel", oi, extra_param=" global_axis_value"))
    for key, cls, nm in (("osc", "DampedOscillationMegacomplex", "oscMatrixFill"), ("pfid", "PFIDMegacomplex", "pfidMatrixFill"),
                         ("artifact", "CoherentArtifactMegacomplex", "artifactMatrixFill")):
        v = assigned(trees[key], cls, "calculate_matrix", ["matrix"], {})["matrix"]
        note(nm, v)
        out.append(f"/-- initial value of `matrix` in `{cls}.calculate_matrix` -/\ndef {nm} : α :=\n  {render(v)}\n")
    out.append("end complex\n\nsection real\nvariable {α : Type} [RNum α]\n")
    v = assigned(trees["artifact"], "CoherentArtifactMegacomplex", "get_irf_parameter", ["center"],
                 {"center": ("list", "center"), "shift": ("var", "shift")})["center"]
    note("artifactCentre", v)
    out.append("/-- `center = center[0] - shift` of `CoherentArtifactMegacomplex.get_irf_parameter` -/\n"
               f"def artifactCentre (center0 shift : α) : α :=\n  {render(v)}\n")
    out.append("end real\n\nend Glotaran.C07.Generated\n")
    return "\n".join(out), shas, report


def shape_types(tree):
    """[(type string, generated function name)] for every class of shape.py that defines `type: str = "..."` and `calculate`"""
    names = {"SpectralShapeGaussian": "gaussianCalculate", "SpectralShapeSkewedGaussian": "skewedCalculate",
             "SpectralShapeOne": "oneCalculate", "SpectralShapeZero": "zeroCalculate"}
    out = []
    for n in tree.body:
        if not isinstance(n, ast.ClassDef):
            continue
        typ, has_calc = None, False
        for s in n.body:
            if isinstance(s, ast.AnnAssign) and isinstance(s.target, ast.Name) and s.target.id == "type" and \
                    isinstance(s.value, ast.Constant) and isinstance(s.value.value, str):
                typ = s.value.value
            if isinstance(s, ast.FunctionDef) and s.name == "calculate":
                has_calc = True
        if typ is not None and has_calc:
            out.append((typ, names.get(n.name, "untranslated:" + n.name)))
    return out


def generate(repo: Path, target: Path):
    try:
        text, shas, report = generate_text(repo)
    except Exception as e:  # noqa: BLE001 — never crash the check, never keep a stale file: every definition becomes untranslatable
        text, shas, report = generate_text(repo, unreadable=True)
        report["translator_error"] = f"{type(e).__name__}: {e}"
    target.parent.mkdir(parents=True, exist_ok=True)
    if not target.exists() or target.read_text() != text:
        target.write_text(text)
    return [{
        "table": "C07Fns (lean/GlotaranModel/Generated/C07Fns.lean): shape formulas, artifact store table, no-IRF loop, IRF kernels, axis conversions",
        "source": sorted(SOURCES.values()),
        "source_sha1": shas,
        "sha1": hashlib.sha1(text.encode()).hexdigest(),
        "definitions": report,
    }]
