"""C01 — translator of the two kernels' source text into the statement language of lean/GlotaranModel/C01Steps.lean.

    glotaran/optimization/variable_projection.py : residual_variable_projection  ->  Generated.vpProgram
    glotaran/optimization/nnls.py                : residual_nnls                 ->  Generated.nnlsProgram

Pure `ast` work on the source text (nothing is executed): names are resolved through the module's own imports
(`from scipy.linalg import lapack`, `import numpy as np`, `from scipy.optimize import nnls`), every call is translated together
with its operands and flags (`side`, `trans`, `lower`, `unitdiag`, `overwrite_c`, `axis`, `initial`), loops / slices that zero a
block become `zeroRange lo hi`, returns keep their order.  Whatever is not understood becomes an `untranslatable "<text>"`
node — never a default — on which the Lean interpreter is stuck, so `generated_vp_eq_model` / `generated_nnls_eq_model`
stop building and the check takes its broken-obligation path.  The translator never raises.
"""
from __future__ import annotations

import ast
from fractions import Fraction


def lean_str(s: str) -> str:
    out = []
    for ch in s:
        if ch == "\\":
            out.append("\\\\")
        elif ch == '"':
            out.append('\\"')
        elif ch == "\n":
            out.append("\\n")
        elif ch == "\t":
            out.append("\\t")
        elif ord(ch) < 32 or ord(ch) > 126:
            out.append("?")
        else:
            out.append(ch)
    return '"' + "".join(out) + '"'


def lean_rat(q: Fraction) -> str:
    if q.denominator == 1:
        return f"({q.numerator} : Rat)"
    return f"(({q.numerator} : Rat) / {q.denominator})"


class Untranslatable(Exception):
    pass


def _txt(node) -> str:
    try:
        return ast.unparse(node)[:120]
    except Exception:
        return type(node).__name__


class Translator:
    def __init__(self, module_src: str, fn_name: str):
        self.tree = ast.parse(module_src)
        self.fn_name = fn_name
        self.imports = {}          # local name -> dotted path
        for node in self.tree.body:
            if isinstance(node, ast.Import):
                for al in node.names:
                    self.imports[al.asname or al.name.split(".")[0]] = al.name if al.asname else al.name.split(".")[0]
            elif isinstance(node, ast.ImportFrom) and node.module and node.level == 0:
                for al in node.names:
                    self.imports[al.asname or al.name] = node.module + "." + al.name
        self.sizes = set()         # local names bound to integers
        self.locals = set()        # names assigned in the function (they shadow imports)

    # ---- names ---------------------------------------------------------------------------
    def dotted(self, node):
        """dotted path of a Name / Attribute chain resolved through the imports, or None"""
        parts = []
        while isinstance(node, ast.Attribute):
            parts.append(node.attr)
            node = node.value
        if not isinstance(node, ast.Name) or node.id in self.locals:
            return None
        base = self.imports.get(node.id)
        if base is None:
            return None
        return ".".join([base] + parts[::-1])

    CALLEES = {
        "scipy.linalg.lapack.dgeqrf": "dgeqrf", "scipy.linalg.lapack.dormqr": "dormqr", "scipy.linalg.lapack.dtrtrs": "dtrtrs",
        "scipy.optimize.nnls": "nnls", "scipy.optimize._nnls.nnls": "nnls",
        "numpy.abs": "abs", "numpy.absolute": "abs", "numpy.fabs": "abs",
        "numpy.max": "amax", "numpy.amax": "amax", "numpy.dot": "dot", "numpy.matmul": "dot",
        "numpy.zeros": "zeros", "numpy.array": "copy", "numpy.copy": "copy",
    }

    def callee(self, call):
        d = self.dotted(call.func)
        if d in self.CALLEES:
            return self.CALLEES[d]
        if isinstance(call.func, ast.Name) and call.func.id not in self.locals and call.func.id not in self.imports:
            if call.func.id in ("abs", "max", "range", "len"):
                return "builtin:" + call.func.id
        return None

    # ---- integer expressions ----------------------------------------------------------------
    def is_size(self, node) -> bool:
        if isinstance(node, ast.Constant):
            return isinstance(node.value, int) and not isinstance(node.value, bool)
        if isinstance(node, ast.Name):
            return node.id in self.sizes
        if isinstance(node, ast.Subscript) and isinstance(node.value, ast.Attribute) and node.value.attr == "shape":
            return True
        if isinstance(node, ast.Call) and self.callee(node) == "builtin:max" and len(node.args) == 2 and not node.keywords:
            return all(self.is_size(a) for a in node.args)
        if isinstance(node, ast.Call) and self.callee(node) == "builtin:len" and len(node.args) == 1 and isinstance(node.args[0], ast.Name):
            return True
        return False

    def size(self, node) -> str:
        if isinstance(node, ast.Constant) and isinstance(node.value, int) and not isinstance(node.value, bool) and node.value >= 0:
            return f"(.lit {node.value})"
        if isinstance(node, ast.Name) and node.id in self.sizes:
            return f"(.var {lean_str(node.id)})"
        if isinstance(node, ast.Subscript) and isinstance(node.value, ast.Attribute) and node.value.attr == "shape" \
                and isinstance(node.value.value, ast.Name) and isinstance(node.slice, ast.Constant) \
                and isinstance(node.slice.value, int) and node.slice.value >= 0:
            return f"(.shape {lean_str(node.value.value.id)} {node.slice.value})"
        if isinstance(node, ast.Call) and self.callee(node) == "builtin:len" and len(node.args) == 1 and isinstance(node.args[0], ast.Name):
            return f"(.shape {lean_str(node.args[0].id)} 0)"
        if isinstance(node, ast.Call) and self.callee(node) == "builtin:max" and len(node.args) == 2 and not node.keywords:
            return f"(.max {self.size(node.args[0])} {self.size(node.args[1])})"
        return f"(.untranslatable {lean_str(_txt(node))})"

    # ---- array expressions --------------------------------------------------------------------
    def number(self, node):
        """numeric literal (int / float, optionally negated) as an exact Fraction, or None"""
        if isinstance(node, ast.Constant) and isinstance(node.value, (int, float)) and not isinstance(node.value, bool):
            v = float(node.value)
            if v != v or v in (float("inf"), float("-inf")):
                return None
            return Fraction(v)
        if isinstance(node, ast.UnaryOp) and isinstance(node.op, ast.USub):
            q = self.number(node.operand)
            return None if q is None else -q
        return None

    def kwargs(self, call, allowed):
        kw = {}
        for k in call.keywords:
            if k.arg is None or k.arg not in allowed:
                raise Untranslatable(f"keyword {k.arg} in {_txt(call)}")
            kw[k.arg] = k.value
        return kw

    def expr(self, node) -> str:
        try:
            return self._expr(node)
        except Untranslatable as e:
            return f"(.untranslatable {lean_str(str(e))})"

    def _expr(self, node) -> str:
        q = self.number(node)
        if q is not None:
            return f"(.num {lean_rat(q)})"
        if isinstance(node, ast.Name):
            if node.id in self.sizes:
                raise Untranslatable(f"integer {node.id} used as an array")
            return f"(.var {lean_str(node.id)})"
        if isinstance(node, ast.BinOp):
            op = {ast.Div: "div", ast.Mult: "mul", ast.Sub: "sub", ast.Add: "add", ast.MatMult: "matvec"}.get(type(node.op))
            if op is None:
                raise Untranslatable(_txt(node))
            return f"(.{op} {self._expr(node.left)} {self._expr(node.right)})"
        if isinstance(node, ast.Subscript) and isinstance(node.slice, ast.Slice) and node.slice.step is None:
            lo, hi = node.slice.lower, node.slice.upper
            if lo is None and hi is not None:
                return f"(.upto {self._expr(node.value)} {self.size(hi)})"
            if hi is None and lo is not None:
                return f"(.fromN {self._expr(node.value)} {self.size(lo)})"
            if lo is not None and hi is not None:
                return f"(.upto (.fromN {self._expr(node.value)} {self.size(lo)}) (.untranslatable {lean_str(_txt(node))}))"
            return f"(.copy {self._expr(node.value)})"
        if isinstance(node, ast.Call):
            # method forms: x.max(axis=…, initial=…), x.dot(y), x.copy()
            if isinstance(node.func, ast.Attribute) and self.dotted(node.func) is None:
                recv, meth = node.func.value, node.func.attr
                if meth == "max":
                    return self.amax(recv, node, node.args)
                if meth == "dot" and len(node.args) == 1 and not node.keywords:
                    return f"(.matvec {self._expr(recv)} {self._expr(node.args[0])})"
                if meth == "copy" and not node.args and not node.keywords:
                    return f"(.copy {self._expr(recv)})"
                if meth == "astype" and len(node.args) == 1 and not node.keywords and (
                        self.dotted(node.args[0]) in ("numpy.float64", "numpy.double")
                        or (isinstance(node.args[0], ast.Name) and node.args[0].id == "float")):
                    # a conversion to double precision is a copy of the same real numbers
                    return f"(.copy {self._expr(recv)})"
                raise Untranslatable(_txt(node))
            f = self.callee(node)
            if f in ("abs", "builtin:abs") and len(node.args) == 1 and not node.keywords:
                return f"(.abs {self._expr(node.args[0])})"
            if f == "amax" and len(node.args) >= 1:
                return self.amax(node.args[0], node, node.args[1:])
            if f == "dot" and len(node.args) == 2 and not node.keywords:
                return f"(.matvec {self._expr(node.args[0])} {self._expr(node.args[1])})"
            if f == "zeros" and len(node.args) == 1:
                self.dtype_ok(node)
                return f"(.zerosN {self.size(node.args[0])})"
            if f == "copy" and len(node.args) == 1:
                self.dtype_ok(node)
                return f"(.copy {self._expr(node.args[0])})"
        raise Untranslatable(_txt(node))

    def dtype_ok(self, call):
        kw = self.kwargs(call, {"dtype"})
        if "dtype" in kw:
            d = self.dotted(kw["dtype"])
            if d not in ("numpy.float64", "numpy.double") and not (isinstance(kw["dtype"], ast.Name) and kw["dtype"].id == "float"):
                raise Untranslatable(f"dtype in {_txt(call)}")

    def amax(self, arr, call, extra_pos) -> str:
        kw = self.kwargs(call, {"axis", "initial"})
        if extra_pos:
            if len(extra_pos) > 1 or "axis" in kw:
                raise Untranslatable(_txt(call))
            kw["axis"] = extra_pos[0]
        axis = "none"
        if "axis" in kw:
            a = kw["axis"]
            if isinstance(a, ast.Constant) and a.value is None:
                axis = "none"
            elif isinstance(a, ast.Constant) and isinstance(a.value, int) and a.value >= 0:
                axis = f"(some {a.value})"
            else:
                raise Untranslatable(f"axis in {_txt(call)}")
        initial = "none"
        if "initial" in kw:
            q = self.number(kw["initial"])
            if q is None:
                raise Untranslatable(f"initial in {_txt(call)}")
            initial = f"(some {lean_rat(q)})"
        return f"(.amax {self._expr(arr)} {axis} {initial})"

    # ---- statements ---------------------------------------------------------------------------
    def flag(self, node, what) -> int:
        if isinstance(node, ast.Constant) and node.value in (0, 1, True, False):
            return int(node.value)
        raise Untranslatable(f"{what} = {_txt(node)}")

    def target_names(self, target, count, used):
        """`a, b, _, _ = f(...)`: the first `used` names, the others must be plain names too"""
        if not isinstance(target, ast.Tuple) or len(target.elts) != count or not all(isinstance(e, ast.Name) for e in target.elts):
            raise Untranslatable(f"unpacking {_txt(target)}")
        names = [e.id for e in target.elts]
        for n in names[:used]:
            self.locals.add(n)
            self.sizes.discard(n)
        return names[:used]

    def lapack_call(self, stmt, call, f) -> str:
        tgt = stmt.targets[0]
        args = list(call.args)
        if f == "dgeqrf":
            kw = self.kwargs(call, {"overwrite_a"})
            if len(args) != 1 or ("overwrite_a" in kw and self.flag(kw["overwrite_a"], "overwrite_a") != 0):
                raise Untranslatable(_txt(call))
            qr, tau = self.target_names(tgt, 4, 2)
            return f".dgeqrf {lean_str(qr)} {lean_str(tau)} {self.expr(args[0])}"
        if f == "dormqr":
            kw = self.kwargs(call, {"overwrite_c", "lwork"})
            if len(args) == 5 and "lwork" in kw:
                args.append(kw.pop("lwork"))
            if len(args) != 6 or "lwork" in kw:
                raise Untranslatable(_txt(call))
            side, trans = args[0], args[1]
            if not (isinstance(side, ast.Constant) and isinstance(side.value, str) and isinstance(trans, ast.Constant) and isinstance(trans.value, str)):
                raise Untranslatable(f"side/trans in {_txt(call)}")
            ow = self.flag(kw["overwrite_c"], "overwrite_c") if "overwrite_c" in kw else 0
            (out,) = self.target_names(tgt, 3, 1)
            return (f".dormqr {lean_str(out)} {lean_str(side.value.upper())} {lean_str(trans.value.upper())} {self.expr(args[2])} "
                    f"{self.expr(args[3])} {self.expr(args[4])} {self.size(args[5])} {'true' if ow else 'false'}")
        if f == "dtrtrs":
            kw = self.kwargs(call, {"lower", "trans", "unitdiag", "overwrite_b"})
            names = ["lower", "trans", "unitdiag"]
            if len(args) < 2 or len(args) > 5:
                raise Untranslatable(_txt(call))
            flags = {}
            for name, a in zip(names, args[2:]):
                if name in kw:
                    raise Untranslatable(_txt(call))
                flags[name] = self.flag(a, name)
            for name in names:
                if name in kw:
                    flags[name] = self.flag(kw[name], name)
            if "overwrite_b" in kw and self.flag(kw["overwrite_b"], "overwrite_b") != 0:
                raise Untranslatable(f"overwrite_b in {_txt(call)}")
            (out,) = self.target_names(tgt, 2, 1)
            return (f".dtrtrs {lean_str(out)} {self.expr(args[0])} {self.expr(args[1])} {flags.get('lower', 0)} "
                    f"{flags.get('trans', 0)} {flags.get('unitdiag', 0)}")
        if f == "nnls":
            self.kwargs(call, set())
            if len(args) != 2:
                raise Untranslatable(_txt(call))
            (out,) = self.target_names(tgt, 2, 1)
            return f".nnls {lean_str(out)} {self.expr(args[0])} {self.expr(args[1])}"
        raise Untranslatable(_txt(call))

    def returned(self, value):
        if isinstance(value, ast.Tuple):
            return "[" + ", ".join(self.expr(e) for e in value.elts) + "]"
        raise Untranslatable(f"return {_txt(value)}")

    def is_zero(self, node) -> bool:
        return self.number(node) == 0

    def stmt(self, s) -> list[str]:
        try:
            return self._stmt(s)
        except Untranslatable as e:
            return [f".untranslatable {lean_str(str(e))}"]

    def _stmt(self, s) -> list[str]:
        if isinstance(s, ast.Expr) and isinstance(s.value, ast.Constant) and isinstance(s.value.value, str):
            return []                                   # docstring
        if isinstance(s, ast.Pass):
            return []
        if isinstance(s, ast.Return) and s.value is not None:
            return [f".ret {self.returned(s.value)}"]
        if isinstance(s, ast.If) and not s.orelse and isinstance(s.test, ast.Compare) and len(s.test.ops) == 1 \
                and isinstance(s.test.ops[0], ast.Eq) and self.is_zero(s.test.comparators[0]) and len(s.body) == 1:
            left, body = s.test.left, s.body[0]
            if self.is_size(left) and isinstance(body, ast.Return) and body.value is not None:
                return [f".returnIfZero {self.size(left)} {self.returned(body.value)}"]
            if isinstance(left, ast.Name) and left.id not in self.sizes and isinstance(body, ast.Assign) and len(body.targets) == 1 \
                    and isinstance(body.targets[0], ast.Name) and body.targets[0].id == left.id:
                return [f".ifEqZeroAssign {lean_str(left.id)} {self.expr(body.value)}"]
            raise Untranslatable(_txt(s))
        if isinstance(s, ast.For) and not s.orelse and isinstance(s.target, ast.Name) and isinstance(s.iter, ast.Call) \
                and self.callee(s.iter) == "builtin:range" and not s.iter.keywords and len(s.iter.args) in (1, 2) and len(s.body) == 1:
            b = s.body[0]
            if isinstance(b, ast.Assign) and len(b.targets) == 1 and isinstance(b.targets[0], ast.Subscript) \
                    and isinstance(b.targets[0].value, ast.Name) and isinstance(b.targets[0].slice, ast.Name) \
                    and b.targets[0].slice.id == s.target.id and self.is_zero(b.value):
                lo = "(.lit 0)" if len(s.iter.args) == 1 else self.size(s.iter.args[0])
                hi = self.size(s.iter.args[-1])
                return [f".zeroRange {lean_str(b.targets[0].value.id)} {lo} {hi}"]
            raise Untranslatable(_txt(s))
        if isinstance(s, ast.AugAssign) and isinstance(s.target, ast.Name) and isinstance(s.op, (ast.Mult, ast.Div)):
            return [f".{'augMul' if isinstance(s.op, ast.Mult) else 'augDiv'} {lean_str(s.target.id)} {self.expr(s.value)}"]
        if isinstance(s, ast.Assign) and len(s.targets) == 1:
            t = s.targets[0]
            if isinstance(s.value, ast.Call) and self.callee(s.value) in ("dgeqrf", "dormqr", "dtrtrs", "nnls"):
                return [self.lapack_call(s, s.value, self.callee(s.value))]
            if isinstance(t, ast.Name):
                if self.is_size(s.value):
                    text = f".assignSize {lean_str(t.id)} {self.size(s.value)}"
                    self.sizes.add(t.id)
                    self.locals.add(t.id)
                    return [text]
                text = f".assign {lean_str(t.id)} {self.expr(s.value)}"
                self.sizes.discard(t.id)
                self.locals.add(t.id)
                return [text]
            if isinstance(t, ast.Subscript) and isinstance(t.value, ast.Name):
                x = t.value.id
                sl = t.slice
                if isinstance(sl, ast.Slice) and sl.step is None and self.is_zero(s.value):
                    lo = "(.lit 0)" if sl.lower is None else self.size(sl.lower)
                    hi = f"(.shape {lean_str(x)} 0)" if sl.upper is None else self.size(sl.upper)
                    return [f".zeroRange {lean_str(x)} {lo} {hi}"]
                if isinstance(sl, ast.Compare) and len(sl.ops) == 1 and isinstance(sl.ops[0], ast.Eq) and isinstance(sl.left, ast.Name) \
                        and sl.left.id == x and self.is_zero(sl.comparators[0]):
                    return [f".maskedEqZeroAssign {lean_str(x)} {self.expr(s.value)}"]
        raise Untranslatable(_txt(s))

    def program(self) -> str:
        fn = None
        for node in self.tree.body:
            if isinstance(node, ast.FunctionDef) and node.name == self.fn_name:
                fn = node
        if fn is None:
            return f'{{ params := [], body := [.untranslatable {lean_str("function " + self.fn_name + " not found")}] }}'
        a = fn.args
        if a.vararg or a.kwarg or a.kwonlyargs or a.posonlyargs or a.defaults:
            return f'{{ params := [], body := [.untranslatable {lean_str("signature of " + self.fn_name)}] }}'
        params = [x.arg for x in a.args]
        self.locals.update(params)
        body = []
        for s in fn.body:
            body += self.stmt(s)
        return ("{ params := [" + ", ".join(lean_str(p) for p in params) + "],\n    body := [\n      "
                + ",\n      ".join(body) + "] }")


def translate(module_src: str, fn_name: str) -> str:
    """Lean term of type `Steps.Program`; never raises"""
    try:
        return Translator(module_src, fn_name).program()
    except Exception as e:       # a syntax error, an ast shape this code did not foresee, …
        return f'{{ params := [], body := [.untranslatable {lean_str("translator: " + type(e).__name__ + ": " + str(e)[:100])}] }}'
