"""C06 — labelled outputs follow their labels: declaration order and composition."""
from __future__ import annotations

import copy
import hashlib
import itertools
import json
import math
from fractions import Fraction

import numpy as np

from harness import core, gen_scheme
from harness.props import _c06_extract as ex
from harness.props import _c06_fin as fin
from harness.props import _c06_models as M

PROP = "C06"
REQUIRED_THEOREMS = [
    "combine_entry",
    "combine_shaped",
    "combine_comm_by_label",
    "combine_labels_perm",
    "combine_promote",
    "entry_absent_label",
    "datasetMatrix_entry",
    "datasetMatrix_perm",
    "datasetMatrix_labels_perm",
    "datasetMatrix_labels_nodup",
    "datasetMatrix_labels_mem",
    "reorder_mulVec",
    "ls_perm_equivariant",
    "ls_fit_unique",
    "fit_unchanged_under_permutation",
    "tablesDataset_entry",
    "osc_contribution",
    "selectCols_keyerror",
    "compartment_pairs_perm",
    "selectCols_spec",
    "species_concentration_by_label",
    "allSpecies_nodup",
    "allSpecies_mem",
    "oscLabels_nodup",
    "osc_columns_match_labels",
    "osc_perm_by_label",
    "osc_old_kernel_counterexample",
    "spectral_columns_match_labels",
    "spectral_perm_by_label",
    "artifact_columns_match_labels",
    "getCompartments_perm",
    "compartment_initial_concentration_paired",
    "involved_mem",
    "decay_path_order_dependent_counterexample",
    "isSequential_perm_invariant_partial",
    # wave 3: full models, regenerated label tables, linked groups (and helpers that were public before)
    "datasetMatrix_shaped",
    "lsExact_isNormalSol",
    "entry_eq_slice",
    "artifactLabel_inj",
    "baseline_guide_labels",
    "compartment_normalized_concentration_paired",
    "normSum_perm",
    "ls_perm_equivariant_by",
    "fit_unchanged_under_permutation_by",
    "global_matrix_entry",
    "full_matrix_entry",
    "full_model_perm",
    "full_clp_by_label",
    "full_clp_keyerror",
    "full_model_fit_perm",
    "generated_osc_labels",
    "generated_osc_table",
    "osc_columns_match_labels_generated",
    "generated_spectral_table",
    "spectral_columns_match_labels_generated",
    "generated_artifact_table",
    "artifact_columns_match_labels_generated",
    "generated_baseline_guide_tables",
    "generated_decay_labels",
    "generated_osc_selections",
    "generated_artifact_baseline_selections",
    "unionLabels_perm",
    "linked_clps_by_label",
    "alignMatrices_perm",
    "linked_fit_perm",
    # deepening: finalize_data regenerated from the source text (Generated/C06Fin.lean)
    "generated_finalize_eq_model_osc",
    "generated_finalize_eq_model_pfid",
    "generated_finalize_eq_model_artifact",
    "generated_finalize_eq_model_spectral",
    "generated_finalize_eq_model_baseline_guide",
    "generated_finalize_eq_model_decay_global",
    "generated_decay_delegations",
]
TRUSTED = [
    "hand-written model lean/GlotaranModel/C06.lean (on top of C02.lean: combine, datasetMatrix) of "
    "MatrixProvider.combine_megacomplex_matrices / calculate_dataset_matrix, of the clp-label lists and column fill orders "
    "of the builtin megacomplexes, of the decay bookkeeping (KMatrix.involved_compartments / combine / reduced / full / "
    "is_sequential, InitialConcentration.normalized, get_compartments, get_initial_concentration) and of the selection of "
    "result variables by label; tied to the code by differential execution",
    "single-column reference computations of the harness: closed forms for the oscillation without IRF, the coherent "
    "artifact and the baseline; for IRF-convolved columns the real kernels on a one-component megacomplex (their numerics "
    "are C05/C07's subject)",
    "xarray label-based selection (.sel) and alignment; numpy; scipy.special.erf (closed form of the IRF-convolved oscillation); "
    "LAPACK least squares (fit comparisons are skipped when the matrix is ill-conditioned)",
    "translator harness/props/_c06_extract.py (ast pattern recogniser): label expressions of calculate_matrix, column stores of the "
    "oscillation / artifact / spectral kernels and the clp_label selections of finalize_data are regenerated into "
    "lean/GlotaranModel/Generated/C06.lean on every run; cross-checked on every pipeline case by the `gen` operations of the driver",
    "translator harness/props/_c06_fin.py (symbolic execution of the finalize_data functions over ast: tracked arrays with named "
    "dimensions, label lists, loops with column stores, np.unwrap axis resolution, inlined helpers) regenerating "
    "lean/GlotaranModel/Generated/C06Fin.lean on every run; cross-checked on every result dataset by `fin gen` vs `fin model` and by "
    "evaluating the model's by-label descriptors on the real result with xarray's label lookup",
]
ASSUMPTIONS = [
    "labels of one megacomplex are distinct; oscillation labels/frequencies/rates have equal lengths (the model validator "
    "demands it)",
    "permuting a decay-sequential megacomplex's compartments or the k_matrix list of a decay megacomplex whose K-matrices "
    "overlap changes what the labels denote (chain position, documented overwrite) and is not a declaration-order permutation",
    "decay_associated_spectra / a_matrix / rate / lifetime are indexed by a component *number*; components are matched by rate",
    "twins whose difference is caused by KMatrix.is_sequential misclassifying a scheme (D4, property C04) are classified "
    "separately (known finding)",
    "full models: the global matrix is index independent (2-D); clps of a rank-deficient Kronecker matrix are not compared (not unique)",
]
RULE = (
    "nine streams. (F) full models on table megacomplexes, exact regime: 1-3 megacomplexes (2-D / 3-D) x 1-3 global megacomplexes "
    "with shared labels, labels occurring on both sides, scales, optional weights, well conditioned by construction: one-evaluation "
    "optimize() against the model's full-model path (global matrix, matrix, full matrix by label pair, exact least-squares clps read "
    "with fullClpAt, residual) and against the by-label statement (scaled sums, fitted data recomposed over all label pairs, "
    "orthogonality); twins over every order of the global megacomplexes x every order of their labels, model side sampled (thorough: "
    "all when <= 60). (G) builtin full models (decay-type x spectral(+baseline), spectral x decay-type; IRF none / gaussian / shift / "
    "dispersion): matrix and global_matrix by label = dataset matrices of the two half datasets, both halves through (C), permuted twin. "
    "(I) every builtin type with 1, 2, 3 components on every run: real labels and columns vs hand-written table vs table evaluated from "
    "the regenerated descriptors. (L) linked groups of 2-3 datasets with partly shared labels: every dataset order (quick: 2 sampled of "
    "the 5 non-identity orders of three datasets). (A) combine_megacomplex_matrices on integer matrices: every ordered pair of label lists over a pool "
    "(quick: 3 labels, lists <= 3; thorough: 4 labels, lists <= 4) x the four rank combinations 2-D/3-D, plus random shapes, with "
    "probes of the model's by-label reader on the real result (present / absent labels, in- and out-of-range index and row); "
    "(B) calculate_dataset_matrix with 1-3 table megacomplexes, <= 4 labels each, scales, 2-D/3-D mix: every permutation of the "
    "megacomplex order and sampled (thorough: all) permutations of the label order inside each megacomplex; (C) every builtin "
    "megacomplex type (decay, decay-sequential, decay-parallel, damped-oscillation, pfid, spectral, baseline, coherent-artifact, "
    "clp-guide) with IRF none / gaussian / multi-gaussian / shift / dispersion, alone and combined (1-3 per dataset, shared "
    "labels, megacomplex scales): label table and every column against the Lean model (columns recomputed alone from the "
    "label's own parameters), decay bookkeeping (compartments, initial concentration, K full/reduced, is_sequential), the model's "
    "combination of the real megacomplex matrices and the model's whole chain tables -> column placement -> scaled combination "
    "against the real dataset matrix; (E) every permutation of 3 (thorough 4) declared labels for each permutable type with and "
    "without IRF and every order of 3 megacomplexes, matrices compared by label; (D) permuted twins of (C) on the real code "
    "(compartments, K-matrix entries and lists, oscillations, shapes, megacomplexes with scales, datasets, model sections): "
    "matrices and all result variables, clps, residual, chi-square, parameters of a one-evaluation fit compared by label, "
    "labelled result variables checked against the matrix / clp column of the same label, and their selection against the model. "
    "General decay schemes are drawn with real, separated eigenvalues. non-trivial = at least two labels or two megacomplexes "
    "involved; distinct = distinct input"
)
RTOL = 1e-9
GEN_FILE = core.LEAN / "GlotaranModel" / "Generated" / "C06.lean"
FIN_FILE = core.LEAN / "GlotaranModel" / "Generated" / "C06Fin.lean"


def generate(ck):
    """regenerate lean/GlotaranModel/Generated/C06.lean from the source text of VERIF_REPO"""
    labels, fills, sels, calls = ex.extract_all(core.REPO)
    text = ex.render(labels, fills, sels, calls)
    GEN_FILE.parent.mkdir(parents=True, exist_ok=True)
    if not GEN_FILE.exists() or GEN_FILE.read_text() != text:
        GEN_FILE.write_text(text)
    unknown = [k for k, v in list(labels.items()) + list(fills.items()) if v[0] == "unknown"]
    tables, untracked = fin.extract_all(core.REPO)
    ftext = fin.render(tables, fin.delegations(core.REPO))
    if not FIN_FILE.exists() or FIN_FILE.read_text() != ftext:
        FIN_FILE.write_text(ftext)
    return [{
        "table": "finalize_data of every builtin megacomplex, executed symbolically: result variable, dimensions, label list, "
                 "per-label expression over columns selected by label (lean/GlotaranModel/Generated/C06Fin.lean)",
        "source": sorted(fin.source_sha1(core.REPO)),
        "source_sha1": fin.source_sha1(core.REPO),
        "sha1": hashlib.sha1(ftext.encode()).hexdigest(),
        "functions": sorted(tables),
        "untranslatable": fin.untranslatable_in(tables),
        "writes_not_derived_from_a_tracked_array": untracked,
    }, {
        "table": "label expressions of calculate_matrix, column fill patterns of the kernels, labels selected by finalize_data "
                 "(lean/GlotaranModel/Generated/C06.lean)",
        "source": sorted(ex.source_sha1(core.REPO)),
        "source_sha1": ex.source_sha1(core.REPO),
        "sha1": hashlib.sha1(text.encode()).hexdigest(),
        "label_expressions": sorted(labels), "fill_descriptors": sorted(fills),
        "not_recognised": unknown,
    }]


# ======================================================================================================
# small helpers
# ======================================================================================================
def frac_mat(m):
    return core.lst(core.rats(r) for r in m)


def lmat_tree(labels, matrix):
    a = np.asarray(matrix, dtype=np.float64)
    if a.ndim == 3:
        body = core.lst(["d3", core.lst(frac_mat(s) for s in a.tolist())])
    else:
        body = core.lst(["d2", frac_mat(a.tolist())])
    return core.lst([core.strs(labels), body])


def parse_lm(ans):
    """'lm [labels] [d2,[[..]]]' -> (labels, ndarray of Fractions as object) ; None for anything else"""
    if not ans.startswith("lm "):
        return None
    t = core.parse_tree(ans[3:])
    labels = [core.dec(x) for x in t[0]]
    kind, body = t[1][0], t[1][1]
    if kind == "d2":
        arr = [[Fraction(x) for x in row] for row in body]
    else:
        arr = [[[Fraction(x) for x in row] for row in sl] for sl in body]
    return labels, kind, arr


def frac_cols(labels, kind, arr):
    """{label: column as nested lists of Fractions}: 2-D -> [rows], 3-D -> [idx][rows] (first occurrence of a label)"""
    out = {}
    for j, l in enumerate(labels):
        if l in out:
            continue
        if kind == "d2":
            out[l] = [row[j] if j < len(row) else Fraction(0) for row in arr]
        else:
            out[l] = [[row[j] if j < len(row) else Fraction(0) for row in sl] for sl in arr]
    return out


def np_cols(labels, matrix):
    a = np.asarray(matrix, dtype=np.float64)
    out = {}
    for j, l in enumerate(labels):
        if l not in out:
            out[l] = a[..., j]
    return out


def exact_equal(fr, col):
    """nested Fractions == ndarray of doubles, exactly"""
    a = np.asarray(col, dtype=np.float64)
    f = np.array(fr, dtype=object)
    if f.shape != a.shape:
        return False
    return all(Fraction(float(x)) == y for x, y in zip(a.ravel().tolist(), f.ravel().tolist()))


def close(a, b, rtol=RTOL):
    a, b = np.asarray(a, dtype=np.float64), np.asarray(b, dtype=np.float64)
    if a.shape != b.shape:
        return False
    if a.size == 0:
        return True
    if not (np.all(np.isfinite(a)) and np.all(np.isfinite(b))):
        return bool(np.array_equal(np.isnan(a), np.isnan(b)) and np.allclose(np.nan_to_num(a), np.nan_to_num(b), rtol=rtol, atol=rtol))
    scale = max(1.0, float(np.max(np.abs(a))), float(np.max(np.abs(b))))
    return bool(np.max(np.abs(a - b)) <= rtol * scale)


class Batch:
    """protocol lines for the Lean driver with a judge per job"""

    def __init__(self):
        self.jobs = []

    def add(self, lines, judge):
        self.jobs.append((lines, judge))

    def flush(self, ck):
        if not self.jobs:
            return
        lines = [l for job in self.jobs for l in job[0]]
        ans = core.lean_driver(PROP, lines)
        pos = 0
        for jl, judge in self.jobs:
            a = ans[pos:pos + len(jl)]
            pos += len(jl)
            bad = [l for l, x in zip(jl, a) if x in ("bad-op", "bad-line")]
            if bad:
                raise core.HarnessError(f"model rejected a protocol line: {bad[0][:200]}")
            judge(a)
        self.jobs = []


# ======================================================================================================
# stream A — combine_megacomplex_matrices on integer matrices
# ======================================================================================================
def real_combine(left, right):
    from glotaran.optimization.matrix_provider import MatrixProvider

    labels, mat = MatrixProvider.combine_megacomplex_matrices(
        np.array(left["matrix"], dtype=np.float64), np.array(right["matrix"], dtype=np.float64),
        list(left["labels"]), list(right["labels"]))
    return list(labels), np.asarray(mat)


def statement_combine(left, right):
    """the statement: per label the sum of the columns (2-D broadcast over the index), labels = union"""
    la, lb = np.asarray(left["matrix"], dtype=object), np.asarray(right["matrix"], dtype=object)
    n_idx = la.shape[0] if la.ndim == 3 else (lb.shape[0] if lb.ndim == 3 else None)

    def col(side, mat, l):
        if l not in side["labels"]:
            return None
        c = mat[..., side["labels"].index(l)]
        if n_idx is not None and c.ndim == 1:
            c = np.stack([c] * n_idx)
        return c

    out = {}
    for l in list(left["labels"]) + list(right["labels"]):
        if l in out:
            continue
        a, b = col(left, la, l), col(right, lb, l)
        out[l] = a if b is None else (b if a is None else a + b)
    return out


def det_matrix(side, labels, n_rows, n_idx):
    """deterministic integer matrix whose entries identify (side, index, row, label)"""
    def e(i, r, l):
        return float((side + 1) * 1000 + i * 100 + r * 10 + (ord(l[-1]) % 7) + 1)
    if n_idx is None:
        return [[e(0, r, l) for l in labels] for r in range(n_rows)]
    return [[[e(i + 1, r, l) for l in labels] for r in range(n_rows)] for i in range(n_idx)]


def check_combine(ck, batch, left, right, tag):
    case = {"kind": "combine", "left": left, "right": right}
    try:
        rl, rm = real_combine(left, right)
    except Exception as e:
        ck.violation("combine-raises:" + type(e).__name__, f"combine_megacomplex_matrices raised {type(e).__name__}: {e}", case)
        return
    ck.case(("combine", json.dumps(case, sort_keys=True)), len(set(left["labels"]) | set(right["labels"])) >= 2)
    ck.count("A:" + tag)
    ranks = ("3" if np.asarray(left["matrix"]).ndim == 3 else "2") + ("3" if np.asarray(right["matrix"]).ndim == 3 else "2")
    ck.count("A:ranks=" + ranks)
    shared = len(set(left["labels"]) & set(right["labels"]))
    ck.count(f"A:shared-labels={min(shared, 3)}")
    # oracle: the statement
    ck.oracle_evals += 1
    want = statement_combine(left, right)
    got = np_cols(rl, rm)
    if len(set(rl)) != len(rl) or set(rl) != set(want):
        ck.violation(f"combine-labels:ranks={ranks}", f"combined labels {rl} are not the duplicate-free union of {left['labels']} and {right['labels']}", case)
    else:
        for l in rl:
            w = np.asarray(want[l], dtype=np.float64)
            if got[l].shape != w.shape or not np.array_equal(got[l], w):
                ck.violation(f"combine-column:ranks={ranks}", f"column under label {l!r} is not the sum of the columns the two "
                             f"megacomplexes contribute under {l!r}", {**case, "label": l, "observed": got[l].tolist(), "required": w.tolist()})
                break

    def judge(ans):
        m = parse_lm(ans[0])
        if m is None:
            ck.disagree("combine-model-answer", f"model answered {ans[0][:80]!r}", case)
            return
        ml, kind, arr = m
        if sorted(ml) != sorted(rl) or (kind == "d3") != (rm.ndim == 3):
            ck.disagree("combine-labels", f"labels/rank differ: implementation {rl} ndim={rm.ndim}, model {ml} {kind}", case)
            return
        fc = frac_cols(ml, kind, arr)
        for l in rl:
            if not exact_equal(fc[l], got[l]):
                ck.disagree("combine-column", f"column under {l!r} differs between implementation and model", {**case, "label": l})
                return
        if ml != rl:
            ck.diagnostic("label order differs (by-label content equal)", {**case, "impl": rl, "model": ml})

    lines = [f"combine {lmat_tree(left['labels'], left['matrix'])} {lmat_tree(right['labels'], right['matrix'])}"]
    # the model's by-label reader `entry` (the function the theorems are stated with) on the REAL combined matrix
    probes = []
    if rl and len(set(rl)) == len(rl) and rm.size:
        n_idx = rm.shape[0] if rm.ndim == 3 else 1
        n_rows = rm.shape[-2]
        for l in [rl[0], rl[-1], "absent-label"]:
            for i, r in ((0, 0), (n_idx - 1, n_rows - 1), (n_idx, 0), (0, n_rows)):
                if rm.ndim == 2:
                    real = float(rm[r, rl.index(l)]) if (l in rl and r < n_rows) else 0.0
                else:
                    real = float(rm[i, r, rl.index(l)]) if (l in rl and i < n_idx and r < n_rows) else 0.0
                probes.append((l, i, r, real))
        tree = lmat_tree(rl, rm)
        lines += [f"entry {tree} {core.enc(l)} {i} {r}" for l, i, r, _ in probes]
    inner = judge

    def judge_all(ans):
        inner(ans[:1])
        for (l, i, r, real), a in zip(probes, ans[1:]):
            ck.count("A:entry-probes")
            if not a.startswith("rat ") or Fraction(a[4:]) != Fraction(real):
                ck.disagree("entry-reader", f"entry under {l!r} at index {i}, row {r} of the real combined matrix: by-label reading "
                            f"{real}, model `entry` {a}", case)
                return
    batch.add(lines, judge_all)


def label_lists(pool, maxlen):
    out = [[]]
    for k in range(1, maxlen + 1):
        out += [list(p) for p in itertools.permutations(pool, k)]
    return out


def stream_combine(ck, batch):
    pool = ["s1", "s2", "s3"] if ck.quick else ["s1", "s2", "s3", "s10"]
    lists = label_lists(pool, 3 if ck.quick else 4)
    n_rows, n_idx = 2, 2
    for la in lists:
        for lb in lists:
            if not la and not lb:
                continue
            for ra, rb in ((None, None), (n_idx, None), (None, n_idx), (n_idx, n_idx)):
                left = {"labels": la, "matrix": det_matrix(0, la, n_rows, ra)}
                right = {"labels": lb, "matrix": det_matrix(1, lb, n_rows, rb)}
                if not la:
                    left["matrix"] = np.zeros((n_rows, 0) if ra is None else (ra, n_rows, 0)).tolist()
                if not lb:
                    right["matrix"] = np.zeros((n_rows, 0) if rb is None else (rb, n_rows, 0)).tolist()
                check_combine(ck, batch, left, right, "exhaustive")
        if len(batch.jobs) > 4000:
            batch.flush(ck)
    batch.flush(ck)
    ck.extra["combine_exhaustive"] = {"label_pool": pool, "max_labels_per_side": 3 if ck.quick else 4,
                                      "ordered_label_lists": len(lists), "rank_combinations": 4}
    rng = ck.rng
    big = ["s1", "s2", "s3", "s4", "s10", "s1a", "a b", "é"]
    for _ in range(ck.n(150, 3000)):
        rows, idx = rng.randint(1, 5), rng.randint(1, 4)
        sides = []
        for side in range(2):
            labels = rng.sample(big, rng.randint(0, 5))
            r = idx if rng.random() < 0.5 else None
            shape = (rows, len(labels)) if r is None else (r, rows, len(labels))
            mat = np.array([float(rng.randint(-9, 9)) * rng.choice([1.0, 0.5, 0.25]) for _ in range(int(np.prod(shape)))]).reshape(shape)
            sides.append({"labels": labels, "matrix": mat.tolist()})
        if not sides[0]["labels"] and not sides[1]["labels"]:
            continue
        check_combine(ck, batch, sides[0], sides[1], "random")
    batch.flush(ck)


# ======================================================================================================
# stream B — calculate_dataset_matrix with table megacomplexes: permutations of megacomplexes and labels
# ======================================================================================================
_TABLE_N = [0]


def real_table_dataset_matrix(mcs, n_rows, n_idx):
    """mcs: [{labels, base (2-D or 3-D), scale float|None}] -> (labels, ndarray) via the real provider"""
    from glotaran.model import fill_item
    from glotaran.optimization.matrix_provider import MatrixProvider
    from glotaran.parameter import Parameters

    cls = gen_scheme.model_class()
    keys = []
    for mc in mcs:
        _TABLE_N[0] += 1
        key = f"c06#{_TABLE_N[0]}"
        gen_scheme.TABLES[key] = {"labels": list(mc["labels"]), "base": mc["base"]}
        keys.append(key)
    try:
        ds = {"megacomplex": keys}
        if any(mc.get("scale") is not None for mc in mcs):
            ds["megacomplex_scale"] = [f"sc.{i + 1}" for i in range(len(mcs))]
        model = cls(megacomplex={k: {"type": "verif-table", "key": k} for k in keys}, dataset={"d": ds})
        pars = Parameters.from_dict({"sc": [[str(i + 1), float(mc["scale"] if mc.get("scale") is not None else 1.0),
                                            {"vary": False, "non-negative": False}] for i, mc in enumerate(mcs)]})
        dm = fill_item(model.dataset["d"], model, pars)
        out = MatrixProvider.calculate_dataset_matrix(dm, np.arange(n_idx, dtype=np.float64), np.arange(n_rows, dtype=np.float64))
        return list(out.clp_labels), np.asarray(out.matrix)
    finally:
        for k in keys:
            gen_scheme.TABLES.pop(k, None)


def statement_dataset(mcs, n_idx):
    """per label: sum over megacomplexes of scale * column (exact Fractions), 2-D broadcast when any is 3-D"""
    any3 = any(np.asarray(mc["base"]).ndim == 3 for mc in mcs)
    out = {}
    for mc in mcs:
        base = np.asarray(mc["base"], dtype=np.float64)
        sc = Fraction(float(mc["scale"])) if mc.get("scale") is not None else Fraction(1)
        for j, l in enumerate(mc["labels"]):
            c = base[..., j]
            if any3 and c.ndim == 1:
                c = np.stack([c] * n_idx)
            f = np.vectorize(lambda x: Fraction(float(x)) * sc, otypes=[object])(c)
            out[l] = f if l not in out else out[l] + f
    return out, any3


def mc_line(mc):
    base = np.asarray(mc["base"], dtype=np.float64)
    body = core.lst(["d3", core.lst(frac_mat(s) for s in base.tolist())]) if base.ndim == 3 else core.lst(["d2", frac_mat(base.tolist())])
    return core.lst([core.strs(mc["labels"]), body, core.rat(float(mc["scale"])) if mc.get("scale") is not None else "none"])


def permute_table_mcs(mcs, order, label_perms):
    out = []
    for k in order:
        mc = mcs[k]
        p = label_perms[k]
        base = np.asarray(mc["base"], dtype=np.float64)
        out.append({"labels": [mc["labels"][i] for i in p], "base": base[..., list(p)].tolist(), "scale": mc.get("scale")})
    return out


def check_table_dataset(ck, batch, mcs, n_rows, n_idx, tag, reference=None):
    """one declaration order; `reference` = by-label columns of another order of the same model (twin)"""
    case = {"kind": "table-dataset", "mcs": mcs, "n_rows": n_rows, "n_idx": n_idx}
    try:
        rl, rm = real_table_dataset_matrix(mcs, n_rows, n_idx)
    except Exception as e:
        ck.violation("dataset-matrix-raises:" + type(e).__name__, f"calculate_dataset_matrix raised {type(e).__name__}: {e}", case)
        return None
    n_labels = len({l for mc in mcs for l in mc["labels"]})
    ck.case(("table", json.dumps(case, sort_keys=True)), n_labels >= 2 or len(mcs) >= 2)
    ck.count("B:" + tag)
    ck.count(f"B:megacomplexes={len(mcs)}")
    ck.count("B:scaled" if any(mc.get("scale") is not None for mc in mcs) else "B:unscaled")
    want, any3 = statement_dataset(mcs, n_idx)
    ck.count("B:rank=3" if any3 else "B:rank=2")
    got = np_cols(rl, rm)
    ck.oracle_evals += 1
    if len(set(rl)) != len(rl) or set(rl) != set(want):
        ck.violation("dataset-labels", f"labels {rl} are not the duplicate-free union of the megacomplex labels", case)
        return None
    if (rm.ndim == 3) != any3:
        ck.violation("dataset-rank", f"matrix has {rm.ndim} dimensions", case)
        return None
    for l in rl:
        w = want[l]
        if w.shape != got[l].shape or not all(Fraction(float(x)) == y for x, y in zip(got[l].ravel().tolist(), w.ravel().tolist())):
            ck.violation("dataset-column-not-scaled-sum", f"column under {l!r} is not the sum of the megacomplex-scaled columns "
                         f"contributed under {l!r}", {**case, "label": l, "observed": got[l].tolist(),
                                                        "required": [float(x) for x in w.ravel().tolist()]})
            return None
    if reference is not None:
        for l in rl:
            if l not in reference or not np.array_equal(reference[l], got[l]):
                ck.violation("dataset-twin-differs", f"column under {l!r} changes with the declaration order", {**case, "label": l})
                return None

    def judge(ans):
        m = parse_lm(ans[0])
        if m is None:
            ck.disagree("dataset-model-answer", f"model answered {ans[0][:80]!r}", case)
            return
        ml, kind, arr = m
        if sorted(ml) != sorted(rl) or (kind == "d3") != (rm.ndim == 3):
            ck.disagree("dataset-labels", f"labels/rank differ: implementation {rl} ndim={rm.ndim}, model {ml} {kind}", case)
            return
        fc = frac_cols(ml, kind, arr)
        for l in rl:
            if not exact_equal(fc[l], got[l]):
                ck.disagree("dataset-column", f"column under {l!r} differs between implementation and model", {**case, "label": l})
                return
        if ml != rl:
            ck.diagnostic("label order differs (by-label content equal)", {**case, "impl": rl, "model": ml})

    batch.add([f"dsmatrix {core.lst(mc_line(mc) for mc in mcs)}"], judge)
    return got


def rand_table_mcs(rng, n_mc, n_rows, n_idx, pool):
    mcs = []
    for _ in range(n_mc):
        labels = rng.sample(pool, rng.randint(1, min(4, len(pool))))
        three = rng.random() < 0.4
        shape = (n_idx, n_rows, len(labels)) if three else (n_rows, len(labels))
        base = np.array([float(rng.randint(-6, 9)) * rng.choice([1.0, 1.0, 0.5]) for _ in range(int(np.prod(shape)))]).reshape(shape)
        scale = rng.choice([None, None, 2.0, 0.5, 3.0, -1.0, 0.25])
        mcs.append({"labels": labels, "base": base.tolist(), "scale": scale})
    if any(mc["scale"] is not None for mc in mcs):
        for mc in mcs:
            if mc["scale"] is None:
                mc["scale"] = 1.0
    return mcs


def stream_table_datasets(ck, batch):
    rng = ck.rng
    pool = ["s1", "s2", "s3", "s4", "s10", "s1_cos"]
    n_cfg = ck.n(14, 60)
    full_label_perms = not ck.quick
    for ci in range(n_cfg):
        n_mc = [1, 2, 3][ci % 3]
        n_rows, n_idx = rng.randint(2, 4), rng.randint(2, 3)
        mcs = rand_table_mcs(rng, n_mc, n_rows, n_idx, pool)
        base_cols = None
        label_perm_sets = [list(itertools.permutations(range(len(mc["labels"])))) for mc in mcs]
        all_label_perms = list(itertools.product(*label_perm_sets))
        if not full_label_perms or len(all_label_perms) > 600:
            chosen = [tuple(tuple(range(len(mc["labels"]))) for mc in mcs)] + rng.sample(all_label_perms, min(len(all_label_perms), 5))
        else:
            chosen = all_label_perms
        for order in itertools.permutations(range(n_mc)):
            for lp in chosen:
                twin = permute_table_mcs(mcs, order, lp)
                got = check_table_dataset(ck, batch, twin, n_rows, n_idx, "permutation", reference=base_cols)
                if base_cols is None:
                    base_cols = got
        if ci < 2:
            ck.sample({"stream": "B", "mcs": mcs})
        if len(batch.jobs) > 2000:
            batch.flush(ck)
    batch.flush(ck)
    ck.extra["table_dataset_enumeration"] = {"configurations": n_cfg, "megacomplex_orders": "all (<= 3!)",
                                             "label_orders": "all (<= 4! per megacomplex)" if full_label_perms else "identity + 5 sampled per configuration"}


# ======================================================================================================
# stream C — builtin megacomplexes: label tables, columns by descriptor, decay bookkeeping
# ======================================================================================================
def _filled(spec):
    from glotaran.model import fill_item

    model, parameters, _ = M.build(spec)
    return model, parameters, {label: fill_item(model.dataset[label], model, parameters) for label, _ in spec["dataset"]}


def _val(spec, p):
    return float(spec["parameters"][p])


class RefError(Exception):
    """the real code does not produce what a single-component reference computation needs"""


class RefColumns:
    """independent single-column computations (cached per dataset context)"""

    def __init__(self, spec, dlabel, dm):
        self.spec, self.dlabel, self.dm = spec, dlabel, dm
        self.d = dict(spec["dataset"])[dlabel]
        self.t = np.array(self.d["model_axis"], dtype=np.float64)
        self.g = np.array(self.d["global_axis"], dtype=np.float64)
        self.cache = {}

    # a one-megacomplex copy of the dataset (same axes, irf, parameters)
    def _alone(self, mc_entry, extra_params=None, ic=None):
        s = copy.deepcopy(self.spec)
        s["megacomplex"] = [["ref", mc_entry]]
        d = copy.deepcopy(self.d)
        d["megacomplex"], d["megacomplex_scale"] = ["ref"], None
        d["global_megacomplex"], d["global_megacomplex_scale"] = None, None
        if ic is not None:
            d["initial_concentration"] = ic
        s["dataset"] = [[self.dlabel, d]]
        for k, v in (extra_params or {}).items():
            s["parameters"][k] = v
        return self._real(s)

    def _real(self, s):
        try:
            return M.megacomplex_matrix(s, self.dlabel, "ref")
        except Exception as e:
            raise RefError(f"calculate_matrix of a one-megacomplex model ({s['megacomplex'][0][1]['type']}) raised "
                           f"{type(e).__name__}: {str(e)[:120]}")

    def index_dependent(self):
        from glotaran.builtin.megacomplexes.decay.util import index_dependent
        return bool(index_dependent(self.dm))

    def osc(self, kind, f, r):
        key = (kind, f, r)
        if key not in self.cache:
            typ = "pfid" if kind.startswith("p") else "damped-oscillation"
            labels, mat = self._alone({"type": typ, "labels": ["x"], "frequencies": ["ref.1"], "rates": ["ref.2"]},
                                      {"ref.1": f, "ref.2": r})
            if sorted(labels) != ["x_cos", "x_sin"]:
                raise RefError(f"a {typ} megacomplex with the single label 'x' returns the clp labels {labels}")
            self.cache[key] = (mat[..., labels.index("x_cos")], mat[..., labels.index("x_sin")])
        return self.cache[key]

    def osc_irf_closed_form(self, kind, f, r, i):
        """Gaussian-IRF oscillation (kind 'osc') / PFID (kind 'pfid') of ONE component at global index i by the
        documented formula  osc = +-exp((-t' + k w^2 / 2) k) (1 + erf((t' - k w^2) / (+-sqrt2 w))) * scale  summed over the
        Gaussians; returns (sum of real parts, sum of imaginary parts, validity mask, sum of scales).  Only used without
        irf shift (the sign convention of the shift is the subject of C07/D7)."""
        from scipy.special import erf
        centers, widths, scales, shift, _, _ = self.dm.irf.parameter(i, self.g)
        re = np.zeros(self.t.size)
        im = np.zeros(self.t.size)
        valid = np.ones(self.t.size, dtype=bool)
        for c, w, sc in zip(np.asarray(centers, dtype=float), np.asarray(widths, dtype=float), np.asarray(scales, dtype=float)):
            tp = self.t - c - float(shift)
            if kind == "osc":
                k = r + 1j * (f * 0.03 * 2 * np.pi)
                win = tp > -5 * w
                sign, sq = 1.0, np.sqrt(2) * w
            else:
                k = r + 1j * ((self.g[i] - f) * 0.03 * 2 * np.pi)
                win = tp < 5 * w
                sign, sq = -1.0, -np.sqrt(2) * w
            dk = k * w * w
            with np.errstate(all="ignore"):
                v = sign * np.exp((-tp + 0.5 * dk) * k) * (1 + erf((tp - dk) / sq)) * sc
            v = np.where(win, v, 0.0)
            valid &= np.isfinite(v)
            re += np.nan_to_num(v.real)
            im += np.nan_to_num(v.imag)
        return re, im, valid, float(np.sum(scales))

    def osc_closed_form(self, f, r):
        """no IRF: Re / Im of exp(-(r + i w) t), w = f * 0.03 * 2 pi (below the wrap threshold)"""
        w = f * 0.03 * 2 * np.pi
        return np.exp(-r * self.t) * np.cos(w * self.t), -np.exp(-r * self.t) * np.sin(w * self.t)

    def shape(self, name):
        if ("shape", name) not in self.cache:
            labels, mat = self._alone({"type": "spectral", "shape": [["x", name]]})
            self.cache[("shape", name)] = mat[..., 0]
        return self.cache[("shape", name)]

    def artifact(self, order, width_par):
        """g, g', g'' around centre = centre_0 - shift with the artifact's own width or the IRF's first width"""
        irf = self.dm.irf
        cols = []
        idx = list(range(self.g.size)) if self.index_dependent() else [None]
        for i in idx:
            centers, widths, _, shift, _, _ = irf.parameter(i, self.g)
            c = float(centers[0]) - float(shift)
            w = float(width_par) if width_par is not None else float(widths[0])
            g = np.exp(-((self.t - c) ** 2) / (2 * w * w))
            cols.append([g, g * (c - self.t) / w ** 2, g * ((self.t - c) ** 2 - w * w) / w ** 4][order - 1])
        return np.stack(cols) if self.index_dependent() else cols[0]

    def parallel_species(self, rate, n):
        key = ("par", rate)
        if key not in self.cache:
            _, mat = self._alone({"type": "decay-parallel", "compartments": ["x"], "rates": ["ref.1"]}, {"ref.1": rate})
            self.cache[key] = mat[..., 0]
        return self.cache[key] / n

    def megacomplex_alone_canonical(self, name):
        """the megacomplex alone, declared in canonical (sorted) order: {label: column}"""
        key = ("alone", name)
        if key not in self.cache:
            s = M.canonical(self.spec)
            mc = copy.deepcopy(dict(s["megacomplex"])[name])
            s["megacomplex"] = [["ref", mc]]
            d = copy.deepcopy(self.d)
            d["megacomplex"], d["megacomplex_scale"] = ["ref"], None
            d["global_megacomplex"], d["global_megacomplex_scale"] = None, None
            s["dataset"] = [[self.dlabel, d]]
            labels, mat = self._real(s)
            self.cache[key] = {l: mat[..., j] for j, l in enumerate(labels)}
        return self.cache[key]


def table_line(spec, dlabel, name, dm):
    """protocol line asking the model for the label table of megacomplex `name` (None: no table op, e.g. decay)"""
    mc = dict(spec["megacomplex"])[name]
    t = mc["type"]
    if t in ("damped-oscillation", "pfid"):
        kernel = "pfid" if t == "pfid" else ("noirf" if dm.irf is None else "irf")
        return (f"osc {kernel} {core.strs(mc['labels'])} {core.rats(_val(spec, p) for p in mc['frequencies'])} "
                f"{core.rats(_val(spec, p) for p in mc['rates'])}")
    if t == "spectral":
        return f"spectral {core.lst(core.lst([core.enc(c), core.enc(s)]) for c, s in mc['shape'])}"
    if t == "baseline":
        return f"baseline {core.enc(dlabel)}"
    if t == "coherent-artifact":
        return f"artifact {mc['order']} {core.enc(name)}"
    if t == "clp-guide":
        return f"guide {core.enc(mc['target'])}"
    if t == "decay":
        ic = dict(spec["initial_concentration"])[dict(spec["dataset"])[dlabel]["initial_concentration"]]
        ks = dict(spec["k_matrix"])
        kl = core.lst(core.lst(core.lst([core.enc(a), core.enc(b), core.rat(_val(spec, p))]) for a, b, p in ks[k]) for k in mc["k_matrix"])
        return (f"decay {core.strs(ic['compartments'])} {core.rats(_val(spec, p) for p in ic['parameters'])} "
                f"{core.strs(ic.get('exclude_from_normalize') or [])} {kl}")
    if t == "decay-parallel":
        return f"parallel {core.strs(mc['compartments'])} {core.rats(_val(spec, p) for p in mc['rates'])}"
    if t == "decay-sequential":
        return f"sequential {core.strs(mc['compartments'])} {core.rats(_val(spec, p) for p in mc['rates'])}"
    raise core.HarnessError(f"no table line for megacomplex type {t}")


def parse_table(ans):
    if not ans.startswith("table "):
        return None
    t = core.parse_tree(ans[6:])
    return [core.dec(x) for x in t[0]], [[c[0]] + list(c[1:]) for c in t[1]]


def parse_book(ans):
    if not ans.startswith("book "):
        return None
    t = core.parse_tree(ans[5:])

    def mat(x):
        return None if x == "valueerror" else [[Fraction(v) for v in row] for row in x]
    return {"comps": [core.dec(x) for x in t[0]], "j": [Fraction(x) for x in t[1]], "jraw": [Fraction(x) for x in t[2]],
            "involved": [core.dec(x) for x in t[3]],
            "kmat": [(core.dec(e[0]), core.dec(e[1]), Fraction(e[2])) for e in t[4]],
            "full": mat(t[5]), "reduced": mat(t[6]), "sequential": None if t[7] == "valueerror" else t[7] == "T"}


def real_book(m, dm):
    """the real decay bookkeeping of megacomplex `m` in dataset model `dm` (exceptions -> tags)"""
    out = {}
    try:
        comps = list(m.get_compartments(dm))
        km = m.get_k_matrix()
        out["comps"] = comps
        out["involved"] = list(km.involved_compartments())
        out["kmat"] = [(a, b, float(v)) for (a, b), v in km.matrix.items()]
        out["j"] = np.asarray(m.get_initial_concentration(dm), dtype=np.float64).tolist()
        out["jraw"] = np.asarray(m.get_initial_concentration(dm, normalized=False), dtype=np.float64).tolist()
    except Exception as e:
        out["error"] = type(e).__name__
        return out
    for name, fn in (("full", lambda: km.full(comps).tolist()), ("reduced", lambda: km.reduced(comps).tolist()),
                     ("sequential", lambda: bool(km.is_sequential(comps, np.asarray(out["j"]))))):
        try:
            out[name] = fn()
        except ValueError:
            out[name] = None
    return out


def judge_book(ck, case, real, model):
    if model is None or "error" in real:
        ck.disagree("book-answer", f"decay bookkeeping: implementation {real.get('error')}, model {model}", case)
        return

    def feq(a, b):
        return a is None and b is None or (a is not None and b is not None and np.asarray(a).shape == np.asarray(b, dtype=object).shape
                                           and all(abs(float(x) - float(y)) <= 1e-12 * max(1.0, abs(float(y)))
                                                   for x, y in zip(np.asarray(a, dtype=np.float64).ravel(), np.asarray(b, dtype=object).ravel())))
    if real["comps"] != model["comps"]:
        ck.disagree("book-comps", f"compartments: implementation {real['comps']}, model {model['comps']}", case)
        return
    if sorted(real["involved"]) != sorted(model["involved"]):
        ck.disagree("book-involved", f"involved compartments: implementation {real['involved']}, model {model['involved']}", case)
        return
    rk = {(a, b): v for a, b, v in real["kmat"]}
    mk = {(a, b): v for a, b, v in model["kmat"]}
    if set(rk) != set(mk) or not feq([rk[k] for k in sorted(rk)], [mk[k] for k in sorted(rk)]):
        ck.disagree("book-kmatrix", f"combined K-matrix: implementation {real['kmat']}, model {model['kmat']}", case)
        return
    if real["involved"] != model["involved"] or list(rk) != list(mk):
        ck.diagnostic("order of the combined K-matrix / involved compartments differs (content equal)",
                      {"impl": [real["involved"], list(rk)], "model": [model["involved"], list(mk)]})
    for k in ("j", "jraw", "full", "reduced"):
        if not feq(real[k], model[k]):
            ck.disagree("book-" + k, f"{k}: implementation {real[k]}, model {[str(x) for x in np.asarray(model[k], dtype=object).ravel()] if model[k] is not None else None}", case)
            return
    if real["sequential"] != model["sequential"]:
        ck.disagree("book-is-sequential", f"is_sequential: implementation {real['sequential']}, model {model['sequential']}", case)


def descriptor_column(spec, name, mc, l, desc, ref):
    """the column a descriptor denotes, computed alone (1-D, or index x model for index-dependent ones)"""
    kind = desc[0]
    if kind in ("cos", "sin", "pcos", "psin"):
        f, r = float(Fraction(desc[1])), float(Fraction(desc[2]))
        return ref.osc(kind, f, r)[0 if kind.endswith("cos") else 1]
    if kind == "shape":
        return ref.shape(core.dec(desc[1]))
    if kind == "ones":
        return np.ones(ref.t.size)
    if kind == "art":
        return ref.artifact(int(desc[1]), _val(spec, mc["width"]) if mc.get("width") else None)
    if kind == "guide":
        return np.ones(1)
    if kind == "species":
        if mc["type"] == "decay-parallel":
            rate = _val(spec, mc["rates"][mc["compartments"].index(l)])
            return ref.parallel_species(rate, len(mc["compartments"]))
        return ref.megacomplex_alone_canonical(name)[l]
    raise core.HarnessError(f"descriptor {desc} cannot be evaluated")


def by_label_reference(ck, spec, dlabel, dm, tables, ref):
    """{label: column} = sum over the dataset's megacomplexes of scale x (column recomputed alone from the descriptor);
    `tables` = {mc name: (labels, descriptors)} — from the model (correspondence) or from the harness' own reading (oracle)"""
    d = dict(spec["dataset"])[dlabel]
    out, order = {}, []
    any3 = False
    cols_per_mc = []
    for k, name in enumerate(d["megacomplex"]):
        mc = dict(spec["megacomplex"])[name]
        labels, descs = tables[name]
        sc = _val(spec, d["megacomplex_scale"][k]) if d.get("megacomplex_scale") else 1.0
        cols = []
        for l, desc in zip(labels, descs):
            c = descriptor_column(spec, name, mc, l, desc, ref)
            any3 = any3 or c.ndim == 2
            cols.append((l, sc * c))
        cols_per_mc.append(cols)
    n_idx = len(d["global_axis"])
    for cols in cols_per_mc:
        for l, c in cols:
            if any3 and c.ndim == 1:
                c = np.stack([c] * n_idx)
            if l in out:
                out[l] = out[l] + c
            else:
                out[l] = c
                order.append(l)
    return out, order


def own_tables(spec, dlabel, dm):
    """the harness' own reading of which label denotes what (the statement; independent of the Lean model)"""
    d = dict(spec["dataset"])[dlabel]
    out = {}
    for name in d["megacomplex"]:
        mc = dict(spec["megacomplex"])[name]
        t = mc["type"]
        if t in ("damped-oscillation", "pfid"):
            pre = "p" if t == "pfid" else ""
            labels, descs = [], []
            for part in ("cos", "sin"):
                for l, f, r in zip(mc["labels"], mc["frequencies"], mc["rates"]):
                    labels.append(f"{l}_{part}")
                    descs.append([pre + part, core.rat(_val(spec, f)), core.rat(_val(spec, r))])
        elif t == "spectral":
            labels, descs = [c for c, _ in mc["shape"]], [["shape", s] for _, s in mc["shape"]]
        elif t == "baseline":
            labels, descs = [f"{dlabel}_baseline"], [["ones"]]
        elif t == "coherent-artifact":
            labels = [f"coherent_artifact_{i}_{name}" for i in range(1, mc["order"] + 1)]
            descs = [["art", str(i)] for i in range(1, mc["order"] + 1)]
        elif t == "clp-guide":
            labels, descs = [mc["target"]], [["guide"]]
        elif t == "decay":
            ic = dict(spec["initial_concentration"])[d["initial_concentration"]]
            inv = {x for k in mc["k_matrix"] for a, b, _ in dict(spec["k_matrix"])[k] for x in (a, b)}
            labels = [c for c in ic["compartments"] if c in inv]
            descs = [["species", c] for c in labels]
        else:
            labels = list(mc["compartments"])
            descs = [["species", c] for c in labels]
        out[name] = (labels, descs)
    return out


def check_pipeline(ck, batch, spec, tag):
    """one spec of builtin megacomplexes: label tables + columns (model and by-label statement) per dataset"""
    try:
        model, parameters, dms = _filled(spec)
    except Exception as e:
        raise core.HarnessError(f"generated spec cannot be built: {type(e).__name__}: {e}")
    for dlabel, d in spec["dataset"]:
        dm = dms[dlabel]
        case = {"kind": "pipeline", "spec": spec, "dataset": dlabel}
        types = [dict(spec["megacomplex"])[n]["type"] for n in d["megacomplex"]]
        irf_kind = "none" if d.get("irf") is None else dict(spec["irf"])[d["irf"]]["type"] + \
            ("+shift" if dict(spec["irf"])[d["irf"]].get("shift") else "")
        t = np.array(d["model_axis"], dtype=np.float64)
        g = np.array(d["global_axis"], dtype=np.float64)
        from glotaran.optimization.matrix_provider import MatrixProvider
        try:
            cont = MatrixProvider.calculate_dataset_matrix(dm, g, t)
            rl, rm = list(cont.clp_labels), np.asarray(cont.matrix, dtype=np.float64)
            per_mc = {}
            for m in dm.megacomplex:
                ls, mat = m.calculate_matrix(dm, g, t)
                per_mc[m.label] = (list(ls), np.asarray(mat, dtype=np.float64))
        except Exception as e:
            ck.violation(f"matrix-raises:{type(e).__name__}:{'+'.join(sorted(set(types)))}",
                         f"calculating the matrix of dataset {dlabel!r} raised {type(e).__name__}: {str(e)[:160]}", case)
            continue
        n_labels = len(rl)
        ck.case(("pipeline", json.dumps(case, sort_keys=True)), n_labels >= 2)
        ck.count("C:" + tag)
        for ty in types:
            ck.count(f"C:type={ty}:irf={'none' if irf_kind == 'none' else 'yes'}")
        ck.count("C:irf=" + irf_kind)
        ck.count(f"C:megacomplexes={len(types)}")
        ck.count("C:rank=3" if rm.ndim == 3 else "C:rank=2")
        ck.count("C:scaled" if d.get("megacomplex_scale") else "C:unscaled")
        ref = RefColumns(spec, dlabel, dm)
        d4 = False
        if "decay" in types:
            try:
                d4 = bool(M.d4_misclassified(spec) or M.d4_misclassified(M.canonical(spec)))
            except Exception:
                d4 = False
            if d4:
                ck.count("C:is_sequential-misclassified(D4)")
        # ---- oracle: the statement, by label, independent of the model ---------------------------------
        ck.oracle_evals += 1
        tables = own_tables(spec, dlabel, dm)
        try:
            want, _ = by_label_reference(ck, spec, dlabel, dm, tables, ref)
        except core.HarnessError:
            raise
        except RefError as e:
            ck.violation("labels-of-single-component:" + "+".join(sorted(set(types))), str(e), case)
            continue
        except Exception as e:
            raise core.HarnessError(f"reference computation failed: {type(e).__name__}: {e}")
        got = np_cols(rl, rm)
        tkey = "+".join(sorted(set(types))) + (":irf" if irf_kind != "none" else ":noirf")
        if len(set(rl)) != len(rl) or set(rl) != set(want):
            ck.violation("labels-not-union:" + tkey, f"clp labels {rl} of dataset {dlabel!r} are not the duplicate-free union of "
                         f"the labels its megacomplexes declare ({sorted(want)})", case)
            continue
        bad = [l for l in rl if not close(got[l], want[l])]
        if bad:
            l = bad[0]
            ck.violation("twin-matrix-column:is-sequential-misclassified" if d4 else "column-not-what-label-denotes:" + tkey,
                         f"dataset {dlabel!r}: the matrix column under label {l!r} is not what {l!r} denotes (the sum over the "
                         f"megacomplexes declaring it of scale x the column computed alone from its own parameters); "
                         f"{len(bad)} of {len(rl)} labels differ", {**case, "label": l, "observed": got[l].tolist(), "required": want[l].tolist()})
        # closed form for oscillations without IRF (independent of the real kernel)
        if irf_kind == "none":
            for name in d["megacomplex"]:
                mc = dict(spec["megacomplex"])[name]
                if mc["type"] != "damped-oscillation":
                    continue
                ls, mat = per_mc[name]
                dt = np.min(np.abs(np.diff(t)))
                for l, f, r in zip(mc["labels"], mc["frequencies"], mc["rates"]):
                    fv, rv = _val(spec, f), _val(spec, r)
                    if fv * 0.03 * 2 * np.pi >= 1 / (2 * 0.03 * dt):
                        continue        # the code wraps such frequencies (C07 note N1)
                    c, s = ref.osc_closed_form(fv, rv)
                    for part, w in (("cos", c), ("sin", s)):
                        lab = f"{l}_{part}"
                        if lab not in ls or not close(mat[..., ls.index(lab)], w, 1e-8):
                            ck.violation("osc-column-not-its-oscillation:noirf",
                                         f"megacomplex {name!r}: column under {lab!r} is not the {part} quadrature of oscillation "
                                         f"{l!r} (frequency {fv}, rate {rv})", {**case, "label": lab})
                            break
        # documented formula for oscillations / PFID under a Gaussian IRF without shift (one component at a time)
        if irf_kind != "none" and "+shift" not in irf_kind:
            idxs = list(range(g.size)) if rm.ndim == 3 else [None]
            for name in d["megacomplex"]:
                mc = dict(spec["megacomplex"])[name]
                if mc["type"] not in ("damped-oscillation", "pfid"):
                    continue
                ls, mat = per_mc[name]
                kind = "osc" if mc["type"] == "damped-oscillation" else "pfid"
                done = False
                for l, f, r in zip(mc["labels"], mc["frequencies"], mc["rates"]):
                    fv, rv = _val(spec, f), _val(spec, r)
                    if (kind == "osc" and rv < 0) or (kind == "pfid" and rv >= 0) or done:
                        continue
                    for i in (idxs if mat.ndim == 3 else [None]):
                        re, im, valid, ssum = ref.osc_irf_closed_form(kind, fv, rv, 0 if i is None else i)
                        for part, w in (("cos", re), ("sin", im)):
                            lab = f"{l}_{part}"
                            if lab not in ls:
                                continue
                            c = mat[..., ls.index(lab)] if i is None else mat[i][..., ls.index(lab)]
                            dlt = (c * ssum - w)[valid]
                            scale = max(1.0, float(np.max(np.abs(w[valid]))) if valid.any() else 1.0)
                            # the initial fill of the matrix (0, or 1 before C07's fix D6) is a constant offset
                            ok = dlt.size == 0 or np.max(np.abs(dlt)) <= 1e-7 * scale or \
                                (kind == "osc" and np.max(np.abs(dlt - 1.0)) <= 1e-7 * scale)
                            ck.count("C:irf-closed-form-checked")
                            if not ok:
                                ck.violation(f"osc-column-not-its-oscillation:irf:{mc['type']}",
                                             f"megacomplex {name!r}: column under {lab!r} is not the {part} quadrature (real/imaginary "
                                             f"part of the documented Gaussian-IRF formula) of component {l!r} (frequency {fv}, rate {rv})",
                                             {**case, "label": lab})
                                done = True
                                break
                        if done:
                            break
        # ---- correspondence: model tables + model combination ------------------------------------------
        lines, names = [], []
        for name in d["megacomplex"]:
            lines.append(table_line(spec, dlabel, name, dm))
            names.append(name)
        # the same operations answered from the descriptors regenerated from the source text (Generated/C06.lean)
        lines += ["gen " + l for l in lines]

        def judge_inner(ans, names=names, d=d, dm=dm, rl=rl, rm=rm, per_mc=per_mc, case=case, ref=ref, dlabel=dlabel, got=got, d4=d4):
            mtables = {}
            for name, a in zip(names, ans):
                mc = dict(spec["megacomplex"])[name]
                ls, mat = per_mc[name]
                if mc["type"] in ("decay", "decay-parallel", "decay-sequential"):
                    book = parse_book(a)
                    real = real_book([m for m in dm.megacomplex if m.label == name][0], dm)
                    judge_book(ck, {**case, "megacomplex": name}, real, book)
                    if book is None:
                        return
                    mtables[name] = (book["comps"], [["species", c] for c in book["comps"]])
                else:
                    tb = parse_table(a)
                    if tb is None:
                        ck.disagree("table-answer", f"model answered {a[:80]!r} for megacomplex {name!r}", case)
                        return
                    mtables[name] = tb
                if mtables[name][0] != ls:
                    ck.disagree("table-labels:" + mc["type"], f"megacomplex {name!r}: labels {ls} (implementation) vs {mtables[name][0]} (model)",
                                {**case, "megacomplex": name})
                    return
                gen = parse_table(ans[len(names) + names.index(name)])
                ck.count("C:generated-table-checked")
                if gen is None or gen[0] != ls or gen[1] != mtables[name][1]:
                    ck.disagree("generated-table:" + mc["type"],
                                f"megacomplex {name!r}: the table evaluated from the regenerated descriptors is {gen}; implementation "
                                f"labels {ls}, hand-written model {mtables[name]}", {**case, "megacomplex": name})
                    return
                if len(mtables[name][1]) != mat.shape[-1]:
                    ck.disagree("table-width:" + mc["type"], f"megacomplex {name!r}: {mat.shape[-1]} columns vs {len(mtables[name][1])} descriptors",
                                {**case, "megacomplex": name})
                    return
                # every column of the megacomplex against its descriptor, by position
                one = {"megacomplex": [name], "megacomplex_scale": None}
                w1, _ = by_label_reference(ck, {**spec, "dataset": [[dlabel, {**d, **one}]]}, dlabel, dm, {name: mtables[name]}, ref)
                for j, l in enumerate(ls):
                    wj = w1[l]
                    cj = mat[..., j]
                    if cj.ndim == 2 and wj.ndim == 1:
                        wj = np.stack([wj] * cj.shape[0])
                    if d4 and mc["type"] == "decay":
                        continue     # canonical-order reference and this order take different code paths (known finding D4)
                    if list(ls).count(l) == 1 and not close(cj, wj):
                        ck.disagree("table-column:" + mc["type"],
                                    f"megacomplex {name!r}: column {j} (label {l!r}) is not the descriptor {mtables[name][1][j]} of the model",
                                    {**case, "megacomplex": name, "label": l})
                        return
            # combination of the real per-megacomplex matrices by the model
            mcs = []
            for k, name in enumerate(names):
                ls, mat = per_mc[name]
                sc = _val(spec, d["megacomplex_scale"][k]) if d.get("megacomplex_scale") else None
                mcs.append({"labels": ls, "base": mat.tolist(), "scale": sc})
            post.append((case, mcs, rl, got))
            # the whole chain inside the model: declarations -> tables -> placement of the columns -> combination
            if not d4:
                items = []
                for k, name in enumerate(names):
                    mc = dict(spec["megacomplex"])[name]
                    ls, mat = per_mc[name]
                    labels_m, descs = mtables[name]
                    dep = mat.ndim == 3
                    env = []
                    for l, desc in zip(labels_m, descs):
                        c = descriptor_column(spec, name, mc, l, desc, ref)
                        if dep and c.ndim == 1:
                            c = np.stack([c] * mat.shape[0])
                        cols = c.tolist() if dep else [c.tolist()]
                        env.append(core.lst(["[" + ",".join(desc) + "]", core.lst(core.rats(x) for x in cols)]))
                    sc = core.rat(_val(spec, d["megacomplex_scale"][k])) if d.get("megacomplex_scale") else "none"
                    op = "[" + ",".join(table_line(spec, dlabel, name, dm).split(" ")) + "]"
                    items.append(core.lst([core.bool_(dep), sc, op, core.lst(env)]))
                post2.append((case, f"tabledataset {len(d['model_axis'])} {len(d['global_axis'])} {core.lst(items)}", rl, got))

        def judge(ans, _inner=judge_inner, _types=types, _case=case):
            try:
                _inner(ans)
            except RefError as e:
                ck.violation("labels-of-single-component:" + "+".join(sorted(set(_types))), str(e), _case)

        batch.add(lines, judge)


post = []     # (case, mcs, real labels, real by-label columns) waiting for the model's combination
post2 = []    # (case, tabledataset line, real labels, real by-label columns)


def flush_post(ck, batch):
    """second round: the model combines the real per-megacomplex matrices; compare by label with the real dataset matrix"""
    global post
    items, post = post, []
    for case, mcs, rl, got in items:
        def judge(ans, case=case, rl=rl, got=got):
            m = parse_lm(ans[0])
            if m is None:
                ck.disagree("pipeline-model-answer", f"model answered {ans[0][:80]!r}", case)
                return
            ml, kind, arr = m
            if sorted(ml) != sorted(rl):
                ck.disagree("pipeline-labels", f"dataset labels: implementation {rl}, model {ml}", case)
                return
            fc = frac_cols(ml, kind, arr)
            for l in rl:
                f = np.array(fc[l], dtype=object)
                mf = np.vectorize(float, otypes=[np.float64])(f) if f.size else np.zeros(f.shape)
                if not close(got[l], mf, 1e-12):
                    ck.disagree("pipeline-column", f"dataset column under {l!r}: implementation differs from the model's combination "
                                f"of the megacomplex matrices", {**case, "label": l})
                    return
            if ml != rl:
                ck.diagnostic("dataset label order differs (by-label content equal)", {"impl": rl, "model": ml})
        batch.add([f"dsmatrix {core.lst(mc_line(mc) for mc in mcs)}"], judge)
    global post2
    items2, post2 = post2, []
    for case, line, rl, got in items2:
        def judge2(ans, case=case, rl=rl, got=got):
            m = parse_lm(ans[0])
            if m is None:
                ck.disagree("chain-model-answer", f"model answered {ans[0][:80]!r}", case)
                return
            ml, kind, arr = m
            ck.count("C:chain-in-model-checked")
            if sorted(ml) != sorted(rl):
                ck.disagree("chain-labels", f"dataset labels: implementation {rl}, model (tables -> matrix -> combination) {ml}", case)
                return
            fc = frac_cols(ml, kind, arr)
            for l in rl:
                f = np.array(fc[l], dtype=object)
                mf = np.vectorize(float, otypes=[np.float64])(f) if f.size else np.zeros(f.shape)
                if not close(got[l], mf):
                    ck.disagree("chain-column", f"dataset column under {l!r}: implementation differs from the model's chain "
                                f"(label tables, columns placed by descriptor, scaled combination)", {**case, "label": l})
                    return
        batch.add([line], judge2)
    batch.flush(ck)


FOCUS = [
    (["decay"], None), (["decay-parallel"], None), (["decay-sequential"], None), (["damped-oscillation"], "none"),
    (["damped-oscillation"], "gaussian"), (["damped-oscillation"], "shift"), (["pfid"], None), (["coherent-artifact"], None),
    (["baseline", "decay-parallel"], None), (["spectral"], None), (["decay", "decay"], None),
    (["damped-oscillation", "damped-oscillation"], "none"), (["damped-oscillation", "pfid"], "gaussian"),
    (["decay", "decay-parallel", "decay-sequential"], None), (None, None),
    (["decay"], "none"), (["decay-sequential", "decay-parallel"], "none"), (["decay", "baseline"], "dispersion"),
    (["coherent-artifact", "decay-sequential"], "shift"),
]


def gen_focus(rng, i):
    types, irf = FOCUS[i % len(FOCUS)]
    if types == ["spectral"]:
        return M.gen_spec(rng, types=["spectral"])
    if types is not None and len(types) > 1:
        return M.gen_spec(rng, types=types, irf_kind=irf, n_mc=rng.choice([2, 3]))
    return M.gen_spec(rng, types=types, irf_kind=irf)


def stream_introspection(ck, batch):
    """every builtin type with 1, 2 and 3 declared components, with and without IRF where the type allows it: the labels
    (and every column) the real calculate_matrix returns against the hand-written table and against the table evaluated
    from the regenerated descriptors — deterministic coverage of every type on every run"""
    rng = ck.rng
    n_specs = 0
    for n in (1, 2, 3):
        for typ, irfs in (("damped-oscillation", ("none", "gaussian")), ("pfid", ("gaussian",)), ("decay-parallel", ("none", "gaussian")),
                          ("decay-sequential", ("none",)), ("decay", ("none",)), ("spectral", ("none",)),
                          ("coherent-artifact", ("gaussian",)), ("baseline", ("none",)), ("clp-guide", ("none",))):
            for irf in irfs:
                if typ in ("baseline", "clp-guide") and n > 1:
                    continue
                spec = M.introspection_spec(rng, typ, n, irf)
                check_pipeline(ck, batch, spec, "introspection")
                ck.count(f"I:type={typ}:components={n}")
                n_specs += 1
    batch.flush(ck)
    flush_post(ck, batch)
    ck.extra["introspection"] = {"specs": n_specs, "components": [1, 2, 3], "types": 9}


def stream_pipeline(ck, batch):
    rng = ck.rng
    for i in range(ck.n(110, 1500)):
        spec = gen_focus(rng, i)
        check_pipeline(ck, batch, spec, "generated")
        if i < 2:
            ck.sample({"stream": "C", "megacomplex": spec["megacomplex"], "dataset": [[l, {k: v for k, v in d.items() if k != "data"}] for l, d in spec["dataset"]]})
        # clp guide: second dataset guiding one label
        if len(batch.jobs) > 300:
            batch.flush(ck)
            flush_post(ck, batch)
    guide = M.guide_spec(rng)
    check_pipeline(ck, batch, guide, "clp-guide")
    batch.flush(ck)
    flush_post(ck, batch)


# ======================================================================================================
# stream D — permuted twins on the real code (oracle)
# ======================================================================================================
FIT_VARS = ("clp", "residual", "fitted_data", "weighted_residual", "species_associated", "decay_associated", "_associated_spectra",
            "_associated_concentrations", "_phase", "baseline")
SKIP_VARS = ("singular",)


def is_label_dim(ds, dim):
    return dim in ds.coords and ds.coords[dim].dtype.kind in "OUS"


def conditioning(ds):
    m = np.asarray(ds.matrix.values, dtype=np.float64)
    mats = m if m.ndim == 3 else m[None]
    try:
        c = float(max(np.linalg.cond(x) for x in mats))
        if "global_matrix" in ds:       # full model: the solver sees the Kronecker product
            c *= float(np.linalg.cond(np.asarray(ds.global_matrix.values, dtype=np.float64)))
        return c
    except Exception:
        return float("inf")


def _by_rate(ds, var, dim):
    """order of a component dimension by the megacomplex' rate coordinate (components carry numbers, not labels)"""
    mc = dim[len("component_"):]
    rates = np.asarray(ds.coords[f"rate_{mc}"].values, dtype=np.float64)
    return np.argsort(rates, kind="stable"), rates


def compare_datasets(ck, a, b, case, twin_what, cond):
    """result datasets of one dataset label from two declaration orders; returns list of (key, what).
    `cond` = worst condition number over all datasets of the fit (linked groups solve them together)"""
    out = []
    if set(a.data_vars) != set(b.data_vars) or set(a.coords) != set(b.coords):
        return [("twin-variables-differ", f"result variables differ: {sorted(set(a.data_vars) ^ set(b.data_vars))} "
                 f"coords {sorted(set(a.coords) ^ set(b.coords))}")]
    well = cond < 1e5
    names = list(a.data_vars) + [c for c in a.coords if c not in a.dims]
    for name in names:
        if any(s in name for s in SKIP_VARS):
            continue
        fit = any(s in name for s in FIT_VARS)
        if fit and not well:
            continue
        va, vb = a[name], b[name]
        if set(va.dims) != set(vb.dims):
            out.append(("twin-dims:" + name, f"{name}: dims {va.dims} vs {vb.dims}"))
            continue
        try:
            sel = {d: va.coords[d].values for d in va.dims if is_label_dim(a, d)}
            vb = (vb.sel(sel) if sel else vb).transpose(*va.dims)
        except KeyError as e:
            out.append(("twin-labels:" + name, f"{name}: labels of a labelled dimension differ between the orders ({e})"))
            continue
        x, y = np.asarray(va.values), np.asarray(vb.values)
        for ax, d in enumerate(va.dims):
            if d.startswith("component_"):
                oa, ra = _by_rate(a, va, d)
                ob, rb = _by_rate(b, vb, d)
                if len(set(np.round(ra, 9))) < len(ra):
                    x = y = np.zeros(0)         # degenerate rates: components cannot be matched
                    break
                x, y = np.take(x, oa, axis=ax), np.take(y, ob, axis=ax)
        if x.dtype.kind in "OUS":
            if list(x.ravel()) != list(y.ravel()):
                out.append(("twin-text:" + name, f"{name}: {x.tolist()} vs {y.tolist()}"))
            continue
        if x.shape != y.shape:
            out.append(("twin-shape:" + name, f"{name}: shape {x.shape} vs {y.shape}"))
            continue
        x, y = x.astype(np.float64), y.astype(np.float64)
        if "_phase" in name:
            amp_name = name.replace("_phase", "_associated_spectra")
            amp = np.asarray(a[amp_name].values, dtype=np.float64) if amp_name in a else np.ones_like(x)
            dphi = np.where(amp > 1e-6 * max(1.0, float(np.max(amp))), x - y, 0.0)
            ok = np.all(np.abs(np.sin(dphi / 2)) < 1e-5)
            if not ok:
                out.append(("twin-value:" + _generic(name), f"{name} differs by label (max {float(np.max(np.abs(np.sin(dphi / 2)))):.3g} in sin(dphi/2))"))
                continue
            # np.unwrap runs along the series of ONE label: the only legitimate difference between two fits that agree to
            # rounding is a shift of a whole series by one multiple of 2*pi, and only when its first phase sits on the
            # branch cut of arctan2 (+-pi); anything else (a shift that varies along the series, or a shifted series that
            # starts away from the cut) means the value under a label depends on the other labels / the declaration order
            lab_axes = [i for i, d in enumerate(va.dims) if is_label_dim(a, d)]
            if x.ndim == 2 and len(lab_axes) == 1:
                X, Y, A = (np.moveaxis(z, lab_axes[0], 0) for z in (x, y, np.broadcast_to(amp, x.shape)))
                for row in range(X.shape[0]):
                    live = A[row] > 1e-6 * max(1.0, float(np.max(amp)))
                    if not live.any():
                        continue
                    k = np.round((X[row] - Y[row])[live] / (2 * np.pi))
                    if np.all(k == 0):
                        continue
                    first = int(np.argmax(live))
                    on_cut = min(abs(abs(X[row][first]) - np.pi), abs(abs(Y[row][first]) - np.pi)) < 1e-4
                    if len(set(k.tolist())) > 1 or not (on_cut and bool(live[0])):
                        out.append(("twin-value:" + _generic(name), f"{name}: the phase series of label no. {row} is shifted by "
                                    f"{sorted(set(k.tolist()))} x 2*pi between the two declaration orders"))
                        break
            continue
        tol = (1e-7 * max(cond, 1.0) if fit else 1e-8)
        if not close(x, y, tol):
            md = float(np.nanmax(np.abs(x - y)))
            out.append(("twin-value:" + _generic(name), f"{name} reported under the same labels differs between the two declaration "
                        f"orders (max abs difference {md:.3g}; permuted: {twin_what})"))
    return out


def _generic(name):
    """variable name with megacomplex labels removed (stable keys)"""
    import re
    name = re.sub(r"^m\d+_", "", name)
    return re.sub(r"_m\d+$", "", name)


def self_consistency(ck, spec, dlabel, ds, case):
    """labelled result variables against the matrix / clp columns with the same label (one result, no twin)"""
    out = []
    d = dict(spec["dataset"])[dlabel]
    mat, clp = ds.matrix, ds.clp

    def mcol(l):
        return np.asarray(mat.sel(clp_label=l).values, dtype=np.float64)

    def ccol(l):
        return np.asarray(clp.sel(clp_label=l).values, dtype=np.float64)
    labels = [str(x) for x in mat.coords["clp_label"].values]
    if [str(x) for x in clp.coords["clp_label"].values] != labels:
        out.append(("clp-label-order", "clp and matrix carry different clp_label coordinates"))
        return out
    mcs = [(n, dict(spec["megacomplex"])[n]) for n in d["megacomplex"]]
    n_osc = sum(1 for _, m in mcs if m["type"] == "damped-oscillation")
    n_pfid = sum(1 for _, m in mcs if m["type"] == "pfid")
    for name, mc in mcs:
        t = mc["type"]
        if t in ("damped-oscillation", "pfid"):
            base = "damped_oscillation" if t == "damped-oscillation" else "pfid"
            prefix = base if (n_osc if t == "damped-oscillation" else n_pfid) < 2 else f"{name}_{base}"
            if prefix not in ds.coords:
                out.append(("result-variable-missing:" + base, f"no coordinate {prefix!r} in the result of dataset {dlabel!r}"))
                continue
            if [str(x) for x in ds.coords[prefix].values] != list(mc["labels"]):
                out.append(("osc-coordinate", f"{prefix} coordinate {list(ds.coords[prefix].values)} != declared labels {mc['labels']}"))
                continue
            for l, f, r in zip(mc["labels"], mc["frequencies"], mc["rates"]):
                for part in ("cos", "sin"):
                    v = np.asarray(ds[f"{prefix}_{part}"].sel({prefix: l}).values, dtype=np.float64)
                    if not close(v, mcol(f"{l}_{part}"), 1e-12):
                        out.append((f"{base}-{part}-not-matrix-column", f"{prefix}_{part} under {l!r} is not the matrix column {l}_{part}"))
                amp = np.asarray(ds[f"{prefix}_associated_spectra"].sel({prefix: l}).values, dtype=np.float64)
                if not close(amp, np.hypot(ccol(f"{l}_sin"), ccol(f"{l}_cos")), 1e-10):
                    out.append((f"{base}-amplitude-not-its-clps", f"{prefix}_associated_spectra under {l!r} is not |clp({l}_cos), clp({l}_sin)|"))
                ph = np.asarray(ds[f"{prefix}_phase"].sel({prefix: l}).values, dtype=np.float64)
                if not close(ph, np.unwrap(np.arctan2(ccol(f"{l}_sin"), ccol(f"{l}_cos"))), 1e-10):
                    out.append((f"{base}-phase-not-its-clps", f"{prefix}_phase under {l!r} is not the unwrapped arctan2(clp({l}_sin), clp({l}_cos)) "
                                f"along the series of {l!r}"))
                if float(ds.coords[f"{prefix}_frequency"].sel({prefix: l})) != _val(spec, f) or \
                        float(ds.coords[f"{prefix}_rate"].sel({prefix: l})) != _val(spec, r):
                    out.append((f"{base}-parameter-coordinate", f"{prefix}_frequency/_rate under {l!r} are not the parameters declared for {l!r}"))
        elif t == "coherent-artifact":
            want = [f"coherent_artifact_{i}_{name}" for i in range(1, mc["order"] + 1)]
            resp = np.asarray(ds["coherent_artifact_response"].values, dtype=np.float64)
            for i, l in enumerate(want):
                if not close(resp[..., i], mcol(l), 1e-12):
                    out.append(("artifact-response-not-matrix-column", f"coherent_artifact_response order {i + 1} is not the matrix column {l}"))
                if not close(np.asarray(ds["coherent_artifact_associated_spectra"].values)[..., i], ccol(l), 1e-12):
                    out.append(("artifact-spectrum-not-clp", f"coherent_artifact_associated_spectra order {i + 1} is not clp {l}"))
        elif t == "baseline":
            if not close(np.asarray(ds["baseline"].values, dtype=np.float64), ccol(f"{dlabel}_baseline"), 1e-12):
                out.append(("baseline-not-clp", "baseline is not the clp of the baseline label"))
        elif t == "spectral":
            for s in [str(x) for x in ds.coords["species"].values]:
                if not close(np.asarray(ds["species_spectra"].sel(species=s).values), mcol(s), 1e-12):
                    out.append(("species-spectra-not-matrix-column", f"species_spectra under {s!r} is not the matrix column {s!r}"))
                if not close(np.asarray(ds["species_associated_concentrations"].sel(species=s).values), ccol(s), 1e-12):
                    out.append(("species-concentrations-not-clp", f"species_associated_concentrations under {s!r} is not clp {s!r}"))
    if any(m["type"].startswith("decay") for _, m in mcs):
        if "species" not in ds.coords:
            out.append(("result-variable-missing:species", f"no species coordinate in the result of dataset {dlabel!r}"))
            return out
        species = [str(x) for x in ds.coords["species"].values]
        want = []
        tabs = own_tables(spec, dlabel, None)
        for name, mc in mcs:
            if mc["type"].startswith("decay"):
                want += [c for c in tabs[name][0] if c not in want]
        if sorted(species) != sorted(want):
            out.append(("species-set", f"species {species} is not the set of compartments of the decay megacomplexes {want}"))
            return out
        sas_name = "species_associated_spectra" if "species_associated_spectra" in ds else "species_associated_images"
        for s in species:
            if not close(np.asarray(ds["species_concentration"].sel(species=s).values), mcol(s), 1e-12):
                out.append(("species-concentration-not-matrix-column", f"species_concentration under {s!r} is not the matrix column {s!r}"))
            if not close(np.asarray(ds[sas_name].sel(species=s).values), ccol(s), 1e-12):
                out.append(("species-spectrum-not-clp", f"{sas_name} under {s!r} is not clp {s!r}"))
        for name, mc in mcs:
            das_name = sas_name.replace("species_associated", "decay_associated") + f"_{name}"
            if mc["type"].startswith("decay") and das_name in ds and f"a_matrix_{name}" in ds and sas_name in ds:
                own = tabs[name][0]
                A = np.asarray(ds[f"a_matrix_{name}"].values, dtype=np.float64)
                if A.shape[1] == len(own) and all(c in species for c in own):
                    want = np.asarray(ds[sas_name].sel(species=own).values, dtype=np.float64) @ A.T
                    if not close(np.asarray(ds[das_name].values, dtype=np.float64), want, 1e-10):
                        out.append(("das-not-own-species", f"{das_name} is not the species associated spectra of the compartments {own} of "
                                    f"megacomplex {name!r} combined with its A-matrix"))
        if d.get("initial_concentration") and "initial_concentration" in ds:
            ic = dict(spec["initial_concentration"])[d["initial_concentration"]]
            for s in species:
                v = float(ds["initial_concentration"].sel(species=s))
                if s in ic["compartments"]:
                    w = _val(spec, ic["parameters"][ic["compartments"].index(s)])
                    if not (v == w):
                        out.append(("initial-concentration-not-its-compartment", f"initial_concentration under species {s!r} is {v}, "
                                    f"the initial concentration item gives {w} for {s!r}"))
                elif not math.isnan(v):
                    out.append(("initial-concentration-of-foreign-species", f"initial_concentration under {s!r} is {v} although {s!r} "
                                f"is not in the initial concentration item"))
    return out


def self_consistency_full(ck, spec, dlabel, ds, case):
    """a dataset with a global model: labelled result variables against the matrix / global matrix column of the same
    label, and the fitted data recomposed from clp.sel(global_clp_label=G, clp_label=L) over all label pairs"""
    out = []
    d = dict(spec["dataset"])[dlabel]
    ml = [str(x) for x in ds.matrix.coords["clp_label"].values]
    gl = [str(x) for x in ds.global_matrix.coords["global_clp_label"].values]
    if set(ds.clp.dims) != {"global_clp_label", "clp_label"} or [str(x) for x in ds.clp.coords["clp_label"].values] != ml or \
            [str(x) for x in ds.clp.coords["global_clp_label"].values] != gl:
        out.append(("full-clp-coordinates", "clp of a full-model dataset does not carry the (global_clp_label, clp_label) coordinates "
                    "of global_matrix / matrix"))
        return out
    mdim, gdim = d.get("model_dim", "time"), d.get("global_dim", "spectral")

    def mcol(l):        # (model,) or (global, model)
        c = ds.matrix.sel(clp_label=l)
        return np.asarray(c.transpose(*([gdim, mdim] if c.ndim == 2 else [mdim])).values, dtype=np.float64)

    def gcol(g):
        return np.asarray(ds.global_matrix.sel(global_clp_label=g).values, dtype=np.float64)
    sides = (("model", d["megacomplex"], "species", mdim, mcol, ml), ("global", d["global_megacomplex"], None, gdim, gcol, gl))
    for side, names, _, dim, colf, labels in sides:
        mcs = [(n, dict(spec["megacomplex"])[n]) for n in names]
        as_global = side == "global"
        if any(m["type"].startswith("decay") for _, m in mcs):
            sdim = "decay_species" if as_global else "species"
            if sdim not in ds.coords or "species_concentration" not in ds:
                out.append(("result-variable-missing:species_concentration", f"no {sdim} / species_concentration in the full-model result"))
                continue
            for sp in [str(x) for x in ds.coords[sdim].values]:
                v = ds["species_concentration"].sel({sdim: sp})
                v = np.asarray(v.transpose(*[x for x in (gdim, mdim) if x in v.dims]).values, dtype=np.float64) if not as_global \
                    else np.asarray(v.values, dtype=np.float64)
                if sp not in labels or not close(v, colf(sp), 1e-12):
                    out.append(("full-species-concentration-not-matrix-column", f"species_concentration under {sp!r} is not the "
                                f"{'global_matrix' if as_global else 'matrix'} column {sp!r}"))
        if any(m["type"] == "spectral" for _, m in mcs):
            sdim = "spectral_species" if as_global else "species"
            if sdim not in ds.coords or "species_spectra" not in ds:
                out.append(("result-variable-missing:species_spectra", f"no {sdim} / species_spectra in the full-model result"))
                continue
            for sp in [str(x) for x in ds.coords[sdim].values]:
                v = np.asarray(ds["species_spectra"].sel({sdim: sp}).values, dtype=np.float64)
                if sp not in labels or not close(v, colf(sp), 1e-12):
                    out.append(("full-species-spectra-not-matrix-column", f"species_spectra under {sp!r} is not the "
                                f"{'global_matrix' if as_global else 'matrix'} column {sp!r}"))
    fitted = np.zeros((ds.sizes[mdim], ds.sizes[gdim]))
    cmax = 0.0
    for g in gl:
        for l in ml:
            c = float(ds.clp.sel(global_clp_label=g, clp_label=l))
            cmax = max(cmax, abs(c))
            mc = mcol(l)
            fitted += c * (mc.T if mc.ndim == 2 else mc[:, None]) * gcol(g)[None, :]
    real = np.asarray(ds.fitted_data.transpose(mdim, gdim).values, dtype=np.float64)
    amax = max(1.0, float(np.max(np.abs(ds.matrix.values))) * float(np.max(np.abs(ds.global_matrix.values))))
    # (a rank-deficient matrix is outside this check: variable projection then returns a projection residual together with
    #  clps from a singular triangular solve — the recorded finding `underdetermined VP` of C14, nothing about labels)
    cond = conditioning(ds)
    if cond < 1e8 and np.all(np.isfinite(fitted)) and \
            float(np.max(np.abs(fitted - real))) > 1e-9 * max(1.0, cmax) * amax * len(gl) * len(ml) * max(1.0, cond):
        out.append(("full-fitted-not-recomposed-by-label", "fitted_data is not the sum over the label pairs (G, L) of "
                    "clp.sel(global_clp_label=G, clp_label=L) x global_matrix.sel(G) x matrix.sel(L)"))
    return out


def check_result_selection(ck, batch, spec, res, case):
    """correspondence for the selection of result variables by label: species list (first seen) and the selected
    matrix / clp columns of the real result against the model's `allSpecies`, `selectCols`, `selectVec`"""
    for dlabel, d in spec["dataset"]:
        if dlabel not in res.data or d.get("global_megacomplex"):
            continue
        ds = res.data[dlabel]
        labels = [str(x) for x in ds.matrix.coords["clp_label"].values]
        mat = np.asarray(ds.matrix.values, dtype=np.float64)
        clp = np.asarray(ds.clp.values, dtype=np.float64)          # global x clp_label
        mcs = [(n, dict(spec["megacomplex"])[n]) for n in d["megacomplex"]]
        tabs = own_tables(spec, dlabel, None)
        jobs = []      # (what, wanted labels, real selected array (.., k))
        if any(m["type"].startswith("decay") for _, m in mcs) and "species" in ds.coords:
            species = [str(x) for x in ds.coords["species"].values]
            per = [tabs[n][0] for n, m in mcs if m["type"].startswith("decay")]

            def judge_species(ans, species=species, per=per):
                got = [core.dec(x) for x in core.parse_tree(ans[0][5:])[0]] if ans[0].startswith("strs ") else None
                if got != species:
                    ck.disagree("species-list", f"species coordinate {species} (implementation) vs {got} (model allSpecies of {per})",
                                {**case, "dataset": dlabel})
            batch.add([f"allspecies {core.lst(core.strs(c) for c in per)}"], judge_species)
            jobs.append(("species_concentration", species, np.asarray(ds["species_concentration"].values, dtype=np.float64)))
            sas = "species_associated_spectra" if "species_associated_spectra" in ds else None
            if sas:
                jobs.append(("clp:" + sas, species, np.asarray(ds[sas].values, dtype=np.float64)))
        n_osc = sum(1 for _, m in mcs if m["type"] == "damped-oscillation")
        for n, m in mcs:
            if m["type"] == "damped-oscillation":
                prefix = "damped_oscillation" if n_osc < 2 else f"{n}_damped_oscillation"
                for part in ("cos", "sin"):
                    if f"{prefix}_{part}" in ds:
                        jobs.append((f"{prefix}_{part}", [f"{l}_{part}" for l in m["labels"]],
                                     np.asarray(ds[f"{prefix}_{part}"].values, dtype=np.float64)))
            if m["type"] == "coherent-artifact" and "coherent_artifact_response" in ds:
                jobs.append(("coherent_artifact_response", [f"coherent_artifact_{i}_{n}" for i in range(1, m["order"] + 1)],
                             np.asarray(ds["coherent_artifact_response"].values, dtype=np.float64)))
        for what, wanted, real in jobs:
            ck.count("S:selection-checked")
            if what.startswith("clp:"):
                lines = [f"selectvec {core.strs(labels)} {core.rats(row)} {core.strs(wanted)}" for row in clp]

                def judge(ans, what=what, wanted=wanted, real=real):
                    for i, a in enumerate(ans):
                        if not a.startswith("vec ") or [Fraction(x) for x in core.parse_tree(a[4:])[0]] != [Fraction(float(x)) for x in real[i]]:
                            ck.disagree("selection:" + what.split(":")[1], f"{what} at global index {i}: implementation vs model selectVec {a[:60]}",
                                        {**case, "dataset": dlabel, "wanted": wanted})
                            return
                batch.add(lines, judge)
            else:
                slices = [mat] if mat.ndim == 2 else list(mat)
                reals = [real] if mat.ndim == 2 else list(real)
                lines = [f"select {core.strs(labels)} {frac_mat(sl.tolist())} {core.strs(wanted)}" for sl in slices]

                def judge(ans, what=what, wanted=wanted, reals=reals):
                    for i, a in enumerate(ans):
                        ok = a.startswith("mat ")
                        if ok:
                            got = [[Fraction(x) for x in row] for row in core.parse_tree(a[4:])[0]]
                            want = [[Fraction(float(x)) for x in row] for row in np.asarray(reals[i]).tolist()]
                            ok = got == want
                        if not ok:
                            ck.disagree("selection:" + _generic(what), f"{what} (slice {i}): implementation differs from the model's "
                                        f"selectCols of the result matrix for {wanted}", {**case, "dataset": dlabel, "wanted": wanted})
                            return
                batch.add(lines, judge)


CLS = {"decay": "DecayMegacomplex", "decay-sequential": "DecaySequentialMegacomplex", "decay-parallel": "DecayParallelMegacomplex",
       "damped-oscillation": "DampedOscillationMegacomplex", "pfid": "PFIDMegacomplex", "spectral": "SpectralMegacomplex",
       "baseline": "BaselineMegacomplex", "coherent-artifact": "CoherentArtifactMegacomplex", "clp-guide": "ClpGuideMegacomplex"}
FIN_KIND = {"damped-oscillation": "osc", "pfid": "pfid", "coherent-artifact": "artifact", "spectral": "spectral", "baseline": "baseline",
            "clp-guide": "guide"}


def _eval_bexpr(ds, t):
    """a by-label descriptor of the model evaluated on a real result dataset with xarray's own label lookup"""
    k = t[0]
    if k == "clp":
        return ds.clp.sel(clp_label=core.dec(t[1]))
    if k == "mcol":
        return ds.matrix.sel(clp_label=core.dec(t[1]))
    if k == "gcol":
        return ds.global_matrix.sel(global_clp_label=core.dec(t[1]))
    if k == "rvar":
        return ds[core.dec(t[1])].sel({core.dec(t[2]): core.dec(t[3])})
    a, b = _eval_bexpr(ds, t[1]), _eval_bexpr(ds, t[2])
    if k == "hypot":
        return np.sqrt(a * a + b * b)
    if k == "uphase":
        ph = np.arctan2(a, b)
        return ph.copy(data=np.unwrap(np.asarray(ph.values, dtype=np.float64))) if ph.ndim == 1 else None
    raise core.HarnessError(f"unknown descriptor {t!r}")


def _judge_outs(ck, ds, outs, case, what):
    """the model's result descriptors of one finalize_data call against the real result dataset; returns problems"""
    bad = []
    rank3 = ds.matrix.ndim == 3
    for o in outs:
        k = o[0]
        if k == "coord":
            name, want = core.dec(o[1]), [core.dec(x) for x in o[2]]
            if name not in ds.coords or [str(x) for x in ds.coords[name].values] != want:
                bad.append(f"coordinate {name!r}: {list(ds.coords[name].values) if name in ds.coords else None} vs model {want}")
        elif k == "coordon":
            name, dim = core.dec(o[1]), core.dec(o[2])
            if name not in ds.coords or tuple(ds.coords[name].dims) != (dim,):
                bad.append(f"coordinate {name!r} is not a coordinate on {dim!r}")
        elif k == "var":
            name, dims, ldim, r3 = core.dec(o[1]), tuple(core.dec(x) for x in o[2]), o[3], o[4]
            if r3 != "none" and (r3 == "T") != rank3:
                continue
            if name not in ds:
                bad.append(f"variable {name!r} is missing")
                continue
            if tuple(ds[name].dims) != dims:
                bad.append(f"variable {name!r}: dims {tuple(ds[name].dims)} vs model {dims}")
                continue
            for lab, ex_ in o[5]:
                want = _eval_bexpr(ds, ex_)
                if want is None:
                    continue
                got = ds[name]
                if ldim != "none":
                    coord = ds.coords[core.dec(ldim)].values
                    key = core.dec(lab)
                    key = int(key) if coord.dtype.kind in "iu" else key
                    got = got.sel({core.dec(ldim): key})
                ck.count("S:finalize-entry-checked")
                g = np.asarray(got.transpose(*want.dims).values, dtype=np.float64)
                if not close(g, np.asarray(want.values, dtype=np.float64), 1e-12):
                    bad.append(f"variable {name!r} under {core.dec(lab)!r} is not {ex_}")
                    break
        elif k == "lincomb":
            name, dims = core.dec(o[1]), tuple(core.dec(x) for x in o[2])
            if name not in ds or tuple(ds[name].dims) != dims:
                bad.append(f"variable {name!r} missing or dims {tuple(ds[name].dims) if name in ds else None} vs model {dims}")
                continue
            mc = dims[1][len("component_"):]
            A = np.asarray(ds[f"a_matrix_{mc}"].values, dtype=np.float64)          # component x species (own compartments)
            terms = [np.asarray(_eval_bexpr(ds, t).values, dtype=np.float64) for t in o[3]]
            if A.shape[1] != len(terms):
                bad.append(f"{name!r}: a_matrix_{mc} has {A.shape[1]} species columns, the model combines {len(terms)} species")
                continue
            want = sum(np.outer(t, A[:, j]) for j, t in enumerate(terms)) if terms else np.zeros(ds[name].shape)
            ck.count("S:finalize-das-checked")
            if not close(np.asarray(ds[name].values, dtype=np.float64), want, 1e-10):
                bad.append(f"{name!r} is not the species associated spectra of the megacomplex' own compartments x its A-matrix")
    return bad


def check_finalize(ck, batch, spec, res, case):
    """correspondence for `finalize_data`: the model's by-label result descriptors (`fin model`, and the interpretation of the
    regenerated table `fin gen`) evaluated on the real result datasets with xarray's own label lookup"""
    mcd = dict(spec["megacomplex"])
    for dlabel, d in spec["dataset"]:
        if dlabel not in res.data or d.get("global_megacomplex"):
            continue
        ds = res.data[dlabel]
        gdim, mdim = ds.attrs["global_dimension"], ds.attrs["model_dimension"]
        names = list(d["megacomplex"])
        tabs = own_tables(spec, dlabel, None)
        allm = core.lst(core.lst([core.enc(CLS[mcd[n]["type"]]), core.enc(n),
                                  core.strs(list(dict(mcd[n]["shape"])) if mcd[n]["type"] == "spectral" else [])]) for n in names)
        decays = [n for n in names if mcd[n]["type"].startswith("decay")]
        decm = core.lst(core.lst([core.enc(CLS[mcd[n]["type"]]), core.enc(n), core.strs(tabs[n][0])]) for n in decays)
        jobs = []
        seen = set()
        for n in names:
            t = mcd[n]["type"]
            kind = "decay" if t.startswith("decay") else FIN_KIND[t]
            if kind in ("decay", "spectral"):
                if kind in seen:
                    continue
                seen.add(kind)
            args = (f"{kind} {decm if kind == 'decay' else allm} {core.enc(n)} {core.enc(dlabel)} {core.enc(gdim)} {core.enc(mdim)} "
                    f"{core.strs(mcd[n].get('labels', []))} {int(mcd[n].get('order', 0))}")
            jobs.append((kind, n, args))
        for kind, n, args in jobs:
            def judge(ans, kind=kind, n=n, ds=ds, dlabel=dlabel):
                ck.count("S:finalize-checked:" + kind)
                if ans[0] != ans[1]:
                    ck.disagree("finalize-table:" + kind, f"the interpretation of the table regenerated from the source of finalize_data ({kind}) "
                                f"differs from the hand-written model: generated {ans[1][:200]}", {**case, "dataset": dlabel, "megacomplex": n})
                if not ans[0].startswith("fin "):
                    raise core.HarnessError(f"fin model {kind}: {ans[0][:200]}")
                outs = core.parse_tree(ans[0][4:])[0]
                try:
                    bad = _judge_outs(ck, ds, outs, case, kind)
                except KeyError as e:
                    bad = [f"label lookup failed on the real result: {e}"]
                if bad:
                    ck.disagree("finalize:" + kind, f"dataset {dlabel!r}, megacomplex {n!r}: {bad[0]}", {**case, "dataset": dlabel, "megacomplex": n})
            batch.add([f"fin model {args}", f"fin gen {args}"], judge)


def run_result(spec, nfev=1):
    try:
        return M.optimize_spec(spec, nfev), None
    except ZeroDivisionError:
        return None, "dof-zero"
    except Exception as e:
        return None, f"{type(e).__name__}: {str(e)[:160]}"


def spec_types(spec):
    return sorted({mc["type"] for _, mc in spec["megacomplex"]})


def check_twin(ck, spec, tag, what=None, nfev=1, twin=None, batch=None):
    rng = ck.rng
    twin = twin if twin is not None else M.permute(spec, rng, what)
    what_s = "all" if what is None else "+".join(sorted(what))
    case = {"kind": "twin", "spec": spec, "twin": twin, "nfev": nfev}
    tkey = "+".join(spec_types(spec))
    ck.case(("twin", json.dumps(case, sort_keys=True)), True)
    ck.count("D:" + tag)
    ck.count("D:permuted=" + what_s)
    for ty in spec_types(spec):
        ck.count("D:type=" + ty)
    ck.oracle_evals += 1
    d4 = False
    try:
        d4 = bool(M.d4_misclassified(spec) or M.d4_misclassified(twin))
    except Exception:
        pass
    if d4:
        ck.count("D:is_sequential-misclassified(D4)")
    # matrix level
    try:
        ma, mb = M.dataset_matrices(spec), M.dataset_matrices(twin)
    except Exception as e:
        ck.violation(f"matrix-raises:{type(e).__name__}:{tkey}", f"calculating a dataset matrix raised {type(e).__name__}: {str(e)[:160]}", case)
        return
    if len(ma) >= 2:
        sets = [set(v[0]) for v in ma.values()]
        inter, union = set.intersection(*sets), set.union(*sets)
        ck.count("D:linked-datasets:labels=" + ("disjoint" if not any(a & b for i, a in enumerate(sets) for b in sets[i + 1:])
                                                else "equal" if inter == union else "partly-shared"))
        if [l for l, _ in spec["dataset"]] != [l for l, _ in twin["dataset"]]:
            ck.count("D:linked-datasets:dataset-order-permuted")
    for dl in ma:
        la, xa = ma[dl]
        lb, xb = mb[dl]
        if sorted(la) != sorted(lb):
            ck.violation("twin-label-set:" + tkey, f"dataset {dl!r}: clp labels {la} vs {lb} for two declaration orders", case)
            return
        ca, cb = np_cols(la, xa), np_cols(lb, xb)
        bad = [l for l in la if not close(ca[l], cb[l], 1e-8)]
        if bad:
            key = "twin-matrix-column:is-sequential-misclassified" if d4 else "twin-matrix-column:" + tkey
            ck.violation(key, f"dataset {dl!r}: the matrix column under label {bad[0]!r} depends on the declaration order "
                         f"(permuted: {what_s}; {len(bad)} labels differ, max abs difference "
                         f"{max(float(np.max(np.abs(ca[l] - cb[l]))) for l in bad):.3g})", {**case, "dataset": dl, "label": bad[0]})
            return
    # global matrices of full-model datasets
    try:
        ga, gb = M.global_matrices(spec), M.global_matrices(twin)
    except Exception as e:
        ck.violation(f"matrix-raises:{type(e).__name__}:{tkey}", f"calculating a global matrix raised {type(e).__name__}: {str(e)[:160]}", case)
        return
    for dl in ga:
        la, xa = ga[dl]
        lb, xb = gb[dl]
        ck.count("D:full-model-dataset")
        ca, cb = np_cols(la, xa), np_cols(lb, xb)
        bad = sorted(la) != sorted(lb) or [l for l in la if not close(ca[l], cb[l], 1e-8)]
        if bad:
            ck.violation("twin-global-matrix-column:" + tkey, f"dataset {dl!r}: the global matrix column under "
                         f"{bad if bad is True else bad[0]!r} depends on the declaration order (permuted: {what_s})", {**case, "dataset": dl})
            return
    # result level
    ra, ea = run_result(spec, nfev)
    rb, eb = run_result(twin, nfev)
    if ea or eb:
        if ea == "dof-zero" and eb == "dof-zero":
            ck.count("D:dof-zero")
            return
        ck.violation(f"optimize-raises:{(ea or eb).split(':')[0]}:{tkey}",
                     f"optimize() raised for a model of builtin megacomplexes: first order: {ea}; permuted order: {eb}", case)
        return
    if batch is not None:
        check_result_selection(ck, batch, spec, ra, case)
        check_finalize(ck, batch, spec, ra, case)
        check_finalize(ck, batch, twin, rb, case)
    cond = max([conditioning(r.data[dl]) for r in (ra, rb) for dl in r.data] + [1.0])
    ck.count("D:well-conditioned" if cond < 1e5 else "D:ill-conditioned(fit comparisons skipped)")
    for dl, _ in spec["dataset"]:
        if dl not in ra.data or dl not in rb.data:
            ck.violation("twin-dataset-missing", f"no result for dataset {dl!r}", case)
            return
        for r, s in ((ra, spec), (rb, twin)):
            sc = self_consistency_full if dict(s["dataset"])[dl].get("global_megacomplex") else self_consistency
            for key, what_txt in sc(ck, s, dl, r.data[dl], case):
                ck.violation("result:" + key, f"dataset {dl!r}: {what_txt}", {**case, "dataset": dl, "order": "first" if r is ra else "permuted"})
        for key, what_txt in compare_datasets(ck, ra.data[dl], rb.data[dl], case, what_s, cond):
            if d4:
                key = "twin-result:is-sequential-misclassified"
            ck.violation(key + ("" if d4 else ":" + tkey), f"dataset {dl!r}: {what_txt}", {**case, "dataset": dl})
            break
    # the fit as a whole
    conds = [cond]
    if max(conds) < 1e5 and not d4:
        pa = {p.label: p.value for p in ra.optimized_parameters.all()}
        pb = {p.label: p.value for p in rb.optimized_parameters.all()}
        if set(pa) != set(pb) or any(not close(pa[k], pb[k], 1e-6 * max(conds)) for k in pa):
            ck.violation("twin-fit-parameters:" + tkey, "optimized parameters differ between the two declaration orders", case)
        ca, cb = ra.chi_square, rb.chi_square
        if ca is not None and cb is not None and not close(ca, cb, 1e-7 * max(conds)):
            ck.violation("twin-fit-chi-square:" + tkey, f"chi_square {ca} vs {cb} for two declaration orders", case)


def stream_twins(ck, batch):
    rng = ck.rng
    n = ck.n(72, 1200)
    kinds = [None, {"megacomplexes"}, {"oscillations", "compartments", "shapes"}, {"sections", "datasets"}, {"k_entries", "k_matrices", "compartments"}]
    for i in range(n):
        spec = gen_focus(rng, i)
        nfev = 1      # evaluation at the initial parameters: iterated fits amplify rounding differences of the two orders
        check_twin(ck, spec, "generated", what=kinds[i % len(kinds)], nfev=nfev, batch=batch)
        if i < 1:
            ck.sample({"stream": "D", "megacomplex": spec["megacomplex"]})
        if len(batch.jobs) > 400:
            batch.flush(ck)
    check_twin(ck, M.guide_spec(rng), "clp-guide", batch=batch)
    batch.flush(ck)


def linked_spec(rng, n_ds):
    """`n_ds` datasets on one global axis in one (linked) group whose clp labels are partly shared (neither the same
    label set everywhere nor pairwise disjoint); well separated rates so that the clps can be compared"""
    b = M.SpecBuilder(rng)
    spec = b.spec
    spec["groups"] = {"default": {"link_clp": True, "residual_function": "variable_projection"}}
    g = [600.0 + 20.0 * i for i in range(rng.randint(2, 3))]
    irf = rng.choice(["none", "gaussian"])
    pool = rng.sample(M.COMP_POOL, 4)
    chosen = []
    for _ in range(50):
        chosen = [rng.sample(pool, rng.randint(2, 3)) for _ in range(n_ds)]
        sets = [set(c) for c in chosen]
        if any(a & c for i, a in enumerate(sets) for c in sets[i + 1:]) and set.intersection(*sets) != set.union(*sets):
            break
    for di in range(n_ds):
        dlabel = ["d1", "d2", "d10"][di]
        t = [-0.25 + 0.375 * i for i in range(rng.randint(12, 14))]
        comps = chosen[di]
        rates = rng.sample([0.25, 1.0, 4.0], len(comps))
        mname = f"m{len(spec['megacomplex']) + 1}"
        typ = rng.choice(["decay-parallel", "decay-parallel", "decay-sequential"])
        spec["megacomplex"].append([mname, {"type": typ, "compartments": comps, "rates": [b.par(r + 0.0625 * di, "k") for r in rates]}])
        d = {"megacomplex": [mname], "megacomplex_scale": None, "irf": b.irf(irf, len(g)) if di == 0 or irf == "none" else spec["irf"][0][0],
             "initial_concentration": None, "model_dim": "time", "global_dim": "spectral", "model_axis": t, "global_axis": list(g)}
        if rng.random() < 0.4:
            bname = f"m{len(spec['megacomplex']) + 1}"
            spec["megacomplex"].append([bname, {"type": "baseline", "dimension": "time"}])
            d["megacomplex"].append(bname)
        if rng.random() < 0.3 and di > 0:
            d["global_axis"] = d["global_axis"][:-1] if len(g) > 2 else d["global_axis"]
        d["data"] = [[round(rng.uniform(-1, 3), 3) for _ in d["global_axis"]] for _ in t]
        spec["dataset"].append([dlabel, d])
    return spec


def shared_clp_oracle(ck, spec, res, case):
    """linked group: datasets that share a clp label share its value at every common global-axis point — by label"""
    das = {dl: res.data[dl].clp for dl, _ in spec["dataset"] if dl in res.data}
    names = list(das)
    for i, a in enumerate(names):
        for b in names[i + 1:]:
            ga = dict(spec["dataset"])[a].get("global_dim", "spectral")
            common = sorted(set(das[a].coords["clp_label"].values.tolist()) & set(das[b].coords["clp_label"].values.tolist()))
            for l in common:
                xa, xb = das[a].sel(clp_label=l), das[b].sel(clp_label=l)
                pts = sorted(set(xa.coords[ga].values.tolist()) & set(xb.coords[ga].values.tolist()))
                va = np.asarray(xa.sel({ga: pts}).values, dtype=np.float64)
                vb = np.asarray(xb.sel({ga: pts}).values, dtype=np.float64)
                ck.count("L:shared-clp-checked")
                if not np.array_equal(va, vb):
                    ck.violation("linked-clp-not-shared-by-label", f"linked datasets {a!r} and {b!r} report different values for the "
                                 f"shared clp label {l!r} at common global-axis points", {**case, "label": l})
                    return


def stream_linked(ck, batch):
    """linked groups whose datasets share only part of their labels: every order of the datasets (2 or 3 datasets), clps
    matrices, residuals compared by label; the model's union label list against the labels the result reports"""
    rng = ck.rng
    n = 0
    for i in range(ck.n(6, 60)):
        n_ds = 2 if i % 3 else 3
        spec = linked_spec(rng, n_ds)
        if spec is None:
            continue
        res, err = run_result(spec)
        if res is None:
            if err != "dof-zero":
                ck.violation("optimize-raises:" + err.split(":")[0] + ":linked", f"optimize() of a linked group raised {err}", {"kind": "twin", "spec": spec, "nfev": 1})
            continue
        ck.count(f"L:linked-group:datasets={n_ds}")
        shared_clp_oracle(ck, spec, res, {"kind": "twin", "spec": spec, "nfev": 1})
        # model: the union label list (first seen first) contains exactly the labels of the datasets, once
        mats = M.dataset_matrices(spec)
        per = [mats[dl][0] for dl, _ in spec["dataset"]]

        def judge(ans, per=per, spec=spec):
            got = [core.dec(x) for x in core.parse_tree(ans[0][5:])[0]] if ans[0].startswith("strs ") else None
            want = []
            for ls in per:
                want += [l for l in ls if l not in want]
            if got != want:
                ck.disagree("union-labels", f"union of the clp labels of a linked group: first-seen union {want}, model {got}",
                            {"kind": "twin", "spec": spec, "nfev": 1})
        batch.add([f"unionlabels {core.lst(core.strs(c) for c in per)}"], judge)
        orders = [o for o in itertools.permutations(range(n_ds)) if list(o) != list(range(n_ds))]
        if ck.quick and len(orders) > 2:
            orders = rng.sample(orders, 2)
        for o in orders:
            twin = copy.deepcopy(spec)
            twin["dataset"] = [twin["dataset"][k] for k in o]
            check_twin(ck, spec, "linked-dataset-order", twin=twin, batch=batch)
            n += 1
    batch.flush(ck)
    ck.extra["linked_partly_shared"] = {"dataset_order_twins": n}


def stream_exhaustive_permutations(ck):
    """every permutation of the declared labels of one megacomplex (quick: 3 labels, thorough: 4) for every
    permutable builtin type, with and without IRF; every order of 3 megacomplexes of a dataset: matrices by label"""
    rng = ck.rng
    n = 3 if ck.quick else 4
    combos = [("damped-oscillation", "none"), ("damped-oscillation", "gaussian"), ("damped-oscillation", "shift"),
              ("pfid", "gaussian"), ("pfid", "dispersion"), ("decay-parallel", "none"), ("decay-parallel", "multi-gaussian"),
              ("spectral", "none"), ("decay", "none"), ("decay", "gaussian")]
    total = 0
    for typ, irf in combos:
        spec = M.labelled_spec(rng, typ, n, irf)
        try:
            base = M.dataset_matrices(spec)
            d4 = typ == "decay" and bool(M.d4_misclassified(spec))
        except Exception as e:
            ck.violation(f"matrix-raises:{type(e).__name__}:{typ}", f"calculating the matrix raised {type(e).__name__}: {str(e)[:160]}",
                         {"kind": "pipeline", "spec": spec, "dataset": "d1"})
            continue
        bl, bm = base["d1"]
        bcols = np_cols(bl, bm)
        for perm in itertools.permutations(range(n)):
            twin = M.apply_label_perm(spec, perm)
            case = {"kind": "twin", "spec": spec, "twin": twin, "nfev": 1}
            ck.case(("perm", typ, irf, perm, json.dumps(spec, sort_keys=True)), True)
            ck.count(f"E:label-permutations:{typ}:irf={irf}")
            ck.oracle_evals += 1
            total += 1
            try:
                tl, tm = M.dataset_matrices(twin)["d1"]
                d4t = typ == "decay" and bool(M.d4_misclassified(twin))
            except Exception as e:
                ck.violation(f"matrix-raises:{type(e).__name__}:{typ}", f"calculating the matrix raised {type(e).__name__}: {str(e)[:160]}", case)
                break
            tcols = np_cols(tl, tm)
            bad = sorted(tl) != sorted(bl) or [l for l in bl if not close(bcols[l], tcols[l], 1e-8)]
            if bad:
                key = "twin-matrix-column:is-sequential-misclassified" if (d4 or d4t) else f"twin-matrix-column:{typ}"
                ck.violation(key, f"{typ} (irf {irf}): declaring the {n} labels in the order {perm} changes the column under "
                             f"{bad if bad is True else bad[0]!r}", case)
                if not (d4 or d4t):
                    break
    # three megacomplexes of a dataset in all six orders
    for j in range(ck.n(4, 30)):
        spec = None
        for _ in range(20):
            cand = M.gen_spec(rng, n_datasets=1, n_mc=3)
            if len(cand["dataset"][0][1]["megacomplex"]) == 3:
                spec = cand
                break
        if spec is None:
            continue
        try:
            base = M.dataset_matrices(spec)
        except Exception as e:
            ck.violation(f"matrix-raises:{type(e).__name__}:" + "+".join(spec_types(spec)),
                         f"calculating the matrix raised {type(e).__name__}: {str(e)[:160]}", {"kind": "pipeline", "spec": spec, "dataset": "d1"})
            continue
        bl, bm = base["d1"]
        bcols = np_cols(bl, bm)
        for order in itertools.permutations(range(3)):
            twin = M.apply_megacomplex_order(spec, order)
            case = {"kind": "twin", "spec": spec, "twin": twin, "nfev": 1}
            ck.case(("mc-order", order, json.dumps(spec, sort_keys=True)), True)
            ck.count("E:megacomplex-orders")
            ck.oracle_evals += 1
            total += 1
            try:
                tl, tm = M.dataset_matrices(twin)["d1"]
            except Exception as e:
                ck.violation(f"matrix-raises:{type(e).__name__}:" + "+".join(spec_types(spec)),
                             f"calculating the matrix raised {type(e).__name__}: {str(e)[:160]}", case)
                break
            tcols = np_cols(tl, tm)
            bad = sorted(tl) != sorted(bl) or [l for l in bl if not close(bcols[l], tcols[l], 1e-8)]
            if bad:
                ck.violation("twin-matrix-column:megacomplex-order:" + "+".join(spec_types(spec)),
                             f"listing the three megacomplexes of the dataset in the order {order} changes the column under "
                             f"{bad if bad is True else bad[0]!r}", case)
                break
    ck.extra["exhaustive_permutations"] = {"labels_per_megacomplex": n, "permutations_each": math.factorial(n),
                                           "type_irf_combinations": len(combos), "cases": total}


# ======================================================================================================
# stream F — full models (global megacomplexes) on table megacomplexes: exact regime, by label *pair*
# ======================================================================================================
def full_scheme_spec(case):
    """case {"mcs", "gmcs", "n_model", "n_global", "data", "weight"} -> spec of harness.gen_scheme"""
    params = {"p.1": 1.0}

    def par(v):
        label = f"p.{len(params) + 1}"
        params[label] = float(v)
        return label

    def conv(mcs):
        scaled = any(mc.get("scale") is not None for mc in mcs)
        return [{"labels": list(mc["labels"]), "index_dependent": np.asarray(mc["base"]).ndim == 3, "base": mc["base"], "pars": None,
                 "scale": par(mc["scale"] if mc.get("scale") is not None else 1.0) if scaled else None} for mc in mcs]
    ds = {"label": "d1", "group": "default", "global_axis": [float(i + 1) for i in range(case["n_global"])],
          "model_axis": [float(i) for i in range(case["n_model"])], "dims_order": case.get("dims_order", "mg"),
          "data": case["data"], "weight": case.get("weight"), "scale": None, "mcs": conv(case["mcs"]), "gmcs": conv(case["gmcs"])}
    return {"groups": {"default": {"link_clp": False, "residual_function": "variable_projection"}}, "clp_link_tolerance": 0.0,
            "clp_link_method": "nearest", "parameters": params, "datasets": [ds], "constraints": [], "relations": [],
            "penalties": [], "weights": []}


def real_full(case):
    """the API-level outputs of a one-evaluation optimize() of a full-model dataset, read by label"""
    from glotaran.optimization.optimize import optimize
    scheme, _, _, _ = gen_scheme.build(full_scheme_spec(case))
    res = optimize(scheme, verbose=False, raise_exception=True)
    ds = res.data["d1"]
    out = {"gl": [str(x) for x in ds.global_matrix.coords["global_clp_label"].values],
           "ml": [str(x) for x in ds.matrix.coords["clp_label"].values]}
    out["G"] = {g: np.asarray(ds.global_matrix.sel(global_clp_label=g).values, dtype=np.float64) for g in out["gl"]}
    mdims = ("global", "model") if ds.matrix.ndim == 3 else ("model",)
    out["M"] = {l: np.asarray(ds.matrix.sel(clp_label=l).transpose(*mdims).values, dtype=np.float64) for l in out["ml"]}
    out["clp_dims"] = tuple(ds.clp.dims)
    out["clp_coords"] = ([str(x) for x in ds.clp.coords["global_clp_label"].values], [str(x) for x in ds.clp.coords["clp_label"].values])
    out["clp"] = {(g, l): float(ds.clp.sel(global_clp_label=g, clp_label=l)) for g in out["gl"] for l in out["ml"]}
    out["clp_raw"] = np.asarray(ds.clp.values, dtype=np.float64)
    wres = ds.weighted_residual if "weighted_residual" in ds else ds.residual
    out["wres"] = np.asarray(wres.transpose("model", "global").values, dtype=np.float64)
    out["res"] = np.asarray(ds.residual.transpose("model", "global").values, dtype=np.float64)
    out["fitted"] = np.asarray(ds.fitted_data.transpose("model", "global").values, dtype=np.float64)
    return out


def full_statement(case):
    """the statement, independent of the Lean model: by-label global / model matrix (exact Fractions) and the full
    matrix by label pair (row g * n_model + m) as float arrays"""
    gcols, _ = statement_dataset(case["gmcs"], 1)
    mcols, any3 = statement_dataset(case["mcs"], case["n_global"])
    return gcols, mcols, any3


def full_matrix_by_pair(gcols, mcols, any3, n_model, n_global, weight):
    """{(G, L): column of the full matrix} from by-label columns (floats)"""
    out = {}
    for G, gc in gcols.items():
        for L, mc in mcols.items():
            col = np.zeros(n_global * n_model)
            for g in range(n_global):
                for m in range(n_model):
                    w = 1.0 if weight is None else float(weight[m][g])
                    col[g * n_model + m] = w * float(gc[g]) * float(mc[g][m] if any3 else mc[m])
            out[(G, L)] = col
    return out


def full_conditioning(case):
    gcols, mcols, any3 = full_statement(case)
    cols = full_matrix_by_pair(gcols, mcols, any3, case["n_model"], case["n_global"], case.get("weight"))
    a = np.stack([cols[k] for k in sorted(cols)], axis=1)
    if a.shape[0] < a.shape[1] or np.linalg.matrix_rank(a) < a.shape[1]:
        return float("inf")
    return float(np.linalg.cond(a))


def check_full_table(ck, batch, case, tag, reference=None):
    """one declaration order of a full-model dataset; `reference` = the by-label outputs of another order (twin)"""
    try:
        real = real_full(case)
    except Exception as e:
        ck.violation("full-model-raises:" + type(e).__name__, f"optimize() of a full-model dataset raised {type(e).__name__}: {str(e)[:160]}", case)
        return None
    n_model, n_global, weight = case["n_model"], case["n_global"], case.get("weight")
    ck.case(("full", json.dumps(case, sort_keys=True)), True)
    ck.count("F:" + tag)
    ck.count(f"F:global-megacomplexes={len(case['gmcs'])}")
    ck.count(f"F:megacomplexes={len(case['mcs'])}")
    ck.count("F:weighted" if weight is not None else "F:unweighted")
    gcols, mcols, any3 = full_statement(case)
    ck.count("F:model-rank=3" if any3 else "F:model-rank=2")
    ck.count("F:global-scaled" if any(mc.get("scale") is not None for mc in case["gmcs"]) else "F:global-unscaled")
    shared = set(gcols) & set(mcols)
    ck.count("F:label-in-both-dimensions" if shared else "F:labels-disjoint")
    cond = full_conditioning(case)
    # ---- oracle: the statement on the real outputs, by label (no Lean model involved) -------------------------------
    ck.oracle_evals += 1
    if len(set(real["gl"])) != len(real["gl"]) or set(real["gl"]) != set(gcols):
        ck.violation("global-matrix-labels", f"global_clp_label {real['gl']} is not the duplicate-free union of the labels of the "
                     f"global megacomplexes", case)
        return None
    if set(real["ml"]) != set(mcols) or real["clp_coords"] != (real["gl"], real["ml"]) or \
            set(real["clp_dims"]) != {"global_clp_label", "clp_label"}:
        ck.violation("full-clp-coordinates", f"clp has dims {real['clp_dims']} with coordinates {real['clp_coords']}; the matrices "
                     f"carry global_clp_label={real['gl']}, clp_label={real['ml']}", case)
        return None
    for g in real["gl"]:
        w = gcols[g]
        if real["G"][g].shape != w.shape or not all(Fraction(float(x)) == y for x, y in zip(real["G"][g].ravel().tolist(), w.ravel().tolist())):
            ck.violation("global-matrix-column-not-scaled-sum", f"global_matrix under {g!r} is not the sum of the (scaled) columns the "
                         f"global megacomplexes contribute under {g!r}", {**case, "label": g, "observed": real["G"][g].tolist()})
            return None
    for l in real["ml"]:
        w = mcols[l]
        if real["M"][l].shape != w.shape or not all(Fraction(float(x)) == y for x, y in zip(real["M"][l].ravel().tolist(), w.ravel().tolist())):
            ck.violation("full-model-matrix-column", f"matrix under {l!r} of a full-model dataset is not the sum of the megacomplex columns", {**case, "label": l})
            return None
    # recomposition by label pair: fitted = sum_{G,L} clp(G, L) * global_matrix(G) x matrix(L); residual = data - fitted
    fitted = np.zeros((n_model, n_global))
    for g in real["gl"]:
        for l in real["ml"]:
            mc = real["M"][l]
            fitted += real["clp"][(g, l)] * (mc.T if mc.ndim == 2 else np.outer(mc, np.ones(n_global))) * real["G"][g][None, :]
    data = np.asarray(case["data"], dtype=np.float64)
    scale = max(1.0, float(np.max(np.abs(data))))
    if not np.allclose(fitted, real["fitted"], rtol=0, atol=1e-9 * scale * max(1.0, min(cond, 1e6))):
        ck.violation("full-fitted-not-recomposed-by-label", "fitted_data is not the sum over the label pairs (G, L) of "
                     "clp.sel(global_clp_label=G, clp_label=L) x global_matrix.sel(G) x matrix.sel(L)",
                     {**case, "max_abs_difference": float(np.max(np.abs(fitted - real["fitted"])))})
        return None
    if not np.allclose(data - real["fitted"], real["res"], rtol=0, atol=1e-9 * scale):
        ck.violation("full-residual-not-data-minus-fitted", "residual != data - fitted_data for a full-model dataset", case)
        return None
    if cond < 1e6:
        # least squares: the weighted residual is orthogonal to every column of the full matrix (by label pair)
        cols = full_matrix_by_pair(gcols, mcols, any3, n_model, n_global, weight)
        r = real["wres"].T.reshape(-1)
        rn = max(1.0, float(np.linalg.norm(r)))
        for k, c in cols.items():
            if abs(float(c @ r)) > 1e-8 * max(1.0, float(np.linalg.norm(c))) * rn * max(1.0, cond):
                ck.violation("full-residual-not-orthogonal", f"the residual of a full-model dataset is not orthogonal to the column of the "
                             f"label pair {k}", {**case, "pair": list(k)})
                return None
    if reference is not None and cond < 1e6:
        tol = 1e-9 * max(1.0, cond)
        for g in real["gl"]:
            if g not in reference["G"] or not np.array_equal(reference["G"][g], real["G"][g]):
                ck.violation("full-twin-global-matrix", f"global_matrix under {g!r} changes with the declaration order", {**case, "label": g})
                return None
        for k, v in real["clp"].items():
            if k not in reference["clp"] or not close(v, reference["clp"][k], tol):
                ck.violation("full-twin-clp", f"clp under the label pair {k} changes with the declaration order of the (global) "
                             f"megacomplexes: {reference['clp'].get(k)} vs {v}", {**case, "pair": list(k)})
                return None
        if not close(real["res"], reference["res"], tol) or not close(real["fitted"], reference["fitted"], tol):
            ck.violation("full-twin-fit", "residual / fitted_data of a full-model dataset change with the declaration order", case)
            return None

    # ---- correspondence: the Lean model of the full-model path, by label ----------------------------------------------
    def judge(ans):
        a = ans[0]
        if not a.startswith("full "):
            ck.disagree("full-model-answer", f"model answered {a[:80]!r}", case)
            return
        mgl, gbody, mml, mbody, ma, my, sol = core.parse_tree(a[5:])
        mgl, mml = [core.dec(x) for x in mgl], [core.dec(x) for x in mml]
        if sorted(mgl) != sorted(real["gl"]) or sorted(mml) != sorted(real["ml"]):
            ck.disagree("full-labels", f"labels: implementation {real['gl']} x {real['ml']}, model {mgl} x {mml}", case)
            return
        if gbody[0] != "d2":
            ck.disagree("full-global-rank", "model: global matrix is not 2-D", case)
            return
        gfc = frac_cols(mgl, "d2", [[Fraction(x) for x in row] for row in gbody[1]])
        for g in real["gl"]:
            if not exact_equal(gfc[g], real["G"][g]):
                ck.disagree("full-global-column", f"global_matrix under {g!r} differs between implementation and model", {**case, "label": g})
                return
        if mbody[0] == "d2":
            mfc = frac_cols(mml, "d2", [[Fraction(x) for x in row] for row in mbody[1]])
        else:
            mfc = frac_cols(mml, "d3", [[[Fraction(x) for x in row] for row in sl] for sl in mbody[1]])
        for l in real["ml"]:
            if not exact_equal(mfc[l], real["M"][l]):
                ck.disagree("full-matrix-column", f"matrix under {l!r} differs between implementation and model", {**case, "label": l})
                return
        # the model's full matrix against the statement, by label pair (exact)
        cols = full_matrix_by_pair(gcols, mcols, any3, n_model, n_global, weight)
        for j, g in enumerate(mgl):
            for k, l in enumerate(mml):
                mc = [Fraction(row[j * len(mml) + k]) for row in ma]
                if [Fraction(float(x)) for x in cols[(g, l)]] != mc:
                    ck.disagree("full-kron-column", f"model: column of the pair ({g}, {l}) of the full matrix is not weight x global x model", case)
                    return
        if sol == "unsolvable":
            if cond < 1e6:
                ck.disagree("full-unsolvable", "model cannot solve a well-conditioned full-model problem", case)
            return
        ck.count("F:solved-in-model")
        mc_, mr, pairs = sol
        if cond < 1e6:
            tol = 1e-9 * max(1.0, cond)
            for j, g in enumerate(mgl):
                for k, l in enumerate(mml):
                    if pairs[j][k] == "keyerror" or not close(float(Fraction(pairs[j][k])), real["clp"][(g, l)], tol):
                        ck.disagree("full-clp-by-pair", f"clp under the pair ({g}, {l}): implementation {real['clp'][(g, l)]}, model "
                                    f"fullClpAt {pairs[j][k]}", {**case, "pair": [g, l]})
                        return
            mres = np.array([float(Fraction(x)) for x in mr]).reshape(n_global, n_model).T
            if not close(mres, real["wres"], tol):
                ck.disagree("full-residual", "(weighted) residual differs between implementation and model", case)
                return
        if mgl != real["gl"] or mml != real["ml"]:
            ck.diagnostic("full-model label order differs (by-label content equal)", {"impl": [real["gl"], real["ml"]], "model": [mgl, mml]})

    ax = core.rats([float(i + 1) for i in range(n_global)])
    wt = frac_mat(weight) if weight is not None else "none"
    line = (f"fullmodel {ax} {frac_mat(case['data'])} {wt} {core.lst(mc_line(mc) for mc in case['mcs'])} "
            f"{core.lst(mc_line(mc) for mc in case['gmcs'])}")
    # `fullClpAt` (reshape + two coordinate look-ups) on the REAL reported clp array, incl. a KeyError probe
    raw = real["clp_raw"].reshape(-1)
    probes = [(real["gl"][0], real["ml"][-1]), (real["gl"][-1], real["ml"][0]), (real["ml"][0], real["gl"][0])]
    plines = [f"fullclp {core.strs(real['gl'])} {core.strs(real['ml'])} {core.rats(raw.tolist())} {core.enc(g)} {core.enc(l)}" for g, l in probes]

    def judge_all(ans):
        judge(ans[:1])
        for (g, l), a in zip(probes, ans[1:]):
            ck.count("F:clp-sel-probes")
            want = real["clp"].get((g, l)) if (g in real["gl"] and l in real["ml"]) else None
            got = Fraction(a[4:]) if a.startswith("rat ") else None
            if (want is None) != (got is None) or (want is not None and Fraction(want) != got):
                ck.disagree("full-clp-sel", f"clp.sel(global_clp_label={g!r}, clp_label={l!r}) = {want}, model fullClpAt on the same "
                            f"array: {a}", case)
                return
    batch.add([line] + plines, judge_all)
    return real


def rand_full_case(rng):
    for _ in range(200):
        n_model, n_global = rng.randint(3, 4), rng.randint(2, 4)
        mcs = rand_table_mcs(rng, rng.choice([1, 2, 2, 3]), n_model, n_global, ["s1", "s2", "s3", "s10"])
        for mc in mcs:
            if len(mc["labels"]) > 2:
                mc["labels"] = mc["labels"][:2]
                mc["base"] = np.asarray(mc["base"])[..., :2].tolist()
        gmcs = []
        for _g in range(rng.choice([1, 2, 2, 3])):
            labels = rng.sample(["g1", "g2", "s1", "g10"], rng.randint(1, 2))
            base = [[float(rng.randint(-3, 5)) * rng.choice([1.0, 1.0, 0.5]) for _l in labels] for _r in range(n_global)]
            gmcs.append({"labels": labels, "base": base, "scale": rng.choice([None, None, 2.0, 0.5, 3.0, -1.0])})
        if any(mc["scale"] is not None for mc in gmcs):
            for mc in gmcs:
                if mc["scale"] is None:
                    mc["scale"] = 1.0
        case = {"kind": "full-table", "n_model": n_model, "n_global": n_global, "mcs": mcs, "gmcs": gmcs,
                "data": [[float(rng.randint(-8, 8)) * rng.choice([1.0, 0.5]) for _g in range(n_global)] for _m in range(n_model)],
                "weight": [[rng.choice([1.0, 2.0, 0.5]) for _g in range(n_global)] for _m in range(n_model)] if rng.random() < 0.3 else None}
        n_pairs = len({l for mc in mcs for l in mc["labels"]}) * len({l for mc in gmcs for l in mc["labels"]})
        n_par = 1 + sum(1 for mc in mcs + gmcs if mc.get("scale") is not None)
        if n_pairs + n_par < n_model * n_global and full_conditioning(case) < 1e3:
            return case
    raise core.HarnessError("no well-conditioned full-model table case generated")


def permute_full_case(case, m_order, m_lp, g_order, g_lp):
    return {**case, "mcs": permute_table_mcs(case["mcs"], m_order, m_lp), "gmcs": permute_table_mcs(case["gmcs"], g_order, g_lp)}


def stream_full_tables(ck, batch):
    rng = ck.rng
    n_cfg = ck.n(10, 40)
    twins = 0
    for ci in range(n_cfg):
        case = rand_full_case(rng)
        base = check_full_table(ck, batch, case, "generated")
        if ci < 2:
            ck.sample({"stream": "F", "mcs": case["mcs"], "gmcs": case["gmcs"]})
        if base is None:
            continue
        ident = lambda mcs: tuple(tuple(range(len(mc["labels"]))) for mc in mcs)
        g_orders = list(itertools.permutations(range(len(case["gmcs"]))))
        m_orders = list(itertools.permutations(range(len(case["mcs"]))))
        g_lps = list(itertools.product(*[list(itertools.permutations(range(len(mc["labels"])))) for mc in case["gmcs"]]))
        m_lps = list(itertools.product(*[list(itertools.permutations(range(len(mc["labels"])))) for mc in case["mcs"]]))
        combos = [(mo, ml, go, gl) for go in g_orders for gl in g_lps for mo in m_orders for ml in m_lps]
        combos = [c for c in combos if c != (m_orders[0], ident(case["mcs"]), g_orders[0], ident(case["gmcs"]))]
        if ck.quick or len(combos) > 60:
            # every order of the global megacomplexes with every order of their labels; model side sampled
            chosen = [(rng.choice(m_orders), rng.choice(m_lps), go, gl) for go in g_orders for gl in g_lps][:ck.n(8, 40)]
            chosen += rng.sample(combos, min(len(combos), ck.n(3, 20)))
        else:
            chosen = combos
        for mo, ml_, go, gl_ in chosen:
            twin = permute_full_case(case, mo, ml_, go, gl_)
            check_full_table(ck, batch, twin, "permutation", reference=base)
            twins += 1
        if len(batch.jobs) > 200:
            batch.flush(ck)
    batch.flush(ck)
    ck.extra["full_model_tables"] = {"configurations": n_cfg, "permuted_twins": twins,
                                     "permuted": "order of the global megacomplexes (all), order of the labels inside each global megacomplex (all), "
                                                 "order of the megacomplexes and of their labels (sampled in the quick tier)"}


# ======================================================================================================
# stream G — full models of builtin megacomplexes (decay x spectral, spectral x decay, baseline on either side)
# ======================================================================================================
def check_full_builtin(ck, batch, spec, tag, what=None):
    """(1) matrix / global_matrix of the full-model dataset are, by label, the dataset matrices of its two halves (the
    dataset without global megacomplexes; the transposed dataset made of the global megacomplexes); (2) both halves go
    through the pipeline check (label tables, columns, combination against the Lean model and the by-label statement);
    (3) permuted twin of the whole model on the real code"""
    tkey = "+".join(spec_types(spec))
    for dlabel, d in spec["dataset"]:
        if not d.get("global_megacomplex"):
            continue
        case = {"kind": "full-builtin", "spec": spec, "dataset": dlabel}
        ck.case(("full-builtin", json.dumps(case, sort_keys=True)), True)
        ck.count("G:" + tag)
        ck.count(f"G:{d.get('model_dim', 'time')}-x-{d.get('global_dim', 'spectral')}")
        ck.count(f"G:global-megacomplexes={len(d['global_megacomplex'])}")
        ck.count("G:global-scaled" if d.get("global_megacomplex_scale") else "G:global-unscaled")
        for n in d["global_megacomplex"]:
            ck.count("G:global-type=" + dict(spec["megacomplex"])[n]["type"])
        ck.oracle_evals += 1
        mh, gh = M.half_specs(spec, dlabel)
        try:
            ml, mm = M.dataset_matrices(spec)[dlabel]
            gl, gm = M.global_matrices(spec)[dlabel]
            hml, hmm = M.dataset_matrices(mh)[dlabel]
            hgl, hgm = M.dataset_matrices(gh)[dlabel]
        except Exception as e:
            ck.violation(f"matrix-raises:{type(e).__name__}:{tkey}", f"calculating the matrices of a full-model dataset raised "
                         f"{type(e).__name__}: {str(e)[:160]}", case)
            continue
        ck.count("G:model-rank=3" if mm.ndim == 3 else "G:model-rank=2")
        if gm.ndim != 2:
            ck.violation("global-matrix-rank:" + tkey, f"the global matrix has {gm.ndim} dimensions", case)
            continue
        for name, (la, xa), (lb, xb) in (("matrix", (ml, mm), (hml, hmm)), ("global_matrix", (gl, gm), (hgl, hgm))):
            ca, cb = np_cols(la, xa), np_cols(lb, xb)
            if sorted(la) != sorted(lb) or any(not np.array_equal(ca[l], cb[l]) for l in la):
                ck.violation(f"full-{name}-not-its-megacomplexes:" + tkey,
                             f"dataset {dlabel!r}: {name} of the full model is not, by label, the combined matrix of its "
                             f"{'global ' if name == 'global_matrix' else ''}megacomplexes evaluated on the "
                             f"{'global' if name == 'global_matrix' else 'model'} axis", case)
        check_pipeline(ck, batch, mh, tag + ":model-half")
        check_pipeline(ck, batch, gh, tag + ":global-half")
    check_twin(ck, spec, tag + ":full-model", what=what)


def stream_full_builtin(ck, batch):
    rng = ck.rng
    kinds = [None, {"megacomplexes"}, {"shapes", "compartments", "megacomplexes"}, {"sections", "k_entries", "k_matrices", "compartments"}]
    for i in range(ck.n(14, 200)):
        spec = M.gen_full_spec(rng, ["time-x-spectral", "spectral-x-time"][i % 2])
        check_full_builtin(ck, batch, spec, "generated", what=kinds[i % len(kinds)])
        if i < 1:
            ck.sample({"stream": "G", "megacomplex": spec["megacomplex"],
                       "dataset": [[l, {k: v for k, v in d.items() if k != "data"}] for l, d in spec["dataset"]]})
        if len(batch.jobs) > 200:
            batch.flush(ck)
            flush_post(ck, batch)
    batch.flush(ck)
    flush_post(ck, batch)


# ======================================================================================================
# known-finding witnesses replayed on the real code on every run
# ======================================================================================================
D4_WITNESS = {
    "note": "Lean: decay_path_order_dependent_counterexample — K = {s1a<-s4: 1, s1a<-s1a: 5/16}, initial concentration s1a=1, s4=0",
    "compartments_a": ["s1a", "s4"], "j_a": [1.0, 0.0], "compartments_b": ["s4", "s1a"], "j_b": [0.0, 1.0],
    "k": [["s1a", "s4", 1.0], ["s1a", "s1a", 0.3125]],
}


def replay_d4_witness(ck, batch):
    """the Lean counter-example on the real KMatrix.is_sequential: the answer depends on the compartment order"""
    from glotaran.builtin.megacomplexes.decay.k_matrix import KMatrix

    w = D4_WITNESS
    km = KMatrix(label="k", matrix={(a, b): v for a, b, v in w["k"]})
    sa = bool(km.is_sequential(w["compartments_a"], np.array(w["j_a"])))
    sb = bool(km.is_sequential(w["compartments_b"], np.array(w["j_b"])))
    ck.count("witness:d4-replayed")
    ck.extra["d4_witness"] = {"is_sequential_first_order": sa, "is_sequential_permuted_order": sb}
    if sa != sb:
        ck.violation("twin-matrix-column:is-sequential-misclassified",
                     f"KMatrix.is_sequential depends on the order of the compartments: {w['compartments_a']} -> {sa}, "
                     f"{w['compartments_b']} -> {sb} (same scheme, same initial concentration by label)", {"kind": "d4-witness", **w})

    def judge(ans):
        a, b = parse_book(ans[0]), parse_book(ans[1])
        if a is None or b is None or a["sequential"] != sa or b["sequential"] != sb:
            ck.disagree("d4-witness", f"is_sequential on the witness: implementation ({sa}, {sb}), model "
                        f"({a and a['sequential']}, {b and b['sequential']})", {"kind": "d4-witness", **w})
    kl = core.lst([core.lst(core.lst([core.enc(a), core.enc(b), core.rat(v)]) for a, b, v in w["k"])])
    batch.add([f"decay {core.strs(w['compartments_a'])} {core.rats(w['j_a'])} [] {kl}",
               f"decay {core.strs(w['compartments_b'])} {core.rats(w['j_b'])} [] {kl}"], judge)


# ======================================================================================================
# entry points
# ======================================================================================================
def run_case(ck, batch, case):
    kind = case.get("kind")
    if kind == "combine":
        check_combine(ck, batch, case["left"], case["right"], "corpus")
    elif kind == "table-dataset":
        check_table_dataset(ck, batch, case["mcs"], case["n_rows"], case["n_idx"], "corpus")
    elif kind == "pipeline":
        check_pipeline(ck, batch, case["spec"], "corpus")
    elif kind == "twin":
        check_twin(ck, case["spec"], "corpus", nfev=case.get("nfev", 1), twin=case.get("twin"), batch=batch)
        check_pipeline(ck, batch, case["spec"], "corpus")
    elif kind == "d4-witness":
        replay_d4_witness(ck, batch)
    elif kind == "full-builtin":
        check_full_builtin(ck, batch, case["spec"], "corpus")
    elif kind == "full-table":
        base = check_full_table(ck, batch, case, "corpus")
        if case.get("twin") is not None and base is not None:
            check_full_table(ck, batch, {**case["twin"], "kind": "full-table"}, "corpus", reference=base)
    else:
        raise core.HarnessError(f"unknown case kind {kind!r}")


def _setup():
    """model classes; numba kernels on one thread (parallel=True kernels on tiny arrays spend ~1 s per call in the
    thread pool when the machine is loaded; the number of threads does not change what they compute)"""
    try:
        import numba
        numba.set_num_threads(1)
    except Exception:
        pass
    gen_scheme.model_class()
    M.model_class()


def run(ck):
    _setup()
    batch = Batch()
    for c in core.load_corpus(PROP):
        run_case(ck, batch, c["case"] if "case" in c else c)
        ck.count("stream:corpus")
    replay_d4_witness(ck, batch)
    batch.flush(ck)
    flush_post(ck, batch)
    stream_combine(ck, batch)
    stream_table_datasets(ck, batch)
    stream_full_tables(ck, batch)
    stream_full_builtin(ck, batch)
    stream_introspection(ck, batch)
    stream_pipeline(ck, batch)
    stream_exhaustive_permutations(ck)
    stream_linked(ck, batch)
    stream_twins(ck, batch)
    ck.exhaustive = False


def search(ck):
    """widened sweep of the oracles on the real code (no model involved in any verdict here)"""
    _setup()
    batch = Batch()
    rng = ck.rng
    for i in range(ck.n(120, 600)):
        spec = gen_focus(rng, i)
        check_pipeline(ck, batch, spec, "search")
        check_twin(ck, spec, "search")
        if ck.violations:
            break
    stream_table_datasets(ck, batch)
    if not ck.violations:
        stream_full_tables(ck, batch)
        stream_full_builtin(ck, batch)
        stream_introspection(ck, batch)
        stream_linked(ck, batch)
    batch.flush(ck)
    flush_post(ck, batch)


def replay(ck, case):
    _setup()
    batch = Batch()
    cases = []
    if "case" in case and isinstance(case["case"], dict) and case["case"].get("kind"):
        cases.append(case["case"])
    for d in case.get("disagreements", []):
        cases.append(d["case"])
    for c in cases:
        run_case(ck, batch, c)
    batch.flush(ck)
    flush_post(ck, batch)
    for d in ck.disagreements:
        print("DISAGREEMENT", d["what"])
    for v in ck.violations:
        print("OBSERVED", v["what"])
