"""C16 — parameter files round-trip in every supported format; specifications equal the programmatic construction.

(1) translator  `generate(ck)`: Consts tables regenerated from the source (harness/props/_c16_tables.py); the eight
      specification functions (sanitize_parameter_list … Parameters.from_dict) translated from their Python source into
      Lean definitions (harness/props/_c16_fns.py -> Generated/C16Fns.lean) that `generated_*_eq_model` proves equal to
      the model for all inputs
(2) correspondence: real code in-process vs the Lean model (lean/GlotaranModel/C16.lean)
      roundtrip   save_parameters -> load_parameters for csv / tsv (separator, replace_infinfinity) / xlsx / ods,
                  two cycles; loaded parameters and the raw cells of the written file
      overwrite   a history of 2-4 sets saved to one path (shrinking / growing / empty), each step as `roundtrip`
      file        hand-written tables (header case, serialized names, column order / subsets, ints for booleans,
                  empty / None / none cells, stale values of expression parameters, one injected fault) -> load_parameters
      frame       Parameters.from_dataframe on typed frames (object and inferred dtypes)
      spec        arbitrary nested dict / list specifications -> Parameters.from_dict / from_list, in-process and via
                  load_parameters(format_name="yml_str")
      intent      specifications rendered from an intent (see oracle)
      sci/label   convert_scientific_to_float (number_scientific.fullmatch) and valid_label on enumerated strings
(3) oracle on the real code, independent of the model:
      O1 roundtrip: same labels in the same order, bit-equal numbers (NaN = NaN; the sign of zero is not compared),
         flags, expressions; value of an expression parameter = its expression on the loaded values; second cycle
         identical to the first
      O2 intent: from_dict / from_list / yml_str of the rendered specification == Parameters built with Parameter(...)
      O3 every loaded Parameters: expression parameters hold the value of their expression (stale file values)
      O4 serialized: the yml text glotaran writes itself (to_parameter_dict_or_list(serialize_parameters=True) + write_dict,
         as Project.generate_parameters does) loads back as the same parameters, for every set the specification language
         can express (all labels flat, or all in leaf groups)
"""
from __future__ import annotations

import json
import math
import warnings
from fractions import Fraction

from harness import core
from harness.core import enc
from harness.props import _c16_fns as fns
from harness.props import _c16_gen as gen
from harness.props import _c16_real as real
from harness.props import _c16_tables as tables
from harness.props import c12 as x12
from harness.props._c16_real import D

PROP = "C16"
REQUIRED_THEOREMS = [
    "options_bijective", "record_keys_generated", "defaults_generated", "text_columns_generated", "as_dict_roundtrip",
    "save_load_is_construct_partial", "save_load_roundtrip_partial", "save_load_roundtrip_plain_partial",
    "save_load_counterexample", "save_load_idempotent_partial", "infinite_bounds_are_empty_cells",
    "loaded_expressions_consistent", "constructed_expressions_consistent",
    "constructed_sets_roundtrip_partial", "flatten_labels", "flatten_order", "numbering_spec", "definition_components", "defaults_then_overrides",
    "dict_eq_programmatic_partial", "dict_eq_programmatic_counterexample", "auto_label_spec",
    "scientific_string_converted_iff_whole",
    "generated_convert_scientific_to_float_eq_model", "generated_sanitize_parameter_list_eq_model",
    "generated_deserialize_options_eq_model", "generated_retrieve_item_eq_model", "generated_Parameter_from_list_eq_model",
    "generated_flatten_parameter_dict_eq_model", "generated_Parameters_from_list_eq_model",
    "generated_Parameters_from_dict_eq_model",
]
TRUSTED = [
    "hand-written model lean/GlotaranModel/C16.lean of the glotaran layer of the pandas plugins (csv.py, tsv.py, xlsx.py), "
    "Parameters.to_dataframe / from_dataframe / from_parameter_dict_list / from_list / from_dict, flatten_parameter_dict, "
    "Parameter.__init__ / as_dict / from_list, sanitize_parameter_list — tied to the code by differential execution only",
    "transport assumption (validated by sampling only): for a table written by DataFrame.to_csv / to_excel (na_rep='None') "
    "pandas' read_csv(float_precision='round_trip', dtype str for label/expression) / read_excel returns every cell with "
    "its value and type, except that None/NaN and strings that are NA tokens come back as NaN (model: readFrame); "
    "repr/strtod of doubles is exact; openpyxl is known to violate this (16 significant digits) — known finding",
    "the function translator harness/props/_c16_fns.py (python ast -> Lean): the parameter types it gives each function, its "
    "table of builtins and lean/GlotaranModel/C16Py.lean (Python's builtins on the model's value types); Parameter.__init__ "
    "(attrs), Parameters.__init__, float(), the regular expression and the dict keys formatted by f-strings stay primitives; "
    "mutation of the caller's specification lists by `item += [...]` is not observed by the translation",
    "the translator harness/props/_c16_tables.py (import + ast of csv.py / xlsx.py) that regenerates Generated/C16.lean; "
    "cross-checked on every run against the driver's `consts` and against is_text_column",
    "expression texts are parsed by the harness (C12's reader of the $label syntax), expression semantics is the C12 model",
    "float(str) of scientific-notation strings is supplied by the harness (Python's float), ruamel.yaml as YAML reader/writer",
    "pandas 2.2.3, openpyxl 3.1.5, odfpy 1.4.1, ruamel.yaml 0.18.6 as installed",
]
ASSUMPTIONS = [
    "a valid parameter set: labels of word characters and dots that are not reserved, not the empty string and not an NA "
    "token of the reader (NA / NULL / NaN / null / none: known finding na-token-label), expressions that are not NA tokens, "
    "bounds that are not NaN, numeric standard errors",
    "the sign of a zero is not part of 'equal parameters' (the Excel/ODS readers of pandas return -0.0 as the int 0)",
    "values referenced by expressions are small dyadic rationals in the correspondence (exact regime), so that the exact "
    "evaluation of the model equals the double evaluation of asteval",
    "hand-written tables have homogeneous boolean columns (all True/False or all 0/1), so that pandas' column-wide type "
    "inference coincides with the per-cell types the model sees",
    "specification language of the model: scalars None/str/int/float/bool, option dicts, one level of definition lists; "
    "option values of the attribute's type (other types: `unsupported`, never generated)",
]
RULE = (
    "parameter sets of 0-8 parameters generated column-wise: label columns that are all numeric-looking ('1.10', '007', "
    "'1e3'), all integers, nested with numeric parts, reserved/NA words as label parts, mixed; value columns all-int, "
    "full double range (random bit patterns), special doubles (max, min subnormal, 0.1+0.2, 2^53+1 …), NaN, ±inf; bound "
    "columns all-infinite (empty), finite, mixed, ints, reversed infinities; standard errors NaN/float/inf; every flag "
    "combination; expression columns none / some / all-but-one / constants-only, referencing other groups; every format, "
    "csv separators , ; | and tab, replace_infinfinity on/off; two save-load cycles. Histories of one file (stream "
    "`overwrite`): 2-4 such sets saved one after the other with allow_overwrite=True to the SAME csv / xlsx / ods path "
    "(a later set with fewer rows than the file holds, the empty set, the same set again, the previous set with parameters "
    "dropped, a larger set), every step judged by O1 and by the model's answer for that set alone — what the file held "
    "before must not matter (tsv is left out: its plugin does not forward allow_overwrite, a second save raises "
    "FileExistsError). Hand-written tables derive from such "
    "sets with one fault of 14 kinds. Specifications: random trees of depth <= 3 with int/float/str keys, bare numbers, "
    "strings, scientific-notation strings (valid, malformed, prefix-only), None, default blocks at any position, "
    "definitions in any order with surplus atoms, unknown / mistyped options; intents rendered in all styles, including constant expressions whose whole text "
    "is a scientific-notation number ('1e3', '2.5E-1') in the own options of a parameter or in the default block of a "
    "group (also among the option values of the random specifications). A case is "
    "non-trivial when it holds at least one parameter; distinct = distinct case content."
)

CSV_SEPS = [",", ",", ";", "|", "\t", ":"]


# ------------------------------------------------------------------------------------------
# model batch
# ------------------------------------------------------------------------------------------
class Batch:
    def __init__(self):
        self.lines: list[str] = []
        self.expect: list = []      # per line: None (setup line) or dict(check=callable(model_answer) -> None|str, case=…)

    def setup(self, line):
        self.lines.append(line)
        self.expect.append(None)

    def op(self, line, check, case, what):
        self.lines.append(line)
        self.expect.append({"check": check, "case": case, "what": what})

    def run(self, ck):
        answers = core.lean_driver(PROP, self.lines)
        bad = 0
        for line, exp, ans in zip(self.lines, self.expect, answers):
            if exp is None:
                if ans in ("bad-op", "bad-line"):
                    raise core.HarnessError(f"model rejected setup line {line[:200]!r}")
                continue
            if ans in ("bad-op", "bad-line"):
                raise core.HarnessError(f"model rejected line {line[:300]!r}")
            if ans.startswith("unsupported"):
                ck.count("model:unsupported")
                continue
            ck.count("model:" + ans.split(" ")[0] + ("-" + ans.split(" ")[1] if ans.startswith("err") else ""))
            why = exp["check"](ans)
            if why:
                bad += 1
                ck.disagree("model-vs-impl:" + exp["what"], f"{exp['what']}: {why}", exp["case"])
        return bad


def ast_lines(asts: dict):
    out = []
    for t, e in asts.items():
        try:
            out.append(f"ast {enc(t)} {x12.enc_expr(e)}")
        except (ValueError, OverflowError):
            pass        # a literal outside the rationals (1e400): the model answers `unsupported` if it is needed
    return out


def asts_for(texts):
    out = {}
    for t in texts:
        if t is None or t in out:
            continue
        try:
            out[t] = x12.parse_expr(t)
        except x12.Unsupported:
            pass
    return out


# ------------------------------------------------------------------------------------------
# comparison of answers
# ------------------------------------------------------------------------------------------
def compare_params(impl_tuples, model_ans: str, fmt=None, src_tuples=None):
    """None when the model's `ok [...]` equals the implementation's parameters"""
    if not model_ans.startswith("ok "):
        return f"implementation returned {len(impl_tuples)} parameters, model answered {model_ans[:200]!r}"
    mt = real.parse_model_params(model_ans)
    if [t[0] for t in impl_tuples] != [t[0] for t in mt]:
        return f"labels: implementation {[t[0] for t in impl_tuples]}, model {[t[0] for t in mt]}"
    names = ["label", "value", "standard_error", "expression", "maximum", "minimum", "non_negative", "vary"]
    for a, b in zip(impl_tuples, mt):
        for i in (1, 2, 4, 5):
            if real.flt(a[i]) != b[i] and not real.same_float(a[i], real.unflt(b[i])):
                if fmt == "xlsx" and real.same_float(a[i], real.xlsx_image(real.unflt(b[i]))):
                    continue
                if fmt == "xlsx" and i == 1 and a[3] is not None:
                    continue  # expression re-evaluated on 16-digit images (judged by the oracle)
                return f"{a[0]}.{names[i]}: implementation {a[i]!r}, model {b[i]}"
        if a[3] != b[3]:
            return f"{a[0]}.expression: implementation {a[3]!r}, model {b[3]!r}"
        if bool(a[6]) != b[6] or bool(a[7]) != b[7]:
            return f"{a[0]}: flags implementation {(a[6], a[7])}, model {(b[6], b[7])}"
    return None


def compare_answer(impl, model_ans: str, fmt=None):
    """impl: ("ok", tuples) | ("err", text)"""
    if impl[0] == "ok":
        return compare_params(impl[1], model_ans, fmt)
    want = impl[1]
    if want == "err expression":
        return None if model_ans.startswith("err expression") else f"implementation {want!r}, model {model_ans[:200]!r}"
    return None if model_ans == want else f"implementation {want!r}, model {model_ans[:200]!r}"


def run_real(f):
    with warnings.catch_warnings():
        warnings.simplefilter("ignore")
        try:
            ps = f()
        except Exception as e:  # noqa: BLE001
            return ("err", real.classify_exception(e), e)
    ts = real.tuples_of(ps)
    if not all(real.supported_tuple(t) for t in ts):
        return ("skip", "unsupported attribute types")
    return ("ok", ts, ps)


# ------------------------------------------------------------------------------------------
# oracles (real code only)
# ------------------------------------------------------------------------------------------
def na_tokens():
    from pandas._libs.parsers import STR_NA_VALUES
    return set(STR_NA_VALUES) | {"None", "none"}


def check_expressions(ck, tuples, case, where):
    """O3: every expression parameter holds the value of its expression on the current values"""
    env = {}
    for t in tuples:
        v = float(t[1])
        env[t[0]] = None if math.isnan(v) else (Fraction(v) if math.isfinite(v) else "inf")
    if not x12.is_acyclic({t[0]: t[3] for t in tuples if t[3] is not None}):
        ck.count("oracle:cyclic-expressions-skipped")       # no fixpoint to demand (C12 states the same hypothesis)
        return
    for t in tuples:
        if t[3] is None:
            continue
        try:
            e = x12.parse_expr(t[3])
            if any(env.get(r) == "inf" for r in x12.refs_of(e)):
                continue
            want = x12.exact_eval(e, {k: v for k, v in env.items() if v != "inf"})
        except x12.Unsupported:
            ck.count("oracle:expression-not-evaluable")
            continue
        ck.oracle_evals += 1
        got = float(t[1])
        ok = (want is None and math.isnan(got)) or (want is not None and math.isfinite(got) and Fraction(got) == want)
        if not ok:
            ck.violation("expression-not-reevaluated", f"{where}: parameter {t[0]!r} = {got!r} but its expression {t[3]!r} "
                         f"evaluates to {None if want is None else float(want)!r} on the loaded values", case)
        if t[7]:
            ck.violation("expression-parameter-varies", f"{where}: parameter {t[0]!r} has an expression but vary=True", case)


def oracle_roundtrip(ck, src, out, fmt, case, cycle):
    """O1 on (saved tuples, loaded result)"""
    ck.oracle_evals += 1
    toks = na_tokens()
    if out[0] == "err":
        exc = out[2]
        if any(t[0] in toks for t in src):
            key = "na-token-label"
        elif any(t[3] is not None and t[3] in toks for t in src):
            key = "na-token-expression"
        elif fmt == "xlsx" and any(math.isinf(real.xlsx_image(float(t[i]))) and math.isfinite(float(t[i])) for t in src for i in (1, 2, 4, 5)):
            key = "xlsx-float-16-digits"
        else:
            key = f"load-raises:{type(exc).__name__}"
        ck.violation(key, f"{fmt}: save_parameters -> load_parameters raises {type(exc).__name__}: {str(exc)[:200]}", case)
        return
    got = out[1]
    if [t[0] for t in got] != [t[0] for t in src]:
        if sorted(t[0] for t in got) == sorted(t[0] for t in src):
            key = "label-order-changed"
        elif any(t[0] in toks for t in src):
            key = "na-token-label"
        else:
            key = "labels-changed"
        ck.violation(key, f"{fmt} cycle {cycle}: labels saved {[t[0] for t in src]} loaded {[t[0] for t in got]}", case)
        return
    names = ["label", "value", "standard_error", "expression", "maximum", "minimum", "non_negative", "vary"]
    xlsx_hit = False
    for a, b in zip(src, got):
        if a[3] != b[3]:
            key = "na-token-expression" if a[3] in toks else "expression-changed"
            ck.violation(key, f"{fmt} cycle {cycle}: {a[0]}.expression saved {a[3]!r} loaded {b[3]!r}", case)
            return
        if bool(a[6]) != bool(b[6]) or bool(a[7]) != bool(b[7]):
            ck.violation("flag-changed", f"{fmt} cycle {cycle}: {a[0]} flags saved {(a[6], a[7])} loaded {(b[6], b[7])}", case)
            return
        for i in (1, 2, 4, 5):
            if i == 1 and a[3] is not None:
                continue   # judged by check_expressions on the loaded values
            if not real.same_float(a[i], b[i]):
                if fmt == "xlsx" and real.same_float(real.xlsx_image(float(a[i])), b[i]):
                    xlsx_hit = True
                    continue
                ck.violation(f"{names[i]}-changed:{'text' if fmt in ('csv', 'tsv') else fmt}",
                             f"{fmt} cycle {cycle}: {a[0]}.{names[i]} saved {a[i]!r} loaded {b[i]!r}", case)
                return
            if float(a[i]) == 0 and math.copysign(1, float(a[i])) != math.copysign(1, float(b[i])):
                ck.count("oracle:sign-of-zero-lost:" + fmt)
    if xlsx_hit:
        ck.violation("xlsx-float-16-digits", "xlsx: a double with 17 significant digits comes back as its 16-digit image", case)
    check_expressions(ck, got, case, f"{fmt} cycle {cycle}")


# ------------------------------------------------------------------------------------------
# stream: save -> load
# ------------------------------------------------------------------------------------------
def roundtrip_case(ck, batch, case, scratch, with_model=True, path=None, payload=None):
    """`path`: save to this (possibly existing) file in both cycles instead of a fresh one; `payload`: the case that is
    reported (the whole history of the file when the set is one step of an `overwrite` case)"""
    fixed_path, step_case = path, case
    fmt, sep, flag = case["fmt"], case.get("sep"), case.get("replace_inf")
    if payload is not None:
        case = payload
    built = run_real(lambda: real.build(step_case["params"]))
    if built[0] != "ok":
        ck.count("roundtrip:construction-" + built[0])
        if built[0] == "err":
            ck.violation("valid-parameters-rejected", f"a valid parameter set cannot be constructed: {built[2]!r}", case)
        return
    src, obj = built[1], built[2]
    ck.case(("roundtrip", fmt, sep, flag, repr(src), step_case.get("over")), nontrivial=bool(src))
    ck.count(f"roundtrip:{fmt}")
    ck.count(f"roundtrip:n={min(len(src), 8)}")
    if any(t[3] is not None for t in src):
        ck.count("roundtrip:with-expressions")
    if src and all(t[0].replace(".", "", 1).isdigit() for t in src):
        ck.count("roundtrip:all-numeric-labels")
    if src and all(math.isinf(float(t[4])) and math.isinf(float(t[5])) for t in src):
        ck.count("roundtrip:all-bounds-empty")
    if any(math.isnan(float(t[1])) for t in src):
        ck.count("roundtrip:nan-value")
    model_flag = _TABLES.get("replace_default", True) if flag is None else flag
    mfmt = "excel" if fmt in ("xlsx", "ods") else "csv"
    asts = asts_for([t[3] for t in src])
    if with_model:
        batch.setup("reset")
        for l in ast_lines(asts):
            batch.setup(l)
    cur_src, cur_obj = src, obj
    for cycle in (1, 2):
        path = fixed_path or scratch.path(fmt)
        explicit = bool(step_case.get("explicit_format"))
        try:
            real.save(cur_obj, path, fmt, sep=sep, replace_inf=flag, explicit_format=explicit)
        except Exception as e:  # noqa: BLE001
            ck.violation(f"save-raises:{type(e).__name__}", f"{fmt}: save_parameters raises {e!r}", case)
            return
        header, rows = real.raw_cells(path, fmt, sep)
        out = run_real(lambda: real.load(path, fmt, sep=sep, explicit_format=explicit))
        if out[0] == "skip":
            ck.count("roundtrip:skip")
            return
        oracle_roundtrip(ck, cur_src, out, fmt, case, cycle)
        if with_model:
            xl_overflow = fmt == "xlsx" and out[0] == "err" and isinstance(out[2], OverflowError)
            impl = ("ok", out[1]) if out[0] == "ok" else ("err", out[1])
            if not xl_overflow:
                batch.op(f"roundtrip {mfmt} {core.bool_(model_flag)} {real.enc_params(cur_src)}",
                         (lambda ans, impl=impl, fmt=fmt: compare_answer(impl, ans, fmt)), case, f"roundtrip-{fmt}-cycle{cycle}")

            def check_file(ans, header=header, rows=rows, fmt=fmt):
                tree = core.parse_tree(ans)
                cols = [core.dec(c) for c in tree[0]]
                if cols != header:
                    return f"file header {header}, model columns {cols}"
                if len(tree[1]) != len(rows):
                    return f"file has {len(rows)} rows, model {len(tree[1])}"
                for r_model, r_file in zip(tree[1], rows):
                    for c, (mc, raw) in enumerate(zip(r_model, r_file)):
                        if not real.cell_matches(mc, raw, fmt):
                            return f"file cell {cols[c]}={raw!r}, model cell {mc}"
                return None
            batch.op(f"save {mfmt} {core.bool_(model_flag)} {real.enc_params(cur_src)}", check_file, case, f"file-cells-{fmt}")
        if out[0] != "ok":
            return
        if cycle == 1:
            # idempotence: the second cycle must reproduce the first result exactly
            cur_src, cur_obj = out[1], out[2]


def gen_roundtrip_case(rng, fmt=None):
    fmt = fmt or rng.choice(["csv", "csv", "tsv", "xlsx", "ods"])
    dicts, _ = gen.param_set(rng)
    case = {"kind": "roundtrip", "fmt": fmt, "params": dicts}
    if fmt == "csv":
        case["sep"] = rng.choice(CSV_SEPS)
    if fmt in ("csv", "tsv") and rng.random() < 0.5:
        case["replace_inf"] = rng.random() < 0.5
    if rng.random() < 0.25:
        case["explicit_format"] = True      # format_name given instead of inferred from the extension
    if dicts and rng.random() < 0.06:
        # expression texts that stress the quoting of the text formats (outside the model: oracle only)
        d = rng.choice(dicts)
        d["expression"] = rng.choice(['1 if "a,b" else 2', "1 if 'q;r' else 2", "[1, 2][0]", "1 +\t1", "max(1,\t2)", '2 if "|" else 1'])
        d.pop("vary", None)
    return case


# ------------------------------------------------------------------------------------------
# stream: a history of saves to ONE file (the set is simplified / extended between two runs and saved again)
# ------------------------------------------------------------------------------------------
OVERWRITE_FORMATS = ["csv", "xlsx", "ods"]     # tsv: the plugin does not forward allow_overwrite, a second save raises FileExistsError


def gen_overwrite_case(rng, fmt=None):
    """2-4 parameter sets saved one after the other to the same path; sizes go up and down (a later set with fewer
    rows than the file already holds, the empty set, the same set again, a subset of the previous set)"""
    fmt = fmt or rng.choice(OVERWRITE_FORMATS)
    sets = []
    sizes = [rng.choice([2, 3, 4, 5, 6, 8])]
    for _ in range(rng.choice([1, 2, 2, 3])):
        k = rng.random()
        prev = sizes[-1]
        if k < 0.55 and prev > 0:
            sizes.append(rng.randint(0, prev - 1))      # fewer rows than before
        elif k < 0.7:
            sizes.append(prev)
        else:
            sizes.append(rng.randint(prev, 8))
    for i, n in enumerate(sizes):
        if i and n and n <= len(sets[-1]) and rng.random() < 0.4:
            # the previous set with parameters dropped (same labels, no expression left dangling) or unchanged
            keep = sorted(rng.sample(range(len(sets[-1])), n))
            dropped = n < len(sets[-1])
            sets.append([{k: v for k, v in sets[-1][j].items() if not (dropped and k == "expression")} for j in keep])
        else:
            sets.append(gen.param_set(rng, n=n)[0])
    case = {"kind": "overwrite", "fmt": fmt, "sets": sets}
    if fmt == "csv":
        case["sep"] = rng.choice(CSV_SEPS)
        if rng.random() < 0.5:
            case["replace_inf"] = rng.random() < 0.5
    if rng.random() < 0.25:
        case["explicit_format"] = True
    return case


def overwrite_case(ck, batch, case, scratch, with_model=True):
    """every save-load of the history is judged like a save-load into a fresh file (O1, and the model's answer for the set
    alone): what the file held before must not matter"""
    fmt = case["fmt"]
    path = scratch.path(fmt)
    ck.count(f"overwrite:{fmt}")
    ck.count(f"overwrite:steps={len(case['sets'])}")
    held = None
    for step, dicts in enumerate(case["sets"]):
        if held is not None:
            ck.count("overwrite:step-" + ("shrinks" if len(dicts) < held else "same-size" if len(dicts) == held else "grows")
                     + ("-to-empty" if not dicts else ""))
        sub = {"kind": "roundtrip", "fmt": fmt, "params": dicts, "over": f"step {step} of {[len(d) for d in case['sets']]}"}
        for k in ("sep", "replace_inf", "explicit_format"):
            if k in case:
                sub[k] = case[k]
        roundtrip_case(ck, batch, sub, scratch, with_model, path=path, payload=dict(case, step=step))
        if path.exists():
            held = len(dicts)


# ------------------------------------------------------------------------------------------
# stream: hand-written tables -> load_parameters ; typed frames -> from_dataframe
# ------------------------------------------------------------------------------------------
FAULTS = [None, None, None, None, "num-expression", "junk-number", "na-bool", "float-bool", "str-bool", "bad-label", "reserved-label", "na-label",
          "dup-label", "nan-bound", "int-label", "missing-label", "missing-value", "unknown-column"]


def gen_table_case(rng, kind):
    dicts, _ = gen.param_set(rng, n=rng.choice([1, 2, 2, 3, 4]), shape=rng.choice(["nested", "mixed", "numeric", "integer"]))
    case = {"kind": kind, "params": dicts, "fault": rng.choice(FAULTS), "seed": rng.getrandbits(32)}
    if kind == "file":
        case["fmt"] = rng.choice(["csv", "csv", "tsv", "xlsx", "ods"])
        case["sep"] = rng.choice([",", ";", "|"]) if case["fmt"] == "csv" else None
        case["spaces"] = rng.random() < 0.3
        case["stale"] = rng.random() < 0.6
    else:
        case["object"] = rng.random() < 0.6
    return case


def table_case(ck, batch, case, scratch, with_model=True):
    import random
    rng = random.Random(case["seed"])
    built = run_real(lambda: real.build(case["params"]))
    if built[0] != "ok":
        ck.count(f"{case['kind']}:construction-{built[0]}")
        if built[0] == "err":
            ck.violation("valid-parameters-rejected", f"a valid parameter set cannot be constructed: {built[2]!r}", case)
        return
    src = built[1]
    tuples = [list(t) for t in src]
    if case.get("stale"):
        for t in tuples:
            if t[3] is not None and rng.random() < 0.7:
                t[1] = rng.choice([0.0, 123.5, -1.0, float("nan"), float(t[1]) + 1])
    excel = case.get("fmt") in ("xlsx", "ods")
    header, rows = gen.table_from_params(rng, tuples, case["fault"], excel=excel, variants=case["kind"] == "file")
    case = dict(case, header=header, rows=rows)
    ck.case((case["kind"], case.get("fmt"), repr(header), repr(rows)), nontrivial=bool(rows))
    ck.count(f"{case['kind']}:fault={case['fault']}")
    asts = asts_for([t[3] for t in src])
    if case["kind"] == "file":
        fmt = case["fmt"]
        path = scratch.path(fmt)
        if excel and any(all(c[0] == "z" or (c[0] == "s" and c[1] == "") or (c[0] == "f" and math.isnan(float(c[1]))) for c in r) for r in rows):
            ck.count("file:excel-empty-row-skipped")      # the Excel/ODS readers drop rows without any content
            return
        if excel:
            real.write_excel_table(path, header, rows)
            send = [[(["i", int(c[1])] if c[0] == "f" and math.isfinite(float(c[1])) and float(c[1]) == int(float(c[1])) else c)
                     for c in r] for r in rows]
        else:
            real.write_text_table(path, header, rows, "\t" if fmt == "tsv" else case["sep"], case["spaces"], rng)
            send = rows
        # text columns (dtype str): every non-NA cell is its text
        text_idx = [i for i, h in enumerate(header) if tables_attr(h) in ("label", "expression")]
        send = [[(["s", real.cell_text(c)] if i in text_idx and c[0] in ("i", "f", "b") and not (c[0] == "f" and math.isnan(float(c[1]))) else c)
                 for i, c in enumerate(r)] for r in send]
        out = run_real(lambda: real.load(path, fmt, sep=case["sep"]))
        line = f"loadfile {'excel' if excel else 'csv'} {real.enc_frame(header, send)}"
        ck.count(f"file:{fmt}")
    else:
        df = real.frame_df(header, rows, case["object"])
        from glotaran.parameter import Parameters
        out = run_real(lambda: Parameters.from_dataframe(df))
        line = f"fromframe {real.enc_frame(header, real.df_cells(real.frame_df(header, rows, case['object'])))}"
        fmt = None
    if out[0] == "skip":
        ck.count(f"{case['kind']}:skip")
        return
    if fmt == "xlsx" and out[0] == "err" and isinstance(out[2], OverflowError):
        ck.violation("xlsx-float-16-digits", "xlsx: a finite double whose 16-digit image overflows is read as inf by openpyxl "
                     "and pandas' reader raises OverflowError", case)
        return
    ck.count(f"{case['kind']}:impl-{out[0]}" + ("" if out[0] == "ok" else ":" + " ".join(out[1].split(" ")[:2])))
    if out[0] == "ok":
        check_expressions(ck, out[1], case, case["kind"])
    if with_model:
        batch.setup("reset")
        for l in ast_lines(asts):
            batch.setup(l)
        impl = ("ok", out[1]) if out[0] == "ok" else ("err", out[1])
        batch.op(line, (lambda ans, impl=impl, fmt=fmt: compare_answer(impl, ans, fmt)), case, case["kind"] + (f"-{fmt}" if fmt else ""))


def tables_attr(h: str) -> str:
    h = h.lower()
    return {"expr": "expression", "max": "maximum", "min": "minimum", "non-negative": "non_negative",
            "standard-error": "standard_error"}.get(h, h)


# ------------------------------------------------------------------------------------------
# stream: specifications
# ------------------------------------------------------------------------------------------
def spec_real(spec, form, via):
    from glotaran.io import load_parameters
    from glotaran.parameter import Parameters
    py = real.to_py(spec)
    if via == "python":
        return run_real(lambda: Parameters.from_list(py) if form == "list" else Parameters.from_dict(py))
    if via == "yml":
        text = real.yaml_dump(py)
    else:
        text = real.yaml_text(spec)
    if via == "yml-file":
        with real.Scratch() as sc:
            path = sc.path("yml" if len(text) % 2 else "yaml")
            path.write_text(text)
            return run_real(lambda: load_parameters(path)), text
    return run_real(lambda: load_parameters(text, format_name="yml_str")), text


def spec_line(spec, form):
    if form == "list":
        return "fromlist " + core.lst(real.enc_item(i) for i in spec)
    return "fromdict " + real.enc_kids(spec)


def spec_setup(batch, spec, extra_asts=None):
    batch.setup("reset")
    strings = real.strings_of(spec, set())
    for l in real.float_lines(strings):
        batch.setup(l)
    asts = asts_for(strings)
    asts.update(extra_asts or {})
    for l in ast_lines(asts):
        batch.setup(l)


def spec_case(ck, batch, case, with_model=True):
    spec, form = real.from_json(case["spec"]), case["form"]
    try:
        line = spec_line(spec, form)
    except real.Unrepresentable:
        ck.count("spec:unrepresentable")
        return
    ck.case(("spec", form, json.dumps(case["spec"], sort_keys=True, default=str)), nontrivial=True)
    out = spec_real(spec, form, "python")
    if out[0] == "skip":
        ck.count("spec:skip")
        return
    ck.count(f"spec:{form}:impl-{out[0]}" + ("" if out[0] == "ok" else ":" + " ".join(out[1].split(" ")[:2])))
    if out[0] == "ok":
        check_expressions(ck, out[1], case, "spec")
    if with_model:
        spec_setup(batch, spec)
        impl = ("ok", out[1]) if out[0] == "ok" else ("err", out[1])
        batch.op(line, (lambda ans, impl=impl: compare_answer(impl, ans)), case, f"spec-{form}")
    # the same specification through the YAML reader (int/float keys are formatted by the f-string either way)
    if yaml_safe(spec):
        try:
            out2, text = spec_real(spec, form, "yml")
        except Exception as e:  # noqa: BLE001  (ruamel cannot represent the object)
            ck.count(f"spec:yml-dump-failed:{type(e).__name__}")
            return
        ck.count("spec:via-yml")
        a = ("ok", out[1]) if out[0] == "ok" else ("err", out[1])
        b = ("ok", out2[1]) if out2[0] == "ok" else ("err", out2[1]) if out2[0] == "err" else None
        if b is not None and not same_result(a, b):
            ck.disagree("yml-vs-dict", f"load_parameters(yml_str) gives {short(b)}, from_{form} on the same specification {short(a)}",
                        dict(case, yml=text))


def yaml_safe(x):
    """specifications whose YAML rendering reads back as the same Python object"""
    if isinstance(x, D):
        return all(isinstance(k, (str, int)) and not isinstance(k, bool) and k != "" and yaml_safe(v) for k, v in x.pairs) and bool(x.pairs)
    if isinstance(x, list):
        return all(yaml_safe(v) for v in x)
    if isinstance(x, str):
        return x == x.strip() and "\n" not in x
    return True


def same_result(a, b):
    if a[0] != b[0]:
        return False
    if a[0] == "err":
        return a[1] == b[1]
    if len(a[1]) != len(b[1]):
        return False
    for s, t in zip(a[1], b[1]):
        if s[0] != t[0] or s[3] != t[3] or bool(s[6]) != bool(t[6]) or bool(s[7]) != bool(t[7]):
            return False
        if any(not real.same_float(s[i], t[i]) for i in (1, 2, 4, 5)):
            return False
    return True


def short(r):
    return r[1] if r[0] == "err" else [tuple(t) for t in r[1]][:6]


def gen_spec_case(rng):
    if rng.random() < 0.3:
        return {"kind": "spec", "form": "list", "spec": real.to_json(gen.rand_items(rng))}
    return {"kind": "spec", "form": "dict", "spec": real.to_json(gen.rand_group(rng, 1))}


# ------------------------------------------------------------------------------------------
# stream: intents (oracle O2 + correspondence)
# ------------------------------------------------------------------------------------------
def programmatic(expected):
    from glotaran.parameter import Parameter, Parameters
    params = {}
    for label, kw in expected:
        params[label] = Parameter(label=label, **kw)
    return Parameters(params)


def intent_case(ck, batch, case, with_model=True):
    from glotaran.parameter.parameter import RESERVED_LABELS
    intent = json.loads(json.dumps(case["intent"]))     # private copy: render_intent prunes colliding groups
    spec = gen.render_intent(intent)
    form = "list" if intent["flat"] else "dict"
    expected = gen.expected_of(intent)
    exp = run_real(lambda: programmatic(expected))
    if exp[0] != "ok":
        ck.count("intent:programmatic-" + exp[0])
        if exp[0] == "err":
            ck.violation("valid-parameters-rejected", f"the programmatic construction of a valid intent raises {exp[2]!r}", case)
        return
    ck.case(("intent", json.dumps(case["intent"], sort_keys=True, default=str)), nontrivial=bool(expected))
    ck.count(f"intent:{form}")
    for g in intent["groups"]:
        ck.count(f"intent:depth={len(g['path'])}")
        if g["defaults"] is not None:
            ck.count("intent:with-defaults")
            if str(g["defaults"].get("expression")) in gen.SCI_CONSTANT_EXPRESSIONS:
                ck.count("intent:sci-constant-expression:default-block")
        for p in g["params"]:
            if str(p["opts"].get("expression")) in gen.SCI_CONSTANT_EXPRESSIONS:
                ck.count("intent:sci-constant-expression:own-options")
            ck.count("intent:style=" + p["style"] + ("+sci" if p.get("sci") else "") + ("" if p["label"] else "+auto"))
    asts = {}
    for g in intent["groups"]:
        for p in g["params"]:
            if "expression" in p["opts"]:
                asts[p["opts"]["expression"]] = tuple_ast(p["ast"])
    reserved_short = any(p["label"] in RESERVED_LABELS for g in intent["groups"] for p in g["params"] if p["label"] and g["path"])
    vias = ["python"] + (["yml", "yml-text", "yml-file"] if yaml_safe(spec) else [])
    first = None
    for via in vias:
        try:
            r = spec_real(spec, form, via)
        except Exception as e:  # noqa: BLE001
            ck.count(f"intent:{via}-failed:{type(e).__name__}")
            continue
        out, text = (r, None) if via == "python" else r
        ck.oracle_evals += 1
        ck.count(f"intent:via-{via}")
        c = dict(case, via=via, spec=real.to_json(spec), **({"yml": text} if text else {}))
        if out[0] == "err":
            key = "reserved-short-label-in-group" if reserved_short and out[1].startswith("err label") else f"spec-raises:{out[1].split(' ')[1]}"
            ck.violation(key, f"{via}: the specification raises {out[2]!r} but the same parameters can be built with Parameter(...)", c)
        elif out[0] == "ok":
            if not same_result(("ok", out[1]), ("ok", exp[1])):
                ck.violation(spec_diff_key(out[1], exp[1]), f"{via}: specification gives {short(('ok', out[1]))}, "
                             f"programmatic construction {short(('ok', exp[1]))}", c)
            check_expressions(ck, out[1], c, "intent")
        if via == "python":
            first = out
    if with_model and first is not None and first[0] != "skip":
        spec = gen.render_intent(json.loads(json.dumps(case["intent"])))
        spec_setup(batch, spec, asts)
        impl = ("ok", first[1]) if first[0] == "ok" else ("err", first[1])
        batch.op(spec_line(spec, form), (lambda ans, impl=impl: compare_answer(impl, ans)), case, f"intent-{form}")


def tuple_ast(e):
    if isinstance(e, (list, tuple)):
        return tuple(tuple_ast(x) for x in e)
    return e


def spec_diff_key(got, exp):
    if [t[0] for t in got] != [t[0] for t in exp]:
        if len(got) == len(exp) and any(g[0].endswith(".") or g[0] == "" for g in got):
            return "spec-sci-string-unnumbered"
        return "spec-labels-differ"
    for s, t in zip(got, exp):
        if not real.same_float(s[1], t[1]):
            return "spec-value-differs"
        if s[3] != t[3]:
            return "spec-expression-differs"
        if any(not real.same_float(s[i], t[i]) for i in (2, 4, 5)) or bool(s[6]) != bool(t[6]) or bool(s[7]) != bool(t[7]):
            return "spec-options-differ"
    return "spec-differs"


def gen_intent_case(rng, reserved_ok=False):
    intent = gen.finish_intent(rng, gen.make_intent(rng, reserved_ok=reserved_ok))
    return {"kind": "intent", "intent": json.loads(json.dumps(intent))}


# ------------------------------------------------------------------------------------------
# stream: the yml text glotaran itself writes for a parameter set (oracle only)
# ------------------------------------------------------------------------------------------
def spec_representable(labels):
    """can the specification language express this set: all labels flat, or every label inside a group, no group that
    holds parameters and sub-groups, no short label the language reads as something else"""
    import re
    from glotaran.parameter.parameter import RESERVED_LABELS
    parts = [l.split(".") for l in labels]
    flat = all(len(p) == 1 for p in parts)
    if not flat and any(len(p) == 1 for p in parts):
        return False
    leaves = {tuple(p[:-1]) for p in parts}
    for g in leaves:
        if any(tuple(q[:len(g)]) == g and len(q) > len(g) + 1 for q in parts) and not flat:
            return False
    for p in parts:
        short = p[-1]
        # a short label that is a scientific-notation number in full is read as a number (the harness' own reading of
        # the specification language, not the library's: a label that only starts like a number, 1e3x, is a label)
        if re.fullmatch(r"[-+]?[0-9]*\.?[0-9]+[eE][-+]?[0-9]+", short):
            return False
        if not flat and short in RESERVED_LABELS:
            return False
    return True


def serialized_case(ck, case, scratch):
    """Parameters -> to_parameter_dict_or_list(serialize_parameters=True) -> yml file (write_dict, as
    Project.generate_parameters does) -> load_parameters: the same parameters (group by group in order)"""
    from glotaran.builtin.io.yml.utils import write_dict
    from glotaran.io import load_parameters
    built = run_real(lambda: real.build(case["params"]))
    if built[0] != "ok" or not built[1]:
        return
    src, obj = built[1], built[2]
    if not spec_representable([t[0] for t in src]):
        ck.count("serialized:not-representable")
        return
    ck.case(("serialized", repr(src)), nontrivial=True)
    ck.count("serialized:" + ("flat" if all("." not in t[0] for t in src) else "nested"))
    ck.oracle_evals += 1
    path = scratch.path("yml")
    try:
        write_dict(obj.to_parameter_dict_or_list(serialize_parameters=True), path)
    except Exception as e:  # noqa: BLE001
        ck.violation(f"serialized-not-writable:{type(e).__name__}", "the serialized form of a valid parameter set cannot be "
                     f"written to yml: {str(e)[:160]}", case)
        return
    out = run_real(lambda: load_parameters(path))
    if out[0] == "skip":
        return
    if out[0] == "err":
        ck.violation(f"serialized-load-raises:{out[1]}", f"load_parameters of the serialized yml raises {out[2]!r}", case)
        return
    a = sorted(src, key=lambda t: t[0])
    b = sorted(out[1], key=lambda t: t[0])
    groups = lambda ts: {g: [t[0] for t in ts if t[0].rsplit(".", 1)[0] == g] for g in {t[0].rsplit(".", 1)[0] for t in ts}} \
        if any("." in t[0] for t in ts) else {"": [t[0] for t in ts]}
    if [t[0] for t in a] != [t[0] for t in b] or groups(src) != groups(out[1]):
        ck.violation("serialized-labels-differ", f"serialized yml gives labels {[t[0] for t in out[1]]}, saved {[t[0] for t in src]}", case)
    elif not same_result(("ok", [t for t in a if t[3] is None]), ("ok", [t for t in b if t[3] is None])) \
            or [(t[0], t[3]) for t in a] != [(t[0], t[3]) for t in b]:
        ck.violation("serialized-parameters-differ", f"serialized yml gives {short(('ok', b))}, saved {short(('ok', a))}", case)
    else:
        check_expressions(ck, out[1], case, "serialized")


def gen_serialized_case(rng):
    dicts, _ = gen.param_set(rng, n=rng.choice([1, 2, 3, 4, 6]), shape=rng.choice(["nested", "nested", "integer", "numeric", "mixed", "tricky"]))
    return {"kind": "serialized", "params": dicts}


# ------------------------------------------------------------------------------------------
# stream: scanners
# ------------------------------------------------------------------------------------------
def scanner_cases(ck, exhaustive_len):
    import itertools
    alpha = ["1", "0", ".", "e", "E", "+", "-", "x"]
    out = []
    for n in range(0, exhaustive_len + 1):
        for tup in itertools.product(alpha, repeat=n):
            out.append("".join(tup))
    return out


def scanner_stream(ck, batch):
    from glotaran.parameter.parameter import Parameter
    from glotaran.utils.sanitize import convert_scientific_to_float
    n = 5 if ck.quick else 7
    strings = scanner_cases(ck, n)
    if ck.quick:
        ck.rng.shuffle(strings)
        strings = strings[:6000]
    strings += ["1e5", "1.5e-3", "٣e5", "1e٣", "１e5", " 1e5", "1e5 ", "1_0e5", "-.5E+07abc", "-.5E+07", "+.e5", "1.5.e3", "12.34e56", "infe5",
                "nan", "1e3x", "1e3_4", "2e5_data.nc", "12e+5.nc", "1e3\n", "1e3e4", "1e400", "1e-400"]
    for s in strings:
        try:
            r = convert_scientific_to_float(s)
            impl = "T" if isinstance(r, float) else "F"
        except ValueError:
            impl = "raises"     # the pattern accepted the string and float() refused it: impossible with fullmatch, the model never answers this
        # the statement's reading, independent of model and library: a string is a scientific-notation number iff it is, in
        # full, [sign] digits-with-optional-point (at least one digit after an optional point) e/E [sign] digits — every
        # such spelling ('+1e3', '.5e3', '-.125E-7') is a number, nothing else is
        import re as _re
        want = "T" if _re.fullmatch(r"[-+]?[0-9]*\.?[0-9]+[eE][-+]?[0-9]+", s) else "F"
        if impl != want:
            ck.violation("sci-string-reading-differs", f"convert_scientific_to_float({s!r}) "
                         f"{'converts' if impl == 'T' else 'keeps the string' if impl == 'F' else 'raises ValueError'}, but the string "
                         f"{'is' if want == 'T' else 'is not'} a number in scientific notation", {"kind": "sci", "text": s})
        batch.op(f"sci {enc(s)}", (lambda ans, impl=impl, s=s: None if ans == impl else
                                   f"convert_scientific_to_float({s!r}): implementation {'converts' if impl == 'T' else 'keeps the string' if impl == 'F' else 'raises ValueError'}, "
                                   f"model (number_scientific.fullmatch) {ans}"),
                 {"kind": "sci", "text": s}, "sci-match")
        ck.case(("sci", s), nontrivial=impl == "T")
        ck.count("sci:match=" + impl)
    labels = ["a", "a.b", "a-b", "", ".", "1.10", "sin", "e", "k.e", "a b", "é", "_", "a_b.1", "None", "none", "NA", "parameters",
              "iteration", "a$", "k/1", "1e3", "٣", "A.B.C", "x" * 40, "inf", "nan", "Inf", "maximum", "minimum", "label"]
    labels += ["".join(ck.rng.choice("ab1_.-e ") for _ in range(ck.rng.randint(0, 5))) for _ in range(ck.n(300, 3000))]
    for l in labels:
        try:
            Parameter(label=l)
            impl = "T"
        except ValueError:
            impl = "F"
        batch.op(f"validlabel {enc(l)}", (lambda ans, impl=impl, l=l: None if ans == impl else f"valid_label({l!r}): implementation {impl}, model {ans}"),
                 {"kind": "label", "text": l}, "valid-label")
        ck.count("label:valid=" + impl)
    ck.extra["scanner_enumeration"] = (f"number_scientific: {'sample of ' if ck.quick else ''}all strings of length <= {n} over "
                                       "{1,0,.,e,E,+,-,x} + specials")
    if not ck.quick:
        ck.exhaustive = True


# ------------------------------------------------------------------------------------------
# translator cross-check
# ------------------------------------------------------------------------------------------
def check_consts(ck, batch, t):
    from pandas._libs.parsers import STR_NA_VALUES

    def chk(ans):
        tree = core.parse_tree(ans)
        fields = [core.dec(x) for x in tree[0]]
        toks_csv = [core.dec(x) for x in tree[1]]
        toks_excel = [core.dec(x) for x in tree[2]]
        text_cols = [core.dec(x) for x in tree[3]]
        des = [(core.dec(a), core.dec(b)) for a, b in tree[4]]
        if fields != real.FIELDS or fields != t["fields"]:
            return f"paramFields {fields} vs as_dict keys {t['fields']}"
        if set(toks_csv) != set(STR_NA_VALUES) | set(t["csv_na"]) or set(toks_excel) != set(STR_NA_VALUES) | set(t["excel_na"]):
            return f"naTokens {sorted(toks_csv)} / {sorted(toks_excel)} vs the readers' tables"
        if sorted(text_cols) != sorted(t["text_columns"]):
            return f"textColumns {text_cols} vs {t['text_columns']}"
        if des != t["deserialized"]:
            return f"optionNamesDeserialized {des} vs {t['deserialized']}"
        return None
    batch.op("consts", chk, {"kind": "consts"}, "generated-tables")


# ------------------------------------------------------------------------------------------
# entry points
# ------------------------------------------------------------------------------------------
_TABLES = {}


def generate(ck):
    g, t = tables.generate(ck)
    _TABLES.update(t)
    f = fns.generate(ck)
    _TABLES["functions"] = f["functions"]
    return g + [f]


def run_case(ck, batch, case, scratch, with_model=True):
    k = case["kind"]
    if k == "roundtrip":
        roundtrip_case(ck, batch, case, scratch, with_model)
    elif k in ("file", "frame"):
        table_case(ck, batch, case, scratch, with_model)
    elif k == "spec":
        spec_case(ck, batch, case, with_model)
    elif k == "intent":
        intent_case(ck, batch, case, with_model)
    elif k == "serialized":
        serialized_case(ck, case, scratch)
    elif k == "overwrite":
        overwrite_case(ck, batch, case, scratch, with_model)
    else:
        raise core.HarnessError(f"unknown case kind {k!r}")


def witness_cases():
    """witnesses of the counter-example theorems and of the fixed defects, replayed on every run"""
    return [
        {"kind": "roundtrip", "fmt": "csv", "params": [{"label": "NA", "value": 1.0}, {"label": "b", "value": 2.0}],
         "witness": "save_load_counterexample"},
        {"kind": "roundtrip", "fmt": "xlsx", "params": [{"label": "a", "value": 0.00017054887045275802}], "witness": "xlsx-16-digits"},
        {"kind": "serialized", "params": [{"label": "a", "value": 1.5}, {"label": "b", "value": 2.0, "vary": False}],
         "witness": "flat-serialize (fixed)"},
        {"kind": "intent", "witness": "reserved-short-label",
         "intent": {"flat": False, "groups": [{"path": ["kinetic"], "defaults": None, "defaults_at": 0, "defaults_serialized": {},
                                               "params": [{"label": "e", "value": 1.0, "opts": {}, "style": "list", "sci": False,
                                                           "order": ["label", "value", "opts"], "serialized": {}, "as_int": False,
                                                           "omit_nan": False}]}]}},
    ]


def run(ck):
    if not _TABLES:
        _TABLES.update(tables.extract())
    batch = Batch()
    check_consts(ck, batch, _TABLES)
    with real.Scratch() as scratch:
        for case in core.load_corpus(PROP) + witness_cases():
            ck.count("stream:corpus")
            run_case(ck, batch, case, scratch)
        rng = ck.rng
        for fmt in real.FORMATS:
            for _ in range(ck.n(70, 700)):
                run_case(ck, batch, gen_roundtrip_case(rng, fmt), scratch)
        for _ in range(ck.n(100, 900)):
            run_case(ck, batch, gen_roundtrip_case(rng), scratch)
        for fmt in OVERWRITE_FORMATS:
            for _ in range(ck.n(16, 150)):
                run_case(ck, batch, gen_overwrite_case(rng, fmt), scratch)
        for _ in range(ck.n(260, 2500)):
            run_case(ck, batch, gen_table_case(rng, "file"), scratch)
        for _ in range(ck.n(400, 4000)):
            run_case(ck, batch, gen_table_case(rng, "frame"), scratch)
        for _ in range(ck.n(800, 8000)):
            run_case(ck, batch, gen_spec_case(rng), scratch)
        for i in range(ck.n(550, 6000)):
            run_case(ck, batch, gen_intent_case(rng, reserved_ok=(i % 40 == 0)), scratch)
        for _ in range(ck.n(250, 2500)):
            run_case(ck, batch, gen_serialized_case(rng), scratch)
        scanner_stream(ck, batch)
        if not ck.quick:
            exhaustive_small_specs(ck, batch)
            exhaustive_small_sets(ck, batch, scratch)
    batch.run(ck)
    ck.sample({"kind": "roundtrip", "fmt": "csv", "params": [{"label": "1.10", "value": 0.00017054887045275802},
                                                             {"label": "2.50", "value": 1.5, "expression": "$1.10 * 2"}],
               "observed": "loaded parameters after each of two cycles + raw cells of the written file"})
    ck.sample({"kind": "spec", "form": "dict", "spec": {"a": [1, "1e3", {"vary": False}, ["k", 2.5, {"max": 9}]], "1": {"b": [[7]]}}})


def exhaustive_small_specs(ck, batch):
    """every group list of <= 3 items over a small item alphabet, with the default block at every position"""
    import itertools
    alpha = [1, 2.5, "1e3", "lab", None, D([("vary", False)]), D([("min", 0)]), ["k", 3], [4], ["1e2"], [5, D([("vary", True)])],
             ["x", D([("max", 9)]), 6], [D([("expr", "2")]), "y"]]
    n = 0
    for k in (0, 1, 2, 3):
        for items in itertools.product(range(len(alpha)), repeat=k):
            its = [alpha[i] for i in items]
            for form in ("dict", "list"):
                spec = D([("g", its)]) if form == "dict" else its
                spec_case(ck, batch, {"kind": "spec", "form": form, "spec": real.to_json(spec)})
                n += 1
    ck.extra["exhaustive_small_specs"] = f"all {n} group lists of <= 3 items over an alphabet of {len(alpha)} items, dict and list form"


def exhaustive_small_sets(ck, batch, scratch):
    """every single-parameter set over a small attribute domain, and every pair of two label/value/expression
    variants, through every format and both settings of replace_infinfinity"""
    import itertools
    labels = ["1.10", "a.b"]
    values = [1.5, math.nan]
    stderrs = [None, 0.1]
    exprs = [None, "1"]
    maxs = [None, 5.0]
    mins = [None, 0.0]
    flags = [(True, False), (False, True), (True, True), (False, False)]
    singles = []
    for l, v, se, e, mx, mn, (vy, nn) in itertools.product(labels, values, stderrs, exprs, maxs, mins, flags):
        d = {"label": l, "value": v, "vary": vy, "non_negative": nn}
        if se is not None:
            d["standard_error"] = se
        if e is not None:
            d["expression"] = e
        if mx is not None:
            d["maximum"] = mx
        if mn is not None:
            d["minimum"] = mn
        singles.append(d)
    variants = [("csv", None), ("csv", False), ("tsv", None), ("xlsx", None), ("ods", None)]
    n = 0
    for d in singles:
        for fmt, flag in variants:
            case = {"kind": "roundtrip", "fmt": fmt, "params": [d]}
            if flag is not None:
                case["replace_inf"] = flag
            roundtrip_case(ck, batch, case, scratch)
            n += 1
    pair_rows = [{"label": l, "value": v, **({"expression": e} if e else {}), **({"maximum": m} if m is not None else {})}
                 for l, v, e, m in itertools.product(["1.10", "007", "k.1"], [2.0, 0.1 + 0.2], [None, "2.5"], [None, 3.0])]
    for a, b in itertools.permutations(pair_rows, 2):
        if a["label"] == b["label"]:
            continue
        for fmt in ("csv", "ods"):
            roundtrip_case(ck, batch, {"kind": "roundtrip", "fmt": fmt, "params": [a, b]}, scratch)
            n += 1
    ck.extra["exhaustive_small_sets"] = (f"{n} round trips: all {len(singles)} single-parameter sets over label x value x stderr x "
                                         "expression x bounds x flags in csv (flag default/off), tsv, xlsx, ods; all ordered pairs "
                                         f"of {len(pair_rows)} rows with distinct labels in csv and ods")


def search(ck):
    """widened oracle-only sweep on the real code"""
    batch = Batch()
    with real.Scratch() as scratch:
        for i in range(ck.n(1500, 12000)):
            if ck.violations:
                return
            k = i % 6
            if k == 5:
                run_case(ck, batch, gen_overwrite_case(ck.rng), scratch, with_model=False)
            elif k < 3:
                run_case(ck, batch, gen_roundtrip_case(ck.rng), scratch, with_model=False)
            elif k == 3:
                run_case(ck, batch, gen_intent_case(ck.rng), scratch, with_model=False)
            else:
                run_case(ck, batch, gen_table_case(ck.rng, "file"), scratch, with_model=False)


def replay(ck, case):
    c = case.get("case", case)
    batch = Batch()
    cases = [d["case"] for d in case["disagreements"]] if "disagreements" in case else [c]
    with real.Scratch() as scratch:
        for c in cases:
            if c.get("kind") in ("sci", "label", "consts"):
                print("replay of scanner / table cases: re-run the check")
                continue
            run_case(ck, batch, c, scratch)
    batch.run(ck)
    for d in ck.disagreements:
        print("DISAGREEMENT", d["what"])
    for v in ck.violations:
        print("VIOLATION-DETAIL", v["key"], v["what"])
