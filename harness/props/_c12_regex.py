"""C12 — translator and real-code adapters for the `$label` rewriting.

`generate(ck)` regenerates lean/GlotaranModel/Generated/C12.lean from VERIF_REPO:

  exprPattern / exprFlags     PARAMETER_EXPRESSION_REGEX.pattern and the names of its flags besides re.UNICODE
  exprParse                   the pattern as parsed by Python's own regex parser (re._parser), canonical text (information)
  shape                       "sigil-class+-trailer" | "sigil-class+" | "unknown:<why>" — what the recogniser below found:
                              a literal sigil, ONE capture group holding a greedy `class+`, optionally followed by the
                              always-true trailer `((?!class+)|$)`; only these shapes are modelled by the hand-written
                              scanner (GlotaranModel/C12Regex.lean), a theorem pins `shape`
  sigil, classLits, classRanges, classCats, asciiOnly, hasTrailer    the parameters of that shape
  templatePrefix / templateSuffix   the replacement text around the label, obtained by *running*
                              `Parameter(label, expression="$<probe>").transformed_expression` for several probes
                              (so a lambda instead of a template string is the same table)
  templateSource              the literal replacement template found in set_transformed_expression by `ast` ("" if none)
  wordRanges / digitRanges    the non-ASCII code point ranges this interpreter's `re` matches with `\\w` / `\\d`
"""
from __future__ import annotations

import ast
import hashlib
import re
import types

from harness import core

GEN_FILE = core.LEAN / "GlotaranModel" / "Generated" / "C12.lean"
SOURCES = ["glotaran/parameter/parameter.py"]


# ------------------------------------------------------------------------------------------
# the real code
# ------------------------------------------------------------------------------------------
_MOD = []


def real_module():
    if not _MOD:
        core.import_glotaran()
        from glotaran.parameter import parameter as pm

        _MOD.append(pm)
    return _MOD[0]


def real_transform(text: str):
    """`transformed_expression` the real code derives from the expression text (through the attrs validator)"""
    pm = real_module()
    return pm.Parameter(label="x", expression=text).transformed_expression


_FAST = {}


def real_transform_fast(text: str):
    """the same through `set_transformed_expression` on a bare object (bulk enumeration); falls back to a Parameter"""
    pm = real_module()
    f = _FAST.get("f")
    if f is None:
        def via_validator(t):
            o = types.SimpleNamespace(vary=True, transformed_expression=None)
            pm.set_transformed_expression(o, None, t)
            return o.transformed_expression

        try:
            ok = all(via_validator(t) == real_transform(t) for t in ("$a.1+($b_2)", "1", "", "$", "$a$b "))
        except Exception:  # noqa: BLE001 - any change of the internal signature: use the public constructor
            ok = False
        f = _FAST["f"] = via_validator if ok else real_transform
    return f(text)


def real_findall(text: str):
    """labels the real regex finds (what `Parameter.markdown` iterates over)"""
    pm = real_module()
    out = []
    for m in pm.PARAMETER_EXPRESSION_REGEX.finditer(text):
        out.append(m.group(1) if m.re.groups else m.group(0))
    return out


def lookups_in(transformed: str, quote: str):
    """the quoted string literals of a transformed expression, in order (1st-2nd, 3rd-4th … quote)"""
    parts = transformed.split(quote)
    lits = parts[1::2]
    if (len(parts) - 1) % 2 == 1:      # an unterminated literal is dropped
        lits = lits[:-1]
    return lits


# ------------------------------------------------------------------------------------------
# extraction
# ------------------------------------------------------------------------------------------
def _sre():
    try:
        import re._constants as sc
        import re._parser as sp
    except ImportError:  # Python < 3.11
        import sre_constants as sc
        import sre_parse as sp
    return sp, sc


def _dump(items) -> str:
    sp, sc = _sre()
    out = []
    for op, av in items:
        name = str(op).lower()
        if op in (sc.LITERAL, sc.NOT_LITERAL):
            out.append(f"({name} {av})")
        elif op is sc.CATEGORY:
            out.append(f"(cat {str(av).lower()})")
        elif op is sc.IN:
            out.append("(in " + _dump(av) + ")")
        elif op is sc.RANGE:
            out.append(f"(range {av[0]} {av[1]})")
        elif op in (sc.MAX_REPEAT, sc.MIN_REPEAT, getattr(sc, "POSSESSIVE_REPEAT", None)):
            hi = "inf" if av[1] == sc.MAXREPEAT else av[1]
            out.append(f"({name} {av[0]} {hi} " + _dump(av[2]) + ")")
        elif op is sc.SUBPATTERN:
            out.append(f"(group {av[0]} {av[1]} {av[2]} " + _dump(av[3]) + ")")
        elif op is sc.BRANCH:
            out.append("(branch " + "".join("[" + _dump(b) + "]" for b in av[1]) + ")")
        elif op in (sc.ASSERT, sc.ASSERT_NOT):
            out.append(f"({name} {av[0]} " + _dump(av[1]) + ")")
        elif op is sc.AT:
            out.append(f"(at {str(av).lower()})")
        elif op is sc.NEGATE:
            out.append("(negate)")
        elif op is sc.ANY:
            out.append("(any)")
        else:
            out.append(f"({name} {av!r})")
    return "".join(out)


def _class_of(item):
    """(lits, ranges, cats) of an IN / single class item, or None"""
    sp, sc = _sre()
    op, av = item
    members = av if op is sc.IN else [item]
    lits, ranges, cats = [], [], []
    for o, a in members:
        if o is sc.LITERAL:
            lits.append(a)
        elif o is sc.RANGE:
            ranges.append((a[0], a[1]))
        elif o is sc.CATEGORY and a in (sc.CATEGORY_WORD, sc.CATEGORY_DIGIT):
            cats.append("word" if a is sc.CATEGORY_WORD else "digit")
        else:
            return None
    return lits, ranges, cats


def recognise(pattern: str, flags: int):
    """-> dict(shape, sigil, lits, ranges, cats, trailer, group)"""
    sp, sc = _sre()
    bad = lambda why: {"shape": f"unknown:{why}", "sigil": 36, "lits": [], "ranges": [], "cats": [], "trailer": False}
    try:
        tree = sp.parse(pattern, flags & ~re.UNICODE)
    except Exception as e:  # noqa: BLE001
        return bad(type(e).__name__)
    items = list(tree)
    other = flags & ~(re.UNICODE | re.ASCII)
    if other:
        return bad("flags")
    if len(items) not in (2, 3) or items[0][0] is not sc.LITERAL:
        return bad("not sigil+group")
    sigil = items[0][1]
    op, av = items[1]
    if op is not sc.SUBPATTERN or av[0] != 1 or av[1] or av[2] or len(av[3]) != 1:
        return bad("no single capture group")
    rop, rav = av[3][0]
    if rop is not sc.MAX_REPEAT or rav[0] != 1 or rav[1] != sc.MAXREPEAT or len(rav[2]) != 1:
        return bad("group is not a greedy class+")
    cls = _class_of(rav[2][0])
    if cls is None:
        return bad("class member")
    trailer = False
    if len(items) == 3:
        top, tav = items[2]
        inner = tav[3] if top is sc.SUBPATTERN and not tav[1] and not tav[2] else [items[2]]
        ok = False
        if len(inner) == 1 and inner[0][0] is sc.BRANCH and len(inner[0][1][1]) == 2:
            b1, b2 = inner[0][1][1]
            if (len(b1) == 1 and b1[0][0] is sc.ASSERT_NOT and b1[0][1][0] == 1 and len(b1[0][1][1]) == 1
                    and len(b2) == 1 and b2[0] == (sc.AT, sc.AT_END)):
                lop, lav = b1[0][1][1][0]
                if lop is sc.MAX_REPEAT and lav[0] == 1 and len(lav[2]) == 1 and _class_of(lav[2][0]) == cls:
                    ok = True
                elif _class_of(b1[0][1][1][0]) == cls:
                    ok = True
        if not ok:
            return bad("trailer")
        trailer = True
    return {"shape": "sigil-class+-trailer" if trailer else "sigil-class+", "sigil": sigil, "lits": cls[0], "ranges": cls[1],
            "cats": cls[2], "trailer": trailer}


def _template_literal(src: str) -> str:
    """first argument of the `.sub(` call inside set_transformed_expression when it is a string literal"""
    try:
        tree = ast.parse(src)
    except SyntaxError:
        return ""
    for fn in ast.walk(tree):
        if isinstance(fn, ast.FunctionDef) and fn.name == "set_transformed_expression":
            for n in ast.walk(fn):
                if (isinstance(n, ast.Call) and isinstance(n.func, ast.Attribute) and n.func.attr in ("sub", "subn")
                        and n.args and isinstance(n.args[0], ast.Constant) and isinstance(n.args[0].value, str)):
                    return n.args[0].value
    return ""


def _probe_template():
    """(prefix, suffix) around the label in the transformed expression, or None when the probes disagree"""
    found = set()
    for probe in ("q", "zz9", "a.b_1", "K"):
        t = real_transform("$" + probe)
        if not isinstance(t, str) or t.count(probe) != 1:
            return None
        i = t.index(probe)
        found.add((t[:i], t[i + len(probe):]))
    return found.pop() if len(found) == 1 else None


def _nonascii_ranges(pat: str):
    r = re.compile(pat)
    out = []
    text = "".join(chr(c) for c in range(128, 0x110000) if not 0xD800 <= c <= 0xDFFF)
    for m in r.finditer(text):
        c = ord(m.group(0))
        if out and out[-1][1] == c - 1:
            out[-1][1] = c
        else:
            out.append([c, c])
    return [(a, b) for a, b in out]


def extract() -> dict:
    import unicodedata

    pm = real_module()
    rx = pm.PARAMETER_EXPRESSION_REGEX
    t = recognise(rx.pattern, rx.flags)
    t["pattern"] = rx.pattern
    t["flags"] = sorted(f.name for f in re.RegexFlag if f.name and len(f.name) > 1 and rx.flags & f and f is not re.UNICODE)
    sp, _ = _sre()
    try:
        t["parse"] = _dump(sp.parse(rx.pattern, rx.flags & ~re.UNICODE))
    except Exception as e:  # noqa: BLE001
        t["parse"] = f"unparsable {type(e).__name__}"
    t["ascii"] = bool(rx.flags & re.ASCII)
    pt = _probe_template()
    if pt is None:
        t["shape"] = "unknown:template"
        pt = ("", "")
    t["prefix"], t["suffix"] = pt
    t["template_source"] = _template_literal((core.REPO / SOURCES[0]).read_text())
    t["word"] = _nonascii_ranges(r"\w")
    t["digit"] = _nonascii_ranges(r"\d")
    t["unidata"] = unicodedata.unidata_version
    return t


# ------------------------------------------------------------------------------------------
# rendering
# ------------------------------------------------------------------------------------------
def lchar(c: int) -> str:
    return f"Char.ofNat {c}"


def lchars(s: str) -> str:
    return "[" + ", ".join(lchar(ord(ch)) for ch in s) + "]"


def lstr(s: str) -> str:
    out = ['"']
    for ch in s:
        if ch == '"':
            out.append('\\"')
        elif ch == "\\":
            out.append("\\\\")
        elif ch == "\n":
            out.append("\\n")
        elif ch == "\t":
            out.append("\\t")
        elif 32 <= ord(ch) < 127:
            out.append(ch)
        else:
            out.append("\\u{%x}" % ord(ch))
    out.append('"')
    return "".join(out)


def lpairs(xs, per_line=10) -> str:
    xs = [f"({a}, {b})" for a, b in xs]
    if len(xs) <= per_line:
        return "[" + ", ".join(xs) + "]"
    lines = [", ".join(xs[i:i + per_line]) for i in range(0, len(xs), per_line)]
    return "[\n  " + ",\n  ".join(lines) + "\n]"


def render(t: dict) -> str:
    o = []
    o.append("/- GENERATED by harness/props/_c12_regex.py from " + ", ".join(SOURCES) + f"\n   (PARAMETER_EXPRESSION_REGEX, "
             f"set_transformed_expression) and this interpreter's `re` (Unicode {t['unidata']}). Do not edit. -/")
    o.append("namespace Glotaran.C12.Generated\n")
    o.append("/-- `PARAMETER_EXPRESSION_REGEX.pattern` (text, information) -/")
    o.append(f"def exprPattern : String := {lstr(t['pattern'])}\n")
    o.append("/-- flags of the compiled pattern besides `re.UNICODE` -/")
    o.append("def exprFlags : List String := [" + ", ".join(lstr(f) for f in t["flags"]) + "]\n")
    o.append("/-- the pattern as parsed by Python's regex parser (information) -/")
    o.append(f"def exprParse : String := {lstr(t['parse'])}\n")
    o.append("/-- the shape the extractor recognised; the scanner of the model is written for\n"
             "    `sigil-class+-trailer` (`\\$(class+)((?!class+)|$)`) and `sigil-class+` -/")
    o.append(f"def shape : String := {lstr(t['shape'])}\n")
    o.append("/-- the literal every match starts with -/")
    o.append(f"def sigil : Char := {lchar(t['sigil'])}\n")
    o.append("/-- members of the character class of the capture group -/")
    o.append("def classLits : List Nat := [" + ", ".join(str(c) for c in t["lits"]) + "]")
    o.append(f"def classRanges : List (Nat × Nat) := {lpairs(t['ranges'])}")
    o.append(f"def classHasWord : Bool := {'true' if 'word' in t['cats'] else 'false'}   -- `\\w`")
    o.append(f"def classHasDigit : Bool := {'true' if 'digit' in t['cats'] else 'false'}   -- `\\d`\n")
    o.append("/-- `re.ASCII`: `\\w`, `\\d` match ASCII only -/")
    o.append(f"def asciiOnly : Bool := {'true' if t['ascii'] else 'false'}\n")
    o.append("/-- is the group followed by `((?!class+)|$)` -/")
    o.append(f"def hasTrailer : Bool := {'true' if t['trailer'] else 'false'}\n")
    o.append("/-- the replacement: text in front of / behind the label (observed on the real code) -/")
    o.append(f"def templatePrefix : List Char := {lchars(t['prefix'])}   -- {lstr(t['prefix'])}")
    o.append(f"def templateSuffix : List Char := {lchars(t['suffix'])}   -- {lstr(t['suffix'])}\n")
    o.append("/-- the literal template in `set_transformed_expression` (\"\" when it is not a string literal; information) -/")
    o.append(f"def templateSource : String := {lstr(t['template_source'])}\n")
    o.append("/-- non-ASCII code points matched by `\\w` / `\\d` (inclusive ranges, ascending) -/")
    o.append(f"def wordRanges : List (Nat × Nat) := {lpairs(t['word'])}\n")
    o.append(f"def digitRanges : List (Nat × Nat) := {lpairs(t['digit'])}\n")
    o.append("end Glotaran.C12.Generated\n")
    return "\n".join(o)


def generate(ck):
    t = extract()
    text = render(t)
    GEN_FILE.parent.mkdir(parents=True, exist_ok=True)
    if not GEN_FILE.exists() or GEN_FILE.read_text() != text:
        GEN_FILE.write_text(text)
    h = hashlib.sha1()
    for f in SOURCES:
        h.update((core.REPO / f).read_bytes())
    return [{"table": "Consts (lean/GlotaranModel/Generated/C12.lean): exprPattern, shape, sigil, class, hasTrailer, "
                      "templatePrefix/Suffix, wordRanges, digitRanges",
             "source": SOURCES + [f"python re, Unicode {t['unidata']}"], "source_sha1": h.hexdigest(),
             "sha1": hashlib.sha1(text.encode()).hexdigest(), "shape": t["shape"], "pattern": t["pattern"],
             "template": [t["prefix"], t["suffix"]]}], t
